#!/usr/bin/env python3
"""tools/seed_table.py - regenerates the seeded-changes table of DESIGN.md §7.4 from seeded/*/meta.json
(the rows between the table header and the first blank line after it)."""
import glob
import json
import os
import re

HERE = os.path.dirname(os.path.dirname(os.path.abspath(__file__)))
HEADER = "| seed | change | needs, to manifest | caught by (quick tier) | first version missed |"


def key(d):
    m = re.match(r"(C\d+)(?:-r(\d+))?$", d)
    return (int(m.group(2) or 1), m.group(1))


def esc(s):
    return str(s).replace("|", "\\|").replace("\n", " ")


def rows():
    out = []
    for d in sorted((os.path.basename(p) for p in glob.glob(os.path.join(HERE, "seeded", "C*")) if os.path.isdir(p)), key=key):
        mp = os.path.join(HERE, "seeded", d, "meta.json")
        if not os.path.exists(mp):
            continue
        m = json.load(open(mp))
        if not m.get("kept", m.get("confirmed")):
            continue
        br = re.sub(r"^C\d+: ", "", m.get("breaks", ""))
        out.append(f"| {d} | {esc(br)} | {esc(m.get('needs_to_manifest', ''))} | {', '.join(m.get('caught_by', []))} | "
                   f"{'yes' if m.get('missed_by_first_version_of_check') else ''} |")
    return out


def main():
    p = os.path.join(HERE, "DESIGN.md")
    lines = open(p, encoding="utf-8").read().split("\n")
    i = lines.index(HEADER)
    j = i + 2
    while j < len(lines) and lines[j].startswith("|"):
        j += 1
    lines[i + 2:j] = rows()
    open(p, "w", encoding="utf-8").write("\n".join(lines))
    print(f"{len(rows())} rows")


if __name__ == "__main__":
    main()
