#!/usr/bin/env python3
"""tools/seed_round.py <N>  - prepares seeding round N: one scratch git worktree of /repo per property under
/tmp/seed<N>/<ID> with a SEED_TASK.md that holds the property text, the ideas of all earlier kept seeds for that
property (so that a new one differs) and the deliverables. Nothing from /verif is copied into the worktrees.
Afterwards: launch one fresh agent per worktree, then tools/seed_eval.py <ID> --src /tmp/seed<N>/<ID>/seed_out
--name <ID>-r<N>, then `git -C /repo worktree remove --force` each, `git worktree prune`, `git stash clear`."""
import glob
import json
import os
import subprocess
import sys

HERE = os.path.dirname(os.path.dirname(os.path.abspath(__file__)))
T = """You are working in a scratch git worktree of the Python library fabric-testbed/InformationModel (package `fim`) located at {dir} (a checkout of the current HEAD). Work ONLY inside {dir}; do not read or write anything under /repo or /verif or other /tmp/seed* directories, and do not read files under /root. Do NOT use `git stash` (the stash is shared between worktrees); to test with/without your change use `git diff HEAD -- fim > seed_out/patch.diff; git apply -R seed_out/patch.diff; ...; git apply seed_out/patch.diff`.

TASK: produce a small change to the library source (files under {dir}/fim) that BREAKS the property below, while
 (a) the code still imports and compiles, and
 (b) the repository's existing test suite gives exactly the same result as before. Command: `cd {dir} && /venv/bin/python -m pytest -q -p no:cacheprovider --timeout=900 --continue-on-collection-errors` -> baseline `36 failed, 77 passed` (the 36 need a Neo4j server / network and fail regardless; the set of passing tests must stay the same). Do not edit tests.

PROPERTY {pid} - {title}
Statement: {statement}
Quantified over: {quant}
Code it is anchored in: {files}

Earlier attempts already explored the following ideas, so pick a DIFFERENT clause of the property and a different mechanism (a different function if possible):
{prev}

REQUIREMENTS FOR THE CHANGE
 * Realistic: the kind of mistake a maintainer could make in a refactor or a feature patch (wrong variable, dropped or narrowed branch, off-by-one at a limit, weakened guard, forgotten copy so that two objects share state, a cache that is not invalidated, reordered statements, a missed case, a changed default, dependence on iteration order, an 'optimisation' with a hidden assumption) - not sabotage that looks deliberate, and not a syntax-level no-op.
 * It must be HARD to hit: the violation should need a specific multi-step history, two cooperating sites that each look fine alone, a rarely used argument combination or entry point, or an input in a narrow region (boundary value, unusual but legal shape). It must NOT be something that ordinary use of the library would expose at once.
 * Small: ideally 1-15 changed lines.

DELIVERABLES (in {dir}/seed_out/):
 * patch.diff  - `git -C {dir} diff HEAD -- fim` of your change (source only).
 * demo.py     - a standalone program, run as `cd {dir} && PYTHONPATH={dir} /venv/bin/python seed_out/demo.py`, that exits non-zero (failed assertion is fine) WITH your change and exits 0 WITHOUT it (verify both). It must exercise the library through its public behaviour and show the property's violation, not just detect the text of the patch. Do not hard-code the worktree path in demo.py (rely on PYTHONPATH / cwd).
 * notes.md    - what breaks, what exactly is needed for it to manifest, and why the existing tests do not notice.
Leave the worktree with the change applied. Be economical with reading: start from the anchored files. Final reply: a 5-10 line summary (what you changed, the trigger, verification results with and without the change).{extra}"""
EXTRA = {"C19": "\n(There is no Neo4j server in this sandbox: the demonstration can capture the statements handed to the driver by substituting a recording stand-in for `fim.graph.neo4j_property_graph.GraphDatabase`.)",
         "C20": "\n(For an interleaving-dependent change the demonstration may force the interleaving deterministically, e.g. with threading events/barriers injected by monkeypatching, or sys.settrace, rather than relying on timing.)"}


def main():
    n = int(sys.argv[1])
    root = f"/tmp/seed{n}"
    os.makedirs(root, exist_ok=True)
    props = [json.loads(l) for l in open(os.path.join(HERE, "properties.jsonl")) if l.strip()]
    for p in props:
        d = f"{root}/{p['id']}"
        if not os.path.exists(d):
            subprocess.run(["git", "-C", "/repo", "worktree", "add", "-q", "--detach", d, "HEAD"], check=True)
        prev = []
        # ideas used for neighbouring properties (same code region) count as used too
        family = next((f for f in (("C07", "C08", "C09"), ("C03", "C16"), ("C13", "C14"), ("C04", "C20"))
                       if p["id"] in f), (p["id"],))
        for pid in family:
            for mp in sorted(glob.glob(os.path.join(HERE, "seeded", pid + "*", "meta.json"))):
                m = json.load(open(mp))
                if m.get("property") == pid and m.get("breaks"):
                    prev.append(m["breaks"].split(": ", 1)[-1])
        txt = T.format(dir=d, pid=p["id"], title=p["title"], statement=p["statement"], quant=p["quantifier"]["text"],
                       files=", ".join(p["anchors"]["files"]),
                       prev="\n".join(f'  {k + 1}. "{x}"' for k, x in enumerate(prev)), extra=EXTRA.get(p["id"], ""))
        open(f"{d}/SEED_TASK.md", "w").write(txt)
    print(f"prepared {len(props)} worktrees under {root}")


if __name__ == "__main__":
    main()
