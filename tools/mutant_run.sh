#!/bin/sh
# tools/mutant_run.sh <patch.diff> <ID> [<ID>...]   (env TIER=quick|thorough, CASES=n)
# Applies a patch to a scratch copy of /repo (outside /repo and /verif), runs the named checks against it
# with VERIF_REPO, prints each exit code, removes the copy. Evidence files are not touched (--no-evidence).
set -u
PATCH="$(realpath "$1")"; shift
HERE="$(cd "$(dirname "$0")/.." && pwd)"
SCR="$(mktemp -d /tmp/fimmut.XXXXXX)"
rsync -a --exclude .git /repo/ "$SCR/repo/"
# git apply: exact context (no fuzz) - a stale mutant must fail to apply instead of landing somewhere else
if ! (cd "$SCR/repo" && git apply --whitespace=nowarn -p1 "$PATCH" 2>/dev/null); then echo "PATCH-FAILED $PATCH"; rm -rf "$SCR"; exit 3; fi
rc_all=0
for id in "$@"; do
  VERIF_REPO="$SCR/repo" "$HERE/check" "$id" --tier "${TIER:-quick}" --no-evidence ${CASES:+--cases $CASES} > "$SCR/out.$id" 2>&1
  rc=$?
  echo "MUTANT $(basename "$PATCH") check=$id exit=$rc $(grep -m1 -A1 '^VIOLATION' "$SCR/out.$id" | tr '\n' ' ')"
  [ $rc -eq 2 ] && grep -E "HARNESS|Error|error" "$SCR/out.$id" | head -5
  [ $rc -ne 1 ] && rc_all=1
done
rm -rf "$SCR"
exit $rc_all
