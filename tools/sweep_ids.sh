#!/bin/sh
# tools/sweep_ids.sh <seed> <tier> <ID...>  - like sweep.sh for the listed checks, in the given order
SEED="$1"; TIER="$2"; shift 2
cd "$(dirname "$0")/.."
worst=0
for id in "$@"; do
  s=$(date +%s)
  VERIF_SEED=$SEED ./check $id --tier $TIER --no-evidence > /tmp/sweep.$SEED.$id.out 2>&1
  rc=$?
  e=$(date +%s)
  echo "SWEEP seed=$SEED $id exit=$rc wall=$((e-s))s $(grep -c '^VIOLATION' /tmp/sweep.$SEED.$id.out) violations; $(grep -E '^HARNESS' /tmp/sweep.$SEED.$id.out | head -1 | cut -c1-200)"
  if [ $rc -ne 0 ]; then worst=$rc; grep -E -A2 '^VIOLATION' /tmp/sweep.$SEED.$id.out | cut -c1-400 | head -12; fi
done
exit $worst
