#!/usr/bin/env python3
"""Validate MANIFEST.json and evidence/*.json against the schemas (run with python3-vt, which has jsonschema)."""
import json, sys, glob, os
import jsonschema
HERE = os.path.dirname(os.path.dirname(os.path.abspath(__file__)))
ok = True
def v(path, schema):
    global ok
    try:
        jsonschema.validate(json.load(open(path)), json.load(open(schema)))
        print("ok  ", os.path.relpath(path, HERE))
    except Exception as e:
        ok = False
        print("FAIL", path, str(e)[:300])
v(os.path.join(HERE, "MANIFEST.json"), "/root/.vp/MANIFEST.schema.json")
for p in sorted(glob.glob(os.path.join(HERE, "evidence", "*.json"))):
    v(p, "/root/.vp/EVIDENCE.schema.json")
sys.exit(0 if ok else 1)
