#!/usr/bin/env python3
"""Regenerates /verif/MANIFEST.json from the table below (keeps the manifest valid and consistent)."""
import json
import os

HERE = os.path.dirname(os.path.dirname(os.path.abspath(__file__)))

# id -> (technique, level text, level note, design ref)
CHECKS = {
    "C15": ("property-based testing (Hypothesis) against an integer-arithmetic oracle on field dictionaries",
            "Generated-input search: tens of thousands (quick) to millions (thorough) of capacity triples over all 8 "
            "fields, every algebraic law of the statement checked against plain integer arithmetic. Exploration, "
            "not proof: bounded by the sampled values (0..2^62).",
            "Trusts Python int arithmetic and Hypothesis' generators; Capacities fields taken from the class itself.",
            "DESIGN.md §3 C15"),
}

NOT_APPLICABLE = {}   # id -> reason


def main():
    ids = [json.loads(l)["id"] for l in open(os.path.join(HERE, "properties.jsonl"), encoding="utf-8") if l.strip()]
    checks = []
    for pid in ids:
        if pid not in CHECKS:
            continue
        tech, text, note, ref = CHECKS[pid]
        checks.append({
            "property_id": pid,
            "quick_cmd": f"./check {pid} --tier quick",
            "thorough_cmd": f"./check {pid} --tier thorough",
            "evidence_file": f"evidence/{pid}.json",
            "replay_cmd_template": f"./check {pid} --replay {{path}}",
            "engine": "fimverif",
            "level_claimed": {"category": "exploration", "text": text, "design_ref": ref},
            "level_note": note,
            "technique": tech,
        })
    na = [{"property_id": pid, "reason": NOT_APPLICABLE.get(pid, "check not built yet in this session; see DESIGN.md")}
          for pid in ids if pid not in CHECKS]
    man = {
        "version": 1,
        "setup_cmd": "/venv/bin/python -c 'import hypothesis' 2>/dev/null || /venv/bin/pip install --no-index "
                     "--find-links /opt/veriftools/wheels hypothesis; /venv/bin/python -c 'import hypothesis, "
                     "networkx, lxml'",
        "hooks": {
            "guard": "FABRIC_FIM_VERIF",
            "enable": "no source hooks exist: all instrumentation is harness-side (monkeypatching at seams the "
                      "library exposes); checks export FABRIC_FIM_VERIF=1 for uniformity only",
            "baseline_off_cmd": "cd /repo && env -u FABRIC_FIM_VERIF /venv/bin/python -m pytest -q -p "
                                "no:cacheprovider --timeout=900 --continue-on-collection-errors",
            "source_commits": [],
            "add_only": True,
        },
        "engines": [
            {"name": "fimverif", "path": "fimverif/runner.py",
             "serves_properties": sorted(CHECKS),
             "kind_free_text": "Hypothesis-driven property-based testing: per property a case generator "
                               "(JSON-serialisable cases), a pure run_case(case) interpreter with an explicit "
                               "oracle, 16-shard multiprocessing driver, shrinking to replay files, finite "
                               "enumerations where the domain is small"},
        ],
        "checks": checks,
        "notes": "All checks: ./check <ID> --tier quick|thorough; VERIF_SEED selects the Hypothesis seed "
                 "(seed*1000+shard). Exit 0 held / 1 VIOLATION / 2 harness error. Known findings: "
                 "KNOWN_FINDINGS.txt. New shrunk failures are written under replays/_new/.",
        "not_applicable": na,
    }
    with open(os.path.join(HERE, "MANIFEST.json"), "w", encoding="utf-8") as f:
        json.dump(man, f, indent=1)
        f.write("\n")
    print(f"MANIFEST.json: {len(checks)} checks, {len(na)} not claimed")


if __name__ == "__main__":
    main()
