#!/usr/bin/env python3
"""Regenerates /verif/MANIFEST.json from the table below (keeps the manifest valid and consistent)."""
import json
import os

HERE = os.path.dirname(os.path.dirname(os.path.abspath(__file__)))

# id -> (technique, level text, level note, design ref)
CHECKS = {
    "C01": ("property-based round-trip testing (Hypothesis): serialize -> import through every entry point -> "
            "compare canonical content; re-serialisation read by an independent lxml/json reader",
            "Generated raw property graphs with adversarial text/int values (and, Domain B, models built by generated "
            "topology programs) are serialized to GraphML and JSON node-link and re-imported through all entry points "
            "on both store flavours; content, types, GraphID stamping, label markup, validation and idempotence are "
            "compared. Exploration within the stated value alphabet and sizes.",
            "Trusts lxml/json as independent readers and the harness' canonical snapshot (storage.extract_graph).",
            "DESIGN.md §3 C01"),
    "C02": ("property-based round-trip testing (Hypothesis) of generated sliver trees through graph / dict / JSON, plus "
            "enumeration of every (element kind x settable property) for set/get/unset",
            "Generated slivers of all five classes over the full property vocabulary and nesting shapes are written to "
            "a graph / dict / JSON and rebuilt; every (flavour x element kind x settable property) is enumerated for "
            "set->get and unset->absent. Exploration; the property table is exhaustive, the values are sampled.",
            "Trusts the field-wise canonicalisation in engines/slivers.py (checked against each class's "
            "list_properties(): a setter without a strategy is a harness error).",
            "DESIGN.md §3 C02"),
    "C03": ("property-based testing (Hypothesis) of encode/decode round trips, fixpoints, unknown-key tolerance, "
            "copy-with-changes purity and finalisation, per codec class",
            "Tens of thousands of generated values per run over 19 codec classes (all fields, scalar/list forms, "
            "zero/false/empty/boundary values, unknown keys injected) against field-wise equality and text fixpoint "
            "oracles. Exploration.",
            "Trusts json and the field-wise canonicalisation in the checker.",
            "DESIGN.md §3 C03"),
    "C07": ("stateful property-based testing: Hypothesis-generated topology-building programs, invariants (published "
            "rules transliterated, containment, name scopes, views) evaluated on the extracted model after every call",
            "Programs of 8-60 API calls over the whole building alphabet on both topology flavours, names fresh or "
            "colliding, ids generated or caller-supplied, stored or fresh handles; after EVERY call (also a failing "
            "one) the model is extracted and checked. Regions behind recorded findings are excluded by construction "
            "and counted. Exploration.",
            "Trusts the checker's transliteration of graph_validation_rules.json (vocabularies are read from the file) "
            "and its independent ownership traversal (engines/topo.py Snap).",
            "DESIGN.md §3 C07"),
    "C08": ("stateful property-based testing: generated building programs, then EVERY applicable removal operation "
            "tried on a copy of the final state and compared with a predicted post-state",
            "For each generated topology every applicable remove/disconnect/unpeer/prune operation (up to 3 targets "
            "per kind) is executed on its own copy; the post-state must equal pre-state minus (owned structure + "
            "peering artefacts), survivors and their connections unchanged, operation handles consistent with fresh "
            "lookups. Exploration.",
            "Trusts the ownership/artefact prediction (my reading of the statement) and the serialize+load state copy.",
            "DESIGN.md §3 C08"),
    "C09": ("fault-injection property testing: Hypothesis-generated topology programs with fault calls at random "
            "positions; model snapshot before vs after every raising call",
            "Programs interleave building calls with calls whose rejected argument sits at every position (k-th "
            "interface of a service, a bad property among good ones, j-th port of a compound facility/switch call, "
            "missing k-th interface of a link, duplicate names/ids ...); after ANY raising call the extracted model "
            "and a bystander graph must equal the pre-call snapshot. Fault positions are sampled, not enumerated "
            "exhaustively.",
            "Trusts the canonical snapshot (storage.extract_graph) as the observation of 'the model'.",
            "DESIGN.md §3 C09"),
    "C10": ("exhaustive enumeration of the slice product built through the public API against an independent predicate "
            "over a pinned copy of the constraint tables, plus Hypothesis-generated multi-service slices",
            "15 service types x interface multisets (0..4 interfaces over 4 kinds) x site placements x declared site x "
            "constrained properties are built through the topology API and validated; accept/reject must equal the "
            "predicate in both directions, successful validation must record the inferred site, the L2PTP/SharedPort "
            "guardrail must refuse at connect time. Quick: boundary subset (~10^4 slices); thorough: full product "
            "(~3*10^5). The pinned table is compared with the live table on every case.",
            "Trusts the predicate (my reading of the documented constraints) and the pinned table copy.",
            "DESIGN.md §3 C10"),
    "C11": ("property-based testing (Hypothesis): generated slice descriptions built in several creation orders, "
            "attributes compared with a direct tally of the description and across orders / sources",
            "Each generated slice (nodes, components, facilities, services incl. external and port-mirror services "
            "inside/outside the slice) is built in 2-6 permutations; authorization attributes, the PDP request and the "
            "accounting summary are compared with an independent tally, across orders, and topology vs serialized "
            "model. Exploration.",
            "Trusts the tally computed from the case description.",
            "DESIGN.md §3 C11"),
    "C12": ("property-based testing (Hypothesis): delegation-set round trips and rejection probes, pool regrouping "
            "round trip, and annotation of generated substrate models read back",
            "Generated delegation sets (all formats, label/capacity details), pool families (k pools x defining node x "
            "reference sets) and small substrates; round trip, exact intermediate form and rejection of ill-typed "
            "input are asserted. Exploration.",
            "Trusts the checker's structural equality on Delegations/Pools.",
            "DESIGN.md §3 C12"),
    "C16": ("grammar-based property testing (Hypothesis): member / near-miss generators per documented format against "
            "hand-written character-level recognisers, differential across all construction paths",
            "Tens of thousands of candidate strings per run (members, edit-distance-1 near-misses, boundary numbers, "
            "scalar and list forms) pushed through every entry point (constructor, update, from_json, element "
            "assignment, add_* keyword, rename, graph read-back); accept/reject and the stored value are compared with "
            "an independent three-valued recogniser. Exploration.",
            "Trusts the hand-written recognisers (engines/labelgrammar.py), which read the documented patterns "
            "literally; engine-specific regions (Unicode digits, bool-as-int) are only compared differentially.",
            "DESIGN.md §3 C16, Appendix D"),
    "C17": ("property-based testing (Hypothesis): generated sliver + edit script, expected TopologyDiff computed from "
            "the script",
            "Generated node / service / interface slivers and edit scripts of up to 5 edits; added/removed sets, "
            "modified flags, antisymmetry and operand purity are compared with a reference comparison of the two "
            "descriptions. Exploration.",
            "Trusts the reference comparison of descriptions in c17.py.",
            "DESIGN.md §3 C17"),
    "C18": ("exhaustive enumeration of the request grid and catalogue x argument shapes against a brute-force Pareto "
            "oracle and the catalogue JSON, plus Hypothesis-generated requests",
            "Every (core, ram, disk) request on the grid spanned by the catalogue values +-1 (31 824 requests) and every "
            "catalogue entry x naming/id/label argument combination is enumerated completely in both tiers; random "
            "requests beyond the grid are sampled. Exhaustive over the stated finite grid.",
            "Trusts the checker's independent reading of instance_sizes.json / component_catalog.json.",
            "DESIGN.md §3 C18"),
    "C04": ("stateful property-based testing (Hypothesis-generated operation histories) against an executable "
            "reference model of the graph store",
            "Generated histories of store operations (imports in both text formats through all four entry points, "
            "mutations, deletes, clones) over 4 graph ids on both store flavours; after EVERY step the canonical "
            "content of every graph is compared with a reference model (frame + target), node identities and the "
            "lock state are checked. Exploration within the stated alphabet and history length.",
            "Trusts the reference model (DESIGN.md Appendix A) and networkx's own GraphML/JSON writers used by the "
            "harness to produce import text.",
            "DESIGN.md §3 C04"),
    "C05": ("model-based testing: exhaustive enumeration of short operation sequences plus Hypothesis-generated long "
            "ones, three-way differential (shared backend, per-graph backend, reference model)",
            "Every sequence of <=2 (quick) / <=3 (thorough) operations over a 50-operation reduced alphabet from two "
            "base states is executed in lock-step on both backends and the reference model, plus thousands of random "
            "sequences of up to 40 operations; results, raised/not-raised and full graph content are compared after "
            "every step. Exhaustive only over the stated alphabet and depth.",
            "Trusts the reference model (my reading of the interface docstrings, DESIGN.md Appendix A).",
            "DESIGN.md §3 C05"),
    "C06": ("exhaustive enumeration of small typed graphs plus Hypothesis-generated larger ones against a "
            "brute-force oracle (set comprehension / BFS / all simple paths) computed from the edge list",
            "All graphs with <=3 (quick; plus 1/8 of n=4) / <=4 (thorough) nodes over 2 classes x 2 relations and "
            "thousands of random graphs of 4-8 nodes; on each graph every neighbour, two-hop, shortest-path query and "
            "(all or generated) path-with-hops queries and the derived helpers are compared with the oracle. "
            "Exhaustive only up to the node bound.",
            "Trusts the harness' own BFS / simple-path enumeration (no networkx in the oracle).",
            "DESIGN.md §3 C06"),
    "C13": ("property-based testing (Hypothesis): generated substrate models with multi-delegation annotations, "
            "generate_adms output checked clause by clause against the pre-call snapshot",
            "Generated ARMs (1-2 sites, components, switches, stitch nodes, links; 1-3 delegation ids; single/pooled; "
            "label-only/capacity-only/both/none) plus the four shipped advertisements; each partition is checked for "
            "own entries, no foreign entries, sub-model, closure, stitch nodes, source untouched, re-keying. "
            "Exploration.",
            "Trusts the independent delegation decoder and canonical snapshot in engines/substrate.py.",
            "DESIGN.md §3 C13"),
    "C14": ("stateful property-based testing (Hypothesis): families of delegation models, all merge permutations and "
            "generated merge/unmerge/snapshot/rollback histories against a reference combined model",
            "For each generated family (and the shipped advertisements) every merge permutation (<=24), unmerge / "
            "re-merge of every member and a generated 1-12 step history are executed on the in-memory composition of "
            "the CBM code and compared after every step with a reference model computed from the source snapshots. "
            "Exploration.",
            "Trusts the reference combined-model in c14.py; the harness composes Neo4jCBMGraph's backend-neutral "
            "methods with the NetworkX backend (no repository change).",
            "DESIGN.md §3 C14"),
    "C15": ("property-based testing (Hypothesis) against an integer-arithmetic oracle on field dictionaries",
            "Generated-input search: tens of thousands (quick) to millions (thorough) of capacity triples over all 8 "
            "fields, every algebraic law of the statement checked against plain integer arithmetic. Exploration, "
            "not proof: bounded by the sampled values (0..2^62).",
            "Trusts Python int arithmetic and Hypothesis' generators; Capacities fields taken from the class itself.",
            "DESIGN.md §3 C15"),    "C19": ("property-based testing at the driver boundary: every backend operation executed against a recording "
            "stand-in driver with adversarial values; captured statements linted by a hand-written Cypher lexer and "
            "compared metamorphically across value vectors",
            "91 operations x fixed adversarial vectors are enumerated, plus tens of thousands of generated value "
            "vectors; every captured (statement, parameters) pair is checked for lexical/structural well-formedness, "
            "parameter agreement, variable binding and data independence. Structural only (no Cypher grammar, no "
            "server); exploration.",
            "Trusts the stand-in driver's plausibility and the hand-written lexer; semantics against a real "
            "Neo4j/APOC are not observable offline.",
            "DESIGN.md §3 C19"),
    "C20": ("schedule exploration with a harness-owned deterministic scheduler (cooperative lock substituted for "
            "storage.lock, preemption at every source line of the store files): enumeration of single preemptions, "
            "Hypothesis-generated programs/schedules; fault-sequence enumeration for the single-thread lock clause",
            "(a) every sequence of <=2 (quick) / <=3 (thorough) store calls incl. failing ones on both stores plus "
            "generated longer ones: lock acquire/release balance, lock free on return and on exception, no lock error. "
            "(b) 2-3 threads x 1-3 store operations: every single preemption point x target thread for fixed 2-thread "
            "programs (thorough: preemption pairs), plus generated programs with up to 6 preemptions; the final store "
            "must equal some serial order of the operations (reference model), no deadlock, id counters above ids in "
            "use. Line-granularity schedules only; exploration, not proof.",
            "Trusts the scheduler (engines/sched.py), the reference model's per-operation effects and sys.settrace "
            "line events as the preemption granularity.",
            "DESIGN.md §3 C20"),

}

LEVELS = {"C09": "fault_enumeration"}

NOT_APPLICABLE = {}   # id -> reason


def main():
    ids = [json.loads(l)["id"] for l in open(os.path.join(HERE, "properties.jsonl"), encoding="utf-8") if l.strip()]
    checks = []
    for pid in ids:
        if pid not in CHECKS:
            continue
        tech, text, note, ref = CHECKS[pid]
        checks.append({
            "property_id": pid,
            "quick_cmd": f"./check {pid} --tier quick",
            "thorough_cmd": f"./check {pid} --tier thorough",
            "evidence_file": f"evidence/{pid}.json",
            "replay_cmd_template": f"./check {pid} --replay {{path}}",
            "engine": "fimverif",
            "level_claimed": {"category": LEVELS.get(pid, "exploration"), "text": text, "design_ref": ref},
            "level_note": note,
            "technique": tech,
        })
    na = [{"property_id": pid, "reason": NOT_APPLICABLE.get(pid, "check not built yet in this session; see DESIGN.md")}
          for pid in ids if pid not in CHECKS]
    man = {
        "version": 1,
        "setup_cmd": "/venv/bin/python -c 'import hypothesis' 2>/dev/null || /venv/bin/pip install --no-index "
                     "--find-links /opt/veriftools/wheels hypothesis; /venv/bin/python -c 'import hypothesis, "
                     "networkx, lxml'",
        "hooks": {
            "guard": "FABRIC_FIM_VERIF",
            "enable": "no source hooks exist: all instrumentation is harness-side (monkeypatching at seams the "
                      "library exposes); checks export FABRIC_FIM_VERIF=1 for uniformity only",
            "baseline_off_cmd": "cd /repo && env -u FABRIC_FIM_VERIF /venv/bin/python -m pytest -q -p "
                                "no:cacheprovider --timeout=900 --continue-on-collection-errors",
            "source_commits": [],
            "add_only": True,
        },
        "engines": [
            {"name": "fimverif", "path": "fimverif/runner.py",
             "serves_properties": sorted(CHECKS),
             "kind_free_text": "Hypothesis-driven property-based testing: per property a case generator "
                               "(JSON-serialisable cases), a pure run_case(case) interpreter with an explicit "
                               "oracle, 16-shard multiprocessing driver, shrinking to replay files, finite "
                               "enumerations where the domain is small"},
        ],
        "checks": checks,
        "notes": "All checks: ./check <ID> --tier quick|thorough; VERIF_SEED selects the Hypothesis seed "
                 "(seed*1000+shard). Exit 0 held / 1 VIOLATION / 2 harness error. Known findings: "
                 "KNOWN_FINDINGS.txt. New shrunk failures are written under replays/_new/.",
        "not_applicable": na,
    }
    with open(os.path.join(HERE, "MANIFEST.json"), "w", encoding="utf-8") as f:
        json.dump(man, f, indent=1)
        f.write("\n")
    print(f"MANIFEST.json: {len(checks)} checks, {len(na)} not claimed")


if __name__ == "__main__":
    main()
