#!/usr/bin/env python3
"""
tools/seed_eval.py <ID> [--src /tmp/seed/<ID>/seed_out] [--checks C07,C08] [--tier quick] [--cases N] [--keep]

Confirms a seeded change independently and runs the registered checks against it:
  1. copies /repo (working tree, no .git) to a scratch dir outside /repo and /verif,
  2. runs the demonstration WITHOUT the change (must exit 0), applies patch.diff, runs it WITH the change (must fail),
  3. runs the repository's test suite with the change (passing set must equal the 77-test baseline),
  4. runs ./check <id> for the property (and any --checks) with VERIF_REPO pointing at the patched copy,
  5. writes /verif/seeded/<ID>/{patch.diff, demo.py, notes.md, meta.json} and removes the scratch copy.
"""
import argparse
import json
import os
import re
import shutil
import subprocess
import sys
import tempfile
import time

HERE = os.path.dirname(os.path.dirname(os.path.abspath(__file__)))
PY = "/venv/bin/python"


def sh(cmd, cwd=None, env=None, timeout=3600):
    p = subprocess.run(cmd, cwd=cwd, env=env, shell=isinstance(cmd, str), capture_output=True, text=True, timeout=timeout)
    return p.returncode, p.stdout + p.stderr


def passing_set(repo):
    junit = os.path.join(repo, "junit-seed.xml")
    rc, out = sh(f"{PY} -m pytest -q -p no:cacheprovider --timeout=900 --continue-on-collection-errors "
                 f"--junitxml={junit}", cwd=repo)
    tail = out.strip().splitlines()[-1] if out.strip() else ""
    passed = set()
    if os.path.exists(junit):
        import xml.etree.ElementTree as ET
        for tc in ET.parse(junit).getroot().iter("testcase"):
            if not any(ch.tag in ("failure", "error", "skipped") for ch in tc):
                passed.add(f"{tc.get('classname')}::{tc.get('name')}")
        os.unlink(junit)
    return passed, tail


def main():
    ap = argparse.ArgumentParser()
    ap.add_argument("id")
    ap.add_argument("--src")
    ap.add_argument("--checks", default="")
    ap.add_argument("--tier", default="quick")
    ap.add_argument("--cases", default=None)
    ap.add_argument("--skip-tests", action="store_true")
    ap.add_argument("--name", default=None, help="directory name under /verif/seeded (default: the id)")
    a = ap.parse_args()
    pid = a.id.upper()
    src = os.path.abspath(a.src or f"/tmp/seed/{pid}/seed_out")
    patch = os.path.join(src, "patch.diff")
    demo = os.path.join(src, "demo.py")
    if not (os.path.exists(patch) and os.path.exists(demo)):
        print(f"missing patch.diff / demo.py in {src}")
        return 2
    scratch = tempfile.mkdtemp(prefix="fimseed.")
    repo = os.path.join(scratch, "repo")
    meta = {"property": pid, "source": src, "evaluated_at": time.strftime("%Y-%m-%dT%H:%M:%SZ", time.gmtime())}
    try:
        sh(f"rsync -a --exclude .git /repo/ {repo}/")
        os.makedirs(os.path.join(repo, "seed_out"), exist_ok=True)
        # demonstrations written in a scratch worktree may pin that worktree's path: point them at this copy
        with open(demo, encoding="utf-8") as f:
            demo_text = f.read()
        for wt in (f"/tmp/seed/{pid}", f"/tmp/seed2/{pid}", f"/tmp/seed3/{pid}", f"/tmp/seed4/{pid}", f"/tmp/seed5/{pid}", f"/tmp/seed6/{pid}", f"/tmp/seed7/{pid}", f"/tmp/seed8/{pid}", os.path.dirname(os.path.abspath(src))):
            demo_text = demo_text.replace(wt + "/", repo + "/").replace(wt, repo)
        with open(os.path.join(repo, "seed_out", "demo.py"), "w", encoding="utf-8") as f:
            f.write(demo_text)
        env = dict(os.environ, PYTHONPATH=repo, PYTHONDONTWRITEBYTECODE="1")
        env.pop("VERIF_REPO", None)
        rc0, out0 = sh(f"{PY} seed_out/demo.py", cwd=repo, env=env, timeout=900)
        meta["demo_without_change_exit"] = rc0
        rc, out = sh(f"patch -p1 -s < {patch}", cwd=repo)
        if rc != 0:
            print("PATCH FAILED\n" + out)
            meta["patch_applies"] = False
            return 3
        meta["patch_applies"] = True
        rc1, out1 = sh(f"{PY} seed_out/demo.py", cwd=repo, env=env, timeout=900)
        meta["demo_with_change_exit"] = rc1
        meta["demo_with_change_tail"] = out1.strip().splitlines()[-3:]
        if not a.skip_tests:
            baseline = set(json.load(open("/root/.vp/BASELINE.json"))["stable_pass"])
            got, tail = passing_set(repo)
            norm = lambda s: {x.replace("test.", "", 1) if x.startswith("test.") else x for x in s}
            meta["tests_tail"] = tail
            meta["tests_missing_from_baseline"] = sorted(norm(baseline) - norm(got))
            meta["tests_pass_like_baseline"] = not meta["tests_missing_from_baseline"]
        confirmed = rc0 == 0 and rc1 != 0 and (a.skip_tests or meta["tests_pass_like_baseline"])
        meta["confirmed"] = bool(confirmed)
        checks = [pid] + [c for c in a.checks.split(",") if c and c != pid]
        meta["checks"] = {}
        for c in checks:
            cmd = [os.path.join(HERE, "check"), c, "--tier", a.tier, "--no-evidence"]
            if a.cases:
                cmd += ["--cases", str(a.cases)]
            t0 = time.time()
            rc, out = sh(cmd, cwd=HERE, env=dict(os.environ, VERIF_REPO=repo), timeout=7200)
            sigs = re.findall(r"signature=(\S+)", out)
            meta["checks"][c] = {"exit": rc, "signatures": sigs[:6], "wall_s": round(time.time() - t0, 1),
                                 "cmd": " ".join(cmd[1:])}
            print(f"SEED {pid} check={c} exit={rc} sigs={sigs[:3]}")
            if rc == 2:
                print("\n".join(l for l in out.splitlines() if "HARNESS" in l or "Error" in l)[:1500])
        meta["caught_by"] = sorted(c for c, r in meta["checks"].items() if r["exit"] == 1)
        dst = os.path.join(HERE, "seeded", a.name or pid)
        os.makedirs(dst, exist_ok=True)
        if os.path.abspath(src) != os.path.abspath(dst):
            shutil.copy(patch, os.path.join(dst, "patch.diff"))
            shutil.copy(demo, os.path.join(dst, "demo.py"))
            if os.path.exists(os.path.join(src, "notes.md")):
                shutil.copy(os.path.join(src, "notes.md"), os.path.join(dst, "notes.md"))
        old = {}
        mp = os.path.join(dst, "meta.json")
        if os.path.exists(mp):
            old = json.load(open(mp))
        for k in ("breaks", "needs_to_manifest", "kept", "produced_by", "what_i_ran", "missed_by_first_version_of_check"):
            if k in old:
                meta[k] = old[k]
        if a.skip_tests:    # a re-check of the checks only: keep what the earlier full evaluation recorded
            for k in ("tests_tail", "tests_missing_from_baseline", "tests_pass_like_baseline"):
                if k in old:
                    meta[k] = old[k]
        json.dump(meta, open(mp, "w"), indent=1)
        print(json.dumps({k: meta[k] for k in ("confirmed", "demo_without_change_exit", "demo_with_change_exit",
                                               "caught_by") if k in meta}))
        if not a.skip_tests:
            print("tests:", meta.get("tests_tail"), "missing:", meta.get("tests_missing_from_baseline"))
    finally:
        shutil.rmtree(scratch, ignore_errors=True)
    return 0


if __name__ == "__main__":
    sys.exit(main())
