#!/bin/sh
# tools/sweep.sh <seed> [tier]  - run every registered check once with the given seed (no evidence written), summary at the end
SEED="${1:-1}"; TIER="${2:-quick}"
cd "$(dirname "$0")/.."
worst=0
for id in C01 C02 C03 C04 C05 C06 C07 C08 C09 C10 C11 C12 C13 C14 C15 C16 C17 C18 C19 C20; do
  s=$(date +%s)
  VERIF_SEED=$SEED ./check $id --tier $TIER --no-evidence > /tmp/sweep.$SEED.$id.out 2>&1
  rc=$?
  e=$(date +%s)
  echo "SWEEP seed=$SEED $id exit=$rc wall=$((e-s))s $(grep -c '^VIOLATION' /tmp/sweep.$SEED.$id.out) violations; $(grep -E '^HARNESS' /tmp/sweep.$SEED.$id.out | head -1 | cut -c1-200)"
  if [ $rc -ne 0 ]; then worst=$rc; grep -E -A2 '^VIOLATION' /tmp/sweep.$SEED.$id.out | cut -c1-400 | head -12; fi
done
exit $worst
