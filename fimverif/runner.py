"""
Runner for the property checks (see DESIGN.md §1).

    ./check <ID> --tier quick|thorough [--replay FILE] [--shards N] [--cases N]

A property module (fimverif/props/cNN.py) provides:

    ID            "C15"
    RULE          text: how cases are generated and what makes one non-trivial / distinct
    ASSUMPTIONS   list of str
    BUDGET        {"quick": total generated cases, "thorough": ...}
    strategy(tier) -> hypothesis strategy producing JSON-serialisable cases
    run_case(case) -> {"v": [(signature, message), ...], "nt": bool, "labels": [str, ...]}
    enumerate_cases(tier) -> iterable of cases (optional; finite enumerations, sharded by stride)
    ENUM_EXHAUSTIVE  bool (optional; True if enumerate_cases covers its finite space completely)
    MIN_LABEL_FRACTION  {label: fraction} (optional generator-health thresholds -> harness error)
    PROBES        {finding-key: case} (optional directed probes for KNOWN_FINDINGS keys)
    LEVEL         "exploration" | "fault_enumeration" (default exploration)

Exit codes: 0 held, 1 violation (VIOLATION line), 2 harness error.
"""
import argparse
import hashlib
import importlib
import json
import os
import sys
import time
import traceback

HERE = os.path.dirname(os.path.dirname(os.path.abspath(__file__)))
KNOWN_FILE = os.path.join(HERE, "KNOWN_FINDINGS.txt")
MAX_DISTINCT_FOUND = 6          # per shard: distinct signatures collected before stopping
SHRINK_CALL_BUDGET = {"quick": 400, "thorough": 3000}


def setup_paths():
    repo = os.environ.get("VERIF_REPO", "/repo")
    repo = os.path.abspath(repo)
    if repo in sys.path:
        sys.path.remove(repo)
    sys.path.insert(0, repo)
    if HERE not in sys.path:
        sys.path.insert(1, HERE)
    os.environ.setdefault("FABRIC_FIM_VERIF", "1")
    sys.dont_write_bytecode = True
    import logging
    logging.disable(logging.CRITICAL)
    import fim
    fim_file = os.path.abspath(fim.__file__)
    if not fim_file.startswith(repo + os.sep):
        raise RuntimeError(f"fim imported from {fim_file}, expected under {repo}")
    return repo


def canon_json(obj):
    return json.dumps(obj, sort_keys=True, separators=(",", ":"), default=str)


def case_hash(case) -> int:
    return int.from_bytes(hashlib.blake2b(canon_json(case).encode("utf-8", "surrogatepass"),
                                          digest_size=8).digest(), "big")


def load_known(prop_id):
    """returns (finding_keys: dict key->text, fixed: list of text)"""
    findings, fixed = {}, []
    if not os.path.exists(KNOWN_FILE):
        return findings, fixed
    with open(KNOWN_FILE, encoding="utf-8") as f:
        for line in f:
            line = line.strip()
            if not line or line.startswith("#"):
                continue
            if line.startswith("finding:"):
                rest = line[len("finding:"):].strip()
                parts = rest.split(None, 2)
                if len(parts) >= 2 and parts[0] == f"property={prop_id}" and parts[1].startswith("key="):
                    findings[parts[1][4:]] = parts[2] if len(parts) > 2 else ""
            elif line.startswith("fixed:"):
                rest = line[len("fixed:"):].strip()
                if rest.startswith(f"property={prop_id} "):
                    fixed.append(rest)
    return findings, fixed


class Stats:
    def __init__(self):
        self.evaluations = 0
        self.nt_hashes = set()
        self.labels = {}
        self.samples = []
        self.known_hits = {}
        self._sample_every = 1

    def add(self, case, res, keep_sample=True):
        self.evaluations += 1
        if res.get("nt"):
            self.nt_hashes.add(case_hash(case))
        for lb in res.get("labels", ()):
            self.labels[lb] = self.labels.get(lb, 0) + 1
        if keep_sample and res.get("nt") and len(self.samples) < 3:
            s = canon_json(case)
            if len(s) < 6000:
                self.samples.append(case)

    def dump(self):
        return {"evaluations": self.evaluations, "nt": sorted(self.nt_hashes), "labels": self.labels,
                "samples": self.samples, "known_hits": self.known_hits}


def _filter(viols, known_keys, stats):
    new = []
    for sig, msg in viols:
        if sig in known_keys:
            stats.known_hits[sig] = stats.known_hits.get(sig, 0) + 1
        else:
            new.append((sig, msg))
    return new


def shard_main(args):
    """Runs in a worker process. args is a dict."""
    t0 = time.time()
    out = {"shard": args["shard"], "found": [], "error": None}
    stats = Stats()
    try:
        setup_paths()
        mod = importlib.import_module(f"fimverif.props.{args['prop'].lower()}")
        known_keys = set(args["known_keys"])
        tier = args["tier"]
        shard, nshards = args["shard"], args["nshards"]

        # ---- finite enumeration part (strided over shards)
        if hasattr(mod, "enumerate_cases") and not args.get("no_enum"):
            seen_sigs = set()
            for i, case in enumerate(mod.enumerate_cases(tier)):
                if i % nshards != shard:
                    continue
                res = mod.run_case(case)
                stats.add(case, res)
                for sig, msg in _filter(res["v"], known_keys, stats):
                    if sig not in seen_sigs and len(out["found"]) < MAX_DISTINCT_FOUND:
                        seen_sigs.add(sig)
                        out["found"].append({"sig": sig, "msg": msg, "case": case, "shrunk": False})
            out["enum_done"] = True

        # ---- generated part
        n_cases = args["n_cases"]
        if n_cases > 0 and hasattr(mod, "strategy"):
            import hypothesis
            from hypothesis import given, settings, seed, HealthCheck, Phase
            from hypothesis import errors as herr

            FLAKY = tuple(getattr(herr, n) for n in ("Flaky", "FlakyFailure", "FlakyStrategyDefinition")
                          if hasattr(herr, n))

            class Found(Exception):
                pass

            ignore = set(known_keys) | {f["sig"] for f in out["found"]}
            remaining = n_cases
            rounds = 0
            while remaining > 0 and len(out["found"]) < MAX_DISTINCT_FOUND:
                state = {"target": None, "last": None, "calls_after": 0, "n": 0, "msg": None}
                budget = SHRINK_CALL_BUDGET[tier]

                def body(case):
                    res = mod.run_case(case)
                    if state["target"] is None:
                        state["n"] += 1
                        stats.add(case, res)
                        new = [(s, m) for s, m in _filter(res["v"], known_keys, stats) if s not in ignore]
                        if new:
                            state["target"], state["msg"] = new[0]
                            state["last"] = case
                            raise Found(new[0][0])
                    else:
                        state["calls_after"] += 1
                        if state["calls_after"] > budget and canon_json(case) != canon_json(state["last"]):
                            return      # shrink budget exhausted: nothing else is "interesting"
                        for s, m in res["v"]:
                            if s == state["target"]:
                                state["last"], state["msg"] = case, m
                                raise Found(s)

                test = given(mod.strategy(tier))(body)
                test = settings(max_examples=remaining, database=None, deadline=None, derandomize=False,
                                report_multiple_bugs=False, print_blob=False,
                                suppress_health_check=list(HealthCheck),
                                phases=[Phase.generate, Phase.shrink])(test)
                test = seed(args["seed"] * 1000 + shard + 7919 * rounds)(test)
                try:
                    test()
                except Found:
                    pass
                except FLAKY:
                    if state["target"] is None:
                        raise
                if state["target"] is not None:
                    out["found"].append({"sig": state["target"], "msg": state["msg"], "case": state["last"],
                                         "shrunk": True})
                    ignore.add(state["target"])
                remaining -= max(state["n"], 1)
                rounds += 1
                if state["target"] is None:
                    break
    except BaseException:
        out["error"] = traceback.format_exc()
    out["stats"] = stats.dump()
    out["wall"] = time.time() - t0
    return out


def write_new_replay(prop_id, sig, msg, case):
    d = os.path.join(HERE, "replays", "_new")
    os.makedirs(d, exist_ok=True)
    h = hashlib.blake2b((sig + canon_json(case)).encode("utf-8", "surrogatepass"), digest_size=5).hexdigest()
    path = os.path.join(d, f"{prop_id}-{h}.json")
    with open(path, "w", encoding="utf-8") as f:
        json.dump({"property": prop_id, "signature": sig, "message": msg, "case": case}, f, indent=1,
                  sort_keys=True, default=str)
    return os.path.relpath(path, HERE)


def load_case_file(path):
    with open(path, encoding="utf-8") as f:
        d = json.load(f)
    return d["case"] if isinstance(d, dict) and "case" in d else d


def main(argv=None):
    ap = argparse.ArgumentParser()
    ap.add_argument("prop")
    ap.add_argument("--tier", default=os.environ.get("VERIF_TIER", "quick"), choices=["quick", "thorough"])
    ap.add_argument("--replay")
    ap.add_argument("--shards", type=int, default=int(os.environ.get("VERIF_SHARDS", "16")))
    ap.add_argument("--cases", type=int, default=None, help="override the total number of generated cases")
    ap.add_argument("--no-enum", action="store_true")
    ap.add_argument("--no-evidence", action="store_true")
    a = ap.parse_args(argv)
    prop_id = a.prop.upper()
    try:
        seed_val = int(os.environ.get("VERIF_SEED", "1") or "1")
    except ValueError:
        seed_val = 1
    t0 = time.time()
    try:
        setup_paths()
        mod = importlib.import_module(f"fimverif.props.{prop_id.lower()}")
    except BaseException:
        print("HARNESS-ERROR import failed\n" + traceback.format_exc())
        return 2

    findings, fixed = load_known(prop_id)
    for k in filter(None, os.environ.get("VERIF_EXTRA_KNOWN", "").split(",")):   # development aid only
        findings.setdefault(k.strip(), "(VERIF_EXTRA_KNOWN)")
    known_keys = set(findings)
    violations = []   # (sig, msg, replay path)
    stats = Stats()

    def report(sig, msg, path):
        violations.append((sig, msg, path))
        print(f"VIOLATION property={prop_id} replay={path}")
        print(f"  signature={sig}\n  {msg}")

    # ---- explicit replay
    if a.replay:
        try:
            case = load_case_file(a.replay)
            res = mod.run_case(case)
        except BaseException:
            print("HARNESS-ERROR replay failed\n" + traceback.format_exc())
            return 2
        bad = False
        for sig, msg in res["v"]:
            if sig in known_keys:
                print(f"KNOWN-FINDING: property={prop_id} {sig} {findings[sig]}")
            else:
                bad = True
                report(sig, msg, a.replay)
        print(f"replay {a.replay}: {len(res['v'])} violation(s)")
        return 1 if bad else 0

    reproduced = {}
    try:
        # ---- directed probes of known findings
        probes = getattr(mod, "PROBES", {})
        for key in sorted(known_keys):
            case = probes.get(key)
            pfile = os.path.join(HERE, "replays", prop_id, "known", key.replace("/", "__") + ".json")
            if case is None and os.path.exists(pfile):
                case = load_case_file(pfile)
            if case is None:
                continue
            res = mod.run_case(case)
            stats.add(case, res, keep_sample=False)
            sigs = [s for s, _ in res["v"]]
            if key in sigs:
                reproduced[key] = True
            for sig, msg in res["v"]:
                if sig not in known_keys:
                    report(sig, msg, os.path.relpath(pfile, HERE) if os.path.exists(pfile)
                           else write_new_replay(prop_id, sig, msg, case))

        # ---- regression corpus
        rdir = os.path.join(HERE, "replays", prop_id)
        replayed = 0
        if os.path.isdir(rdir):
            for fn in sorted(os.listdir(rdir)):
                if not fn.endswith(".json"):
                    continue
                path = os.path.join(rdir, fn)
                case = load_case_file(path)
                res = mod.run_case(case)
                stats.add(case, res, keep_sample=False)
                replayed += 1
                for sig, msg in _filter(res["v"], known_keys, stats):
                    report(sig, msg, os.path.relpath(path, HERE))
    except BaseException:
        print("HARNESS-ERROR replay/probe phase failed\n" + traceback.format_exc())
        return 2

    # ---- sharded search
    total = a.cases if a.cases is not None else mod.BUDGET[a.tier]
    nshards = max(1, a.shards)
    per = [total // nshards + (1 if i < total % nshards else 0) for i in range(nshards)]
    jobs = [{"prop": prop_id, "tier": a.tier, "seed": seed_val, "shard": i, "nshards": nshards,
             "n_cases": per[i], "known_keys": sorted(known_keys), "no_enum": a.no_enum}
            for i in range(nshards)]
    if nshards == 1:
        results = [shard_main(jobs[0])]
    else:
        import multiprocessing as mp
        ctx = mp.get_context("spawn")
        with ctx.Pool(min(nshards, os.cpu_count() or 1)) as pool:
            results = pool.map(shard_main, jobs, chunksize=1)

    errors = [r["error"] for r in results if r["error"]]
    nt = set(stats.nt_hashes)
    labels = dict(stats.labels)
    evaluations = stats.evaluations
    samples = list(stats.samples)
    known_hits = dict(stats.known_hits)
    seen_sigs = {v[0] for v in violations}
    for r in results:
        st = r["stats"]
        evaluations += st["evaluations"]
        nt.update(st["nt"])
        for k, v in st["labels"].items():
            labels[k] = labels.get(k, 0) + v
        for k, v in st["known_hits"].items():
            known_hits[k] = known_hits.get(k, 0) + v
        if len(samples) < 5:
            samples.extend(st["samples"][:max(0, 5 - len(samples))])
        for f in r["found"]:
            if f["sig"] in seen_sigs:
                continue
            seen_sigs.add(f["sig"])
            report(f["sig"], f["msg"], write_new_replay(prop_id, f["sig"], f["msg"], f["case"]))

    for key in sorted(known_keys):
        if reproduced.get(key) or known_hits.get(key):
            print(f"KNOWN-FINDING: property={prop_id} {key} {findings[key]}")
        else:
            # a listed finding that neither its directed probe nor the search reproduced: the list (or the probe) is
            # out of date - said aloud, so that it cannot go unnoticed (no effect on the exit code)
            print(f"NOTE: listed finding not reproduced in this run: property={prop_id} {key}")

    # ---- generator health
    health_errors = []
    if not errors and evaluations > 200:
        for lb, frac in getattr(mod, "MIN_LABEL_FRACTION", {}).items():
            got = labels.get(lb, 0) / max(1, evaluations)
            if got < frac:
                health_errors.append(f"label {lb!r} fraction {got:.4f} < required {frac}")

    wall = time.time() - t0
    exhaustive = bool(getattr(mod, "ENUM_EXHAUSTIVE", False)) and hasattr(mod, "enumerate_cases") \
        and not a.no_enum and all(r.get("enum_done") for r in results)
    ev = {
        "property_id": prop_id, "tier": a.tier, "seed": seed_val,
        "level": getattr(mod, "LEVEL", "exploration"),
        "coverage": {
            "evaluations": evaluations,
            "distinct_nontrivial": len(nt),
            "rule": mod.RULE,
            "samples": samples[:5] if samples else [],
            "exhaustive": exhaustive,
            "classes": dict(sorted(labels.items())),
            "excluded_known": known_hits,
            "known_findings_reproduced": sorted(k for k in known_keys if reproduced.get(k) or known_hits.get(k)),
            "replayed": replayed,
            "shards": nshards,
            "generated_budget": total,
        },
        "assumptions": list(getattr(mod, "ASSUMPTIONS", [])),
        "wall_s": round(wall, 2),
        "violations": len(violations),
    }
    if getattr(mod, "EXHAUSTIVE_NOTE", None):
        ev["coverage"]["exhaustive_note"] = mod.EXHAUSTIVE_NOTE
    if not a.no_evidence and not errors:
        os.makedirs(os.path.join(HERE, "evidence"), exist_ok=True)
        with open(os.path.join(HERE, "evidence", f"{prop_id}.json"), "w", encoding="utf-8") as f:
            json.dump(ev, f, indent=1, default=str)
            f.write("\n")

    print(f"{prop_id} tier={a.tier} seed={seed_val} evaluations={evaluations} distinct_nontrivial={len(nt)} "
          f"violations={len(violations)} known_hits={sum(known_hits.values())} wall={wall:.1f}s")
    top = sorted(labels.items(), key=lambda kv: -kv[1])[:40]
    print("  classes: " + ", ".join(f"{k}={v}" for k, v in top))
    if errors:
        print("HARNESS-ERROR in shard(s):\n" + "\n---\n".join(errors[:3]))
        return 1 if violations else 2
    if violations:
        return 1
    if health_errors:
        print("HARNESS-ERROR generator health: " + "; ".join(health_errors))
        return 2
    if len(nt) < 2 and not violations:
        print("HARNESS-ERROR fewer than 2 distinct non-trivial cases were generated")
        return 2
    return 1 if violations else 0


if __name__ == "__main__":
    sys.exit(main())
