"""
C19 - persistent-backend (Neo4j) statements are well-formed and data-independent (DESIGN.md §3 "C19", engine E7).

case = {"op": <operation name>, "idents": {...identifiers: labels, relation names, property names, flags...},
        "values": [vecA, vecB]}           # two vectors of adversarial value strings (graph ids, node ids, ...)

`fim.graph.neo4j_property_graph.GraphDatabase` is replaced by the recording stand-in of engines/cypher.py; the
real Neo4jGraphImporter / Neo4jPropertyGraph / Neo4jASM / Neo4jARMGraph / Neo4jADMGraph / Neo4jCBMGraph classes
run unmodified on top of it.  Every operation is executed three times with the same identifiers: once with a
benign vector of unique alphanumeric markers and once with each of the two supplied vectors.

Oracle (clause numbers of DESIGN.md §C19):
  1. every captured statement lexes (literals terminate, legal escapes), brackets balance, there is no `{name}` /
     `{{` template residue, no dangling comma / empty map entry;
  2. every `$name` in the text is supplied, every supplied parameter is referenced;
  3. every variable used is bound earlier;
     (1-3 are judged on the benign run's statements, and on the other runs' statements where clause 4 held, so a
      spliced value is reported once - as clause 4 - and not again as the syntax error it causes)
  4. data independence: the k-th statement of the benign run and of each adversarial run (and of the two
     adversarial runs) have equal text, or differ only inside well-formed string literals that decode exactly to
     supplied values; values that the operation sends to the database arrive unchanged as a parameter value (or as
     such a literal).
Signatures: C19/<library function that issued the statement>/<clause>.
"""
import json
import os
import shutil
import tempfile
import types
from xml.sax.saxutils import escape as _xml_escape

from hypothesis import strategies as st

from fimverif.engines import cypher as cy

ID = "C19"
RULE = ("Operation table (every public operation of Neo4jGraphImporter, Neo4jPropertyGraph, Neo4jASM, Neo4jARMGraph, "
        "Neo4jADMGraph, Neo4jCBMGraph that reaches the driver, directly or through inherited compound operations, plus "
        "ExperimentTopology calls on a Neo4j importer) x identifiers from the library vocabularies x two value vectors. "
        "Enumerated: every operation x identifier variants x a fixed list of adversarial vectors; generated: Hypothesis "
        "samples the operation, identifiers and value strings built from quotes, backslashes, braces, $params, "
        "newlines, comment openers, Cypher keywords, non-ASCII and long runs. Each case executes the operation three "
        "times (benign markers, vector A, vector B) against a recording stand-in driver. Non-trivial: the operation "
        "takes >= 1 value and the vectors contain >= 1 quote or backslash. Distinct by hash of the case.")
ASSUMPTIONS = [
    "statements are observed at the driver boundary (GraphDatabase.driver -> session.run); the stand-in answers with "
    "plausible records whose column names are taken from the statement's own RETURN clause",
    "identifiers (class labels, relation names, property names, merge-policy keys, ComponentType/enum names) come from "
    "the library's vocabularies and may appear in statement text; graph ids, node ids, names, property values, "
    "component models, merge-policy values are values and may not",
    "Cypher well-formedness is structural (hand-written lexer + scope analysis), not a grammar: keyword typos and "
    "APOC availability are out of scope",
    "value strings consist of XML-legal characters without \\r (they also travel through GraphML in import operations)",
    "sliver names obey the library's own name validators, so in sliver/topology operations names are identifiers and "
    "site / boot script / details / model are the values",
]
BUDGET = {"quick": 40000, "thorough": 400000}
MIN_LABEL_FRACTION = {"has-quote": 0.4, "has-backslash": 0.2, "has-brace": 0.15, "has-dollar": 0.1,
                      "has-newline": 0.1, "has-keyword": 0.05, "long": 0.02, "kind:primitive": 0.3,
                      "kind:compound": 0.2, "aligned": 0.9}

# ---------------------------------------------------------------------------------------------------------------
# vocabularies (identifiers)
# ---------------------------------------------------------------------------------------------------------------
CLASSES = ["NetworkNode", "Component", "NetworkService", "ConnectionPoint", "Link", "CompositeNode"]
RELS = ["has", "connects", "depends", "peers"]
PROPS = ["Name", "Type", "Site", "Model", "Details", "ImageRef", "BootScript", "Capacities", "Labels", "UserData",
         "StructuralInfo", "NodeMap", "LabelDelegations", "CapacityDelegations", "ReservationInfo", "Tags"]
UNSETTABLE = [p for p in PROPS if p not in ("Name", "Type")]
LINK_PROPS = ["Class", "Details", "Layer", "Technology"]
POLICY_KEYS = ["Name", "Labels", "Capacities", "`addr.*`", "`.*`"]
GRAPH_CLS = ["pg", "asm", "arm", "adm", "cbm"]
PROP_LISTS = [[], ["Name"], ["Site", "BootScript"], ["Name", "UserData", "Details"]]

# ---------------------------------------------------------------------------------------------------------------
# value material (E1, Cypher flavour)
# ---------------------------------------------------------------------------------------------------------------
FRAGS = ["'", '"', "\\", "\\'", '\\"', "\\\\", "{", "}", "{{", "}}", "{kind}", "$graphId", "$x", "$", "\n", "//", "/*",
         "*/", " RETURN ", " DETACH DELETE n ", "MATCH (n)", " OR 1=1 ", "`", ";", ")", "(", "[", "]", ",", ":", "'})",
         "\\u0027", "\\n", "\t", "é", "名", " ", "x", "node-1", "0"]
ADVERSARIAL = [
    "it's", 'say "hi"', "back\\slash", "trail\\", "\\'", "a\\\\'b", "{", "}}", "{{x}}", "{kind}", "$graphId", "${x}",
    "line1\nline2", "x // y", "/* c */", "' OR 1=1 //", "\"}) DETACH DELETE n //", "RETURN", "MATCH (n) DETACH DELETE n",
    "`tick`", "a,b:c;d", "\\u0027", "é名'", "", " ", "'" * 7, "q'" * 300, "\\" * 401, "{" * 250 + "'",
]
_SAFE = st.characters(min_codepoint=0x20, max_codepoint=0x2FF, blacklist_categories=("Cs", "Cc"))
_WIDE = st.characters(blacklist_categories=("Cs", "Cc", "Cn"), blacklist_characters="\ufffe\uffff")
_frag_value = st.lists(st.one_of(st.sampled_from(FRAGS), st.text(alphabet=_SAFE, max_size=5)), min_size=1,
                       max_size=6).map("".join)
_value = st.one_of(
    _frag_value, _frag_value, _frag_value, _frag_value, _frag_value,
    st.sampled_from(ADVERSARIAL), st.sampled_from(ADVERSARIAL),
    st.text(alphabet=_WIDE, max_size=12),
    st.builds(lambda s, n: (s * n)[:2000], st.sampled_from(FRAGS[:20] + ["ab", "x'y"]), st.integers(150, 1000)),
)
KEYWORDS_IN_VALUES = ("RETURN", "MATCH", "DELETE", "DETACH", " OR ", "WHERE", "SET ", "CALL")

_GRAPHML = """<?xml version='1.0' encoding='utf-8'?>
<graphml xmlns="http://graphml.graphdrawing.org/xmlns" xmlns:xsi="http://www.w3.org/2001/XMLSchema-instance" \
xsi:schemaLocation="http://graphml.graphdrawing.org/xmlns http://graphml.graphdrawing.org/xmlns/1.0/graphml.xsd">
<key id="d5" for="edge" attr.name="Class" attr.type="string"/>
<key id="d4" for="node" attr.name="Type" attr.type="string"/>
<key id="d3" for="node" attr.name="Name" attr.type="string"/>
<key id="d2" for="node" attr.name="Class" attr.type="string"/>
<key id="d1" for="node" attr.name="NodeID" attr.type="string"/>
<key id="d0" for="node" attr.name="GraphID" attr.type="string"/>
<graph edgedefault="undirected">
<node id="1"><data key="d0">%(gid)s</data><data key="d1">node-a</data><data key="d2">NetworkNode</data>\
<data key="d3">na</data><data key="d4">VM</data></node>
<node id="2"><data key="d0">%(gid)s</data><data key="d1">node-b</data><data key="d2">Component</data>\
<data key="d3">nb</data><data key="d4">GPU</data></node>
<edge source="1" target="2"><data key="d5">has</data></edge>
</graph></graphml>
"""


def graphml(gid):
    return _GRAPHML % {"gid": _xml_escape(gid)}


def _scratch_dir():
    """per-process scratch directory for the importer's GraphML hand-over files; created at the start and removed
    at the end of every run (pool workers are terminated without atexit, so nothing may be left behind)"""
    return os.path.join(tempfile.gettempdir(), f"c19-scratch-{os.getpid()}")


# ---------------------------------------------------------------------------------------------------------------
# the simulated database ("world"): what the stand-in answers, as a function of the value vector
# ---------------------------------------------------------------------------------------------------------------
def base_world(gid):
    W = {
        "gid": gid,
        "node_ids": ["node-a", "node-b"],
        "nodes": {},                       # node id or (graph id, node id) -> (labels, props)
        "default_node": (list(CLASSES), {"Name": "nm0", "Type": "VM", "Class": "NetworkNode"}),
        "nbr": {},                         # label -> list of neighbour node ids (get_first_neighbor)
        "nbr2": [],                        # rows for get_first_and_second_neighbor
        "stitch_ids": [],
        "common_ids": [],
        "exists": [],                      # answers of successive graph_exists() calls; default True
        "link": ("has", {"Class": "has"}),
        "paths": [["node-a", "node-b"]],
        "sites": ["S1", "S2"],
        "unique": True,
    }

    def node_rows(params, text):
        nid = params.get("nodeId")
        ent = W["nodes"].get((params.get("graphId"), nid), W["nodes"].get(nid, W["default_node"]))
        if ent is None:
            return []
        labels, props = ent
        p = {"GraphID": W["gid"], "NodeID": nid}
        p.update(props)
        return [[["GraphNode"] + list(labels), p]]

    def nodeids(params, text):
        return [[list(W["node_ids"])]]

    def exists_rows(params, text):
        ans = W["exists"].pop(0) if W["exists"] else True
        return [[{}, {}, {}]] if ans else []

    def serialize_rows(params, text):
        if "apoc.export" not in text:
            return exists_rows(params, text)
        cols = cy.return_columns(text)
        return [[graphml(W["gid"]) if c == "data" else None for c in cols]]

    def nbr_rows(params, text):
        for lb in CLASSES:
            if f":GraphNode:{lb} " in text or f":GraphNode:{lb}{{" in text:
                return [[x] for x in W["nbr"].get(lb, [])]
        return []

    one_map = lambda params, text: [[{}]]
    none = lambda params, text: []
    W["rows"] = {
        "get_all_nodes_by_class": nodeids, "get_all_nodes_by_class_and_type": nodeids, "list_all_node_ids": nodeids,
        "node_exists": nodeids, "check_node_name": nodeids, "get_nodes_on_shortest_path": nodeids,
        "get_matching_nodes_with_components": nodeids,
        "find_node_by_name": lambda p, t: [[list(W["node_ids"][:1])]],
        "get_stitch_nodes": lambda p, t: [[list(W["stitch_ids"])]],
        "check_node_unique": lambda p, t: [[[] if W["unique"] else list(W["node_ids"][:1])]],
        "get_node_properties": node_rows,
        "get_link_properties": lambda p, t: [[W["link"][0], dict(W["link"][1])]],
        "update_node_property": one_map, "update_nodes_property": one_map, "update_node_properties": one_map,
        "unset_node_property": lambda p, t: [[p.get("nodeId")]],
        "update_link_property": one_map, "update_link_properties": one_map, "unset_link_property": one_map,
        "serialize_graph": serialize_rows, "graph_exists": exists_rows,
        "get_nodes_on_path_with_hops": lambda p, t: [[list(x)] for x in W["paths"]],
        "get_first_neighbor": nbr_rows,
        "get_first_and_second_neighbor": lambda p, t: [list(r) for r in W["nbr2"]],
        "delete_node": one_map, "add_node": none, "add_link": one_map, "merge_nodes": one_map,
        "find_matching_nodes": lambda p, t: [[list(W["common_ids"])]],
        "get_graph_diff": lambda p, t: [[[{"NodeID": "node-a"}], []]],
        "get_graph_property_diff": lambda p, t: [[[], []]],
        "_validate_graph": lambda p, t: [[True]],
        "get_intersite_links": lambda p, t: [["node-a", "link-1", "node-b", "S2", "S1", "cp-1", "cp-2"]],
        "get_sites": lambda p, t: [[list(W["sites"])]], "get_disconnected_sites": lambda p, t: [[list(W["sites"])]],
        "get_connected_sites": lambda p, t: [[list(W["sites"])]], "get_facility_ports": lambda p, t: [[list(W["sites"])]],
        "delete_graph": none, "importer.delete_graph": none, "importer.delete_all_graphs": none,
        "importer._add_indexes": none, "importer._import_graph": none,
    }
    W["default_rows"] = lambda cols, params, text: [[None] * len(cols)] if cols else []
    return W


class Env:
    """fresh library objects on top of one Recorder"""

    def __init__(self, W):
        import fim
        import fim.graph.neo4j_property_graph as npg
        self.npg = npg
        self.W = W
        self.rec = cy.Recorder(W, os.path.dirname(os.path.abspath(fim.__file__)))
        self._imp = None

    @property
    def imp(self):
        if self._imp is None:
            self._imp = self.npg.Neo4jGraphImporter(url="neo4j://stub:7687", user="u", pswd="p",
                                                    import_host_dir=_scratch_dir(), import_dir="/imports")
        return self._imp

    def g(self, cls, gid):
        if cls == "pg":
            return self.npg.Neo4jPropertyGraph(graph_id=gid, importer=self.imp)
        if cls == "asm":
            from fim.graph.slices.neo4j_asm import Neo4jASM
            return Neo4jASM(graph_id=gid, importer=self.imp)
        if cls == "arm":
            from fim.graph.resources.neo4j_arm import Neo4jARMGraph
            return Neo4jARMGraph(graph=self.npg.Neo4jPropertyGraph(graph_id=gid, importer=self.imp))
        if cls == "adm":
            from fim.graph.resources.neo4j_adm import Neo4jADMGraph
            return Neo4jADMGraph(graph_id=gid, importer=self.imp)
        if cls == "cbm":
            from fim.graph.resources.neo4j_cbm import Neo4jCBMGraph
            return Neo4jCBMGraph(graph_id=gid, importer=self.imp)
        raise KeyError(cls)


# ---------------------------------------------------------------------------------------------------------------
# operation table
# ---------------------------------------------------------------------------------------------------------------
OPS = {}


def op(name, nvals, idents=None, kind="primitive", sent=None, world=None, exact=True, min_stmts=1):
    """register an operation.  nvals: int or f(idents) -> int; idents: {name: [choices]}; sent: f(I, V) -> values
    that must reach the driver unchanged (default all); world: f(W, I, V) adjusts the simulated database;
    exact: literals must decode exactly to supplied values (False for compound operations that compute new
    strings, e.g. rewritten delegation JSON)."""
    def deco(fn):
        OPS[name] = {"name": name, "nvals": nvals, "idents": idents or {}, "kind": kind, "sent": sent,
                     "world": world, "call": fn, "exact": exact, "min_stmts": min_stmts}
        return fn
    return deco


CLS = {"cls": GRAPH_CLS}


def _np(I, base):
    return base + len(I.get("props") or [])


# ---- importer
@op("importer.init", 0)
def _(E, I, V):
    E.imp


@op("importer.delete_graph", 1)
def _(E, I, V):
    E.imp.delete_graph(graph_id=V[0])


@op("importer.delete_all_graphs", 0)
def _(E, I, V):
    E.imp.delete_all_graphs()


@op("importer.cast_graph", 1)
def _(E, I, V):
    E.imp.cast_graph(graph_id=V[0])


@op("importer.import_graph_from_string", 1, kind="compound")
def _(E, I, V):
    E.imp.import_graph_from_string(graph_string=graphml("gid-in-file"), graph_id=V[0])


@op("importer.import_graph_from_string/generated-id", 0, kind="compound")
def _(E, I, V):
    E.imp.import_graph_from_string(graph_string=graphml("gid-in-file"))


@op("importer.import_graph_from_string_direct", 1, kind="compound", sent=lambda I, V: [])
def _(E, I, V):
    E.imp.import_graph_from_string_direct(graph_string=graphml(V[0]))


def _tmpfile(text):
    p = os.path.join(_scratch_dir(), "in.graphml")
    with open(p, "w", encoding="utf-8") as f:
        f.write(text)
    return p


@op("importer.import_graph_from_file_direct", 1, kind="compound", sent=lambda I, V: [])
def _(E, I, V):
    E.imp.import_graph_from_file_direct(graph_file=_tmpfile(graphml(V[0])))


@op("importer.import_graph_from_file", 1, kind="compound")
def _(E, I, V):
    E.imp.import_graph_from_file(graph_file=_tmpfile(graphml("gid-in-file")), graph_id=V[0])


# ---- Neo4jPropertyGraph primitives (run on every graph class)
@op("validate_graph", 1, {**CLS, "json": [True, False]})
def _(E, I, V):
    E.g(I["cls"], V[0]).validate_graph(validate_json=I["json"])


@op("delete_graph", 1, CLS)
def _(E, I, V):
    E.g(I["cls"], V[0]).delete_graph()


@op("get_all_nodes_by_class", 1, {**CLS, "label": CLASSES})
def _(E, I, V):
    E.g(I["cls"], V[0]).get_all_nodes_by_class(label=I["label"])


@op("get_all_nodes_by_class_and_type", 2, {**CLS, "label": CLASSES})
def _(E, I, V):
    E.g(I["cls"], V[0]).get_all_nodes_by_class_and_type(label=I["label"], ntype=V[1])


@op("get_all_network_nodes+links+services", 1, CLS)
def _(E, I, V):
    g = E.g(I["cls"], V[0])
    g.get_all_network_nodes()
    g.get_all_network_links()
    g.get_all_network_service_nodes()


@op("list_all_node_ids", 1, CLS)
def _(E, I, V):
    E.g(I["cls"], V[0]).list_all_node_ids()


@op("get_node_properties", 2, CLS)
def _(E, I, V):
    E.g(I["cls"], V[0]).get_node_properties(node_id=V[1])


def _w_json_prop(W, I, V):
    W["default_node"] = (list(CLASSES), {"Name": "nm0", "Type": "VM", I["prop"]: json.dumps({"k": V[2]})})


@op("get_node_json_property_as_object", 3, {**CLS, "prop": PROPS}, sent=lambda I, V: V[:2], world=_w_json_prop)
def _(E, I, V):
    E.g(I["cls"], V[0]).get_node_json_property_as_object(node_id=V[1], prop_name=I["prop"])


@op("get_link_properties", 3, CLS)
def _(E, I, V):
    E.g(I["cls"], V[0]).get_link_properties(node_a=V[1], node_b=V[2])


@op("update_node_property", 3, {**CLS, "prop": PROPS})
def _(E, I, V):
    E.g(I["cls"], V[0]).update_node_property(node_id=V[1], prop_name=I["prop"], prop_val=V[2])


@op("unset_node_property", 2, {**CLS, "prop": UNSETTABLE})
def _(E, I, V):
    E.g(I["cls"], V[0]).unset_node_property(node_id=V[1], prop_name=I["prop"])


@op("update_nodes_property", 2, {**CLS, "prop": PROPS + ["GraphID"]})
def _(E, I, V):
    E.g(I["cls"], V[0]).update_nodes_property(prop_name=I["prop"], prop_val=V[1])


@op("update_node_properties", lambda I: _np(I, 2), {**CLS, "props": PROP_LISTS})
def _(E, I, V):
    E.g(I["cls"], V[0]).update_node_properties(node_id=V[1], props=dict(zip(I["props"], V[2:])))


@op("update_link_property", 4, {**CLS, "kind": RELS, "prop": LINK_PROPS})
def _(E, I, V):
    E.g(I["cls"], V[0]).update_link_property(node_a=V[1], node_b=V[2], kind=I["kind"], prop_name=I["prop"],
                                             prop_val=V[3])


@op("unset_link_property", 3, {**CLS, "kind": RELS, "prop": LINK_PROPS})
def _(E, I, V):
    E.g(I["cls"], V[0]).unset_link_property(node_a=V[1], node_b=V[2], kind=I["kind"], prop_name=I["prop"])


@op("update_link_properties", lambda I: _np(I, 3), {**CLS, "kind": RELS, "props": [[], ["Details"], ["Layer", "Technology"]]})
def _(E, I, V):
    E.g(I["cls"], V[0]).update_link_properties(node_a=V[1], node_b=V[2], kind=I["kind"],
                                               props=dict(zip(I["props"], V[3:])))


@op("serialize_graph", 1, CLS)
def _(E, I, V):
    E.g(I["cls"], V[0]).serialize_graph()


@op("graph_exists", 1, {**CLS, "exists": [True, False]},
    world=lambda W, I, V: W.__setitem__("exists", [I["exists"]]))
def _(E, I, V):
    E.g(I["cls"], V[0]).graph_exists()


@op("clone_graph", 2, CLS, kind="compound")
def _(E, I, V):
    E.g(I["cls"], V[0]).clone_graph(new_graph_id=V[1])


@op("get_nodes_on_shortest_path", 3, {**CLS, "rel": [None] + RELS})
def _(E, I, V):
    E.g(I["cls"], V[0]).get_nodes_on_shortest_path(node_a=V[1], node_z=V[2], rel=I["rel"])


def _w_paths(W, I, V):
    W["paths"] = [[V[1], V[3], V[2]], [V[1], "mid-1", V[3], V[2]], [V[1], V[2]]]


@op("get_nodes_on_path_with_hops", 4, {**CLS, "cut_off": [100, 3, 1, 0]}, sent=lambda I, V: V[:3], world=_w_paths)
def _(E, I, V):
    E.g(I["cls"], V[0]).get_nodes_on_path_with_hops(node_a=V[1], node_z=V[2], hops=[V[3]], cut_off=I["cut_off"])


@op("get_first_neighbor", 2, {**CLS, "rel": RELS, "label": CLASSES})
def _(E, I, V):
    E.g(I["cls"], V[0]).get_first_neighbor(node_id=V[1], rel=I["rel"], node_label=I["label"])


@op("get_first_and_second_neighbor", 2, {**CLS, "rel1": RELS, "label1": CLASSES, "rel2": RELS, "label2": CLASSES})
def _(E, I, V):
    E.g(I["cls"], V[0]).get_first_and_second_neighbor(node_id=V[1], rel1=I["rel1"], node1_label=I["label1"],
                                                      rel2=I["rel2"], node2_label=I["label2"])


@op("delete_node", 2, CLS)
def _(E, I, V):
    E.g(I["cls"], V[0]).delete_node(node_id=V[1])


@op("node_exists", 2, {**CLS, "label": CLASSES})
def _(E, I, V):
    E.g(I["cls"], V[0]).node_exists(node_id=V[1], label=I["label"])


@op("add_node", lambda I: _np(I, 2), {**CLS, "label": CLASSES, "props": PROP_LISTS})
def _(E, I, V):
    E.g(I["cls"], V[0]).add_node(node_id=V[1], label=I["label"], props=dict(zip(I["props"], V[2:])) or None)


@op("add_link", lambda I: _np(I, 3), {**CLS, "rel": RELS, "props": [[], ["Details"], ["Layer", "Technology"]]})
def _(E, I, V):
    E.g(I["cls"], V[0]).add_link(node_a=V[1], rel=I["rel"], node_b=V[2], props=dict(zip(I["props"], V[3:])) or None)


@op("find_matching_nodes", 2, CLS)
def _(E, I, V):
    E.g(I["cls"], V[0]).find_matching_nodes(other_graph=E.g("pg", V[1]))


@op("merge_nodes", lambda I: 3 + len(I.get("policy") or []),
    {**CLS, "policy": [None, [], ["Name"], ["Labels", "`addr.*`", "`.*`"]]})
def _(E, I, V):
    pol = None if I["policy"] is None else dict(zip(I["policy"], V[3:]))
    E.g(I["cls"], V[0]).merge_nodes(node_id=V[2], other_graph=E.g("pg", V[1]), merge_properties=pol)


@op("get_stitch_nodes", 1, CLS)
def _(E, I, V):
    E.g(I["cls"], V[0]).get_stitch_nodes()


@op("check_node_unique", 2, {**CLS, "label": CLASSES, "unique": [True, False]},
    world=lambda W, I, V: W.__setitem__("unique", I["unique"]))
def _(E, I, V):
    E.g(I["cls"], V[0]).check_node_unique(label=I["label"], name=V[1])


@op("get_graph_diff", 2, {**CLS, "label": CLASSES})
def _(E, I, V):
    E.g(I["cls"], V[0]).get_graph_diff(E.g("pg", V[1]), I["label"])


@op("get_graph_property_diff", 2, {**CLS, "label": CLASSES})
def _(E, I, V):
    E.g(I["cls"], V[0]).get_graph_property_diff(E.g("pg", V[1]), I["label"])


# ---- compound operations inherited from ABCPropertyGraph
def _w_tree(W, I, V):
    """V[1] node, V[2] component, V[3] network service, V[4] connection point, V[5] link"""
    W["nbr"] = {"Component": [V[2]], "NetworkService": [V[3]], "ConnectionPoint": [V[4]], "Link": [V[5]],
                "NetworkNode": [V[1]]}
    W["nbr2"] = [[V[3], V[4]]]
    W["node_ids"] = V[1:6]


for _name in ("remove_network_node_with_components_nss_cps_and_links", "remove_component_with_nss_cps_and_links",
              "remove_network_link", "remove_ns_with_cps_and_links", "remove_cp_and_links",
              "get_all_ns_or_link_connection_points", "get_all_child_connection_points",
              "get_all_node_or_component_connection_points", "find_peer_connection_points"):
    def _mk(name):
        @op(name, 6, CLS, kind="compound", world=_w_tree, sent=lambda I, V: V[:2])
        def _(E, I, V):
            g = E.g(I["cls"], V[0])
            m = getattr(g, name)
            if name == "find_peer_connection_points":
                m(node_id=V[1])
            else:
                m(V[1])
    _mk(_name)


@op("get_parent", 6, {**CLS, "rel": RELS, "label": CLASSES}, kind="compound", world=_w_tree,
    sent=lambda I, V: V[:2])
def _(E, I, V):
    E.g(I["cls"], V[0]).get_parent(node_id=V[1], rel=I["rel"], parent=I["label"])


def _node_sliver(V, deep):
    """V: node id, site, boot script, [component id, model, details, ns id, cp id, cp details]"""
    from fim.slivers.network_node import NodeSliver, NodeType
    from fim.slivers.attached_components import ComponentSliver, ComponentType, AttachedComponentsInfo
    from fim.slivers.network_service import NetworkServiceSliver, ServiceType, NetworkServiceInfo
    from fim.slivers.interface_info import InterfaceSliver, InterfaceType, InterfaceInfo
    s = NodeSliver()
    s.node_id = V[0]
    s.set_properties(name="node1", type=NodeType.VM, site=V[1], boot_script=V[2])
    if deep:
        c = ComponentSliver()
        c.node_id = V[3]
        c.set_properties(name="comp1", type=ComponentType.SmartNIC, model=V[4], details=V[5])
        ns = NetworkServiceSliver()
        ns.node_id = V[6]
        ns.set_properties(name="ns1", type=ServiceType.OVS)
        i = InterfaceSliver()
        i.node_id = V[7]
        i.set_properties(name="p1", type=InterfaceType.DedicatedPort, details=V[8])
        ii = InterfaceInfo()
        ii.add_interface(i)
        ns.interface_info = ii
        nsi = NetworkServiceInfo()
        nsi.add_network_service(ns)
        c.network_service_info = nsi
        aci = AttachedComponentsInfo()
        aci.add_device(c)
        s.attached_components_info = aci
    return s


@op("add_network_node_sliver", lambda I: 10 if I.get("deep") else 4, {**CLS, "deep": [False, True]}, kind="compound")
def _(E, I, V):
    E.g(I["cls"], V[0]).add_network_node_sliver(sliver=_node_sliver(V[1:], I["deep"]))


@op("add_component_sliver", 10, CLS, kind="compound", sent=lambda I, V: V[:2] + V[4:])
def _(E, I, V):
    s = _node_sliver(V[1:], True)
    E.g(I["cls"], V[0]).add_component_sliver(parent_node_id=V[1],
                                             component=list(s.attached_components_info.devices.values())[0])


@op("add_network_service_sliver", 5, {**CLS, "parent": [True, False]}, kind="compound",
    sent=lambda I, V: V[:5] if I["parent"] else [V[0]] + V[2:5])
def _(E, I, V):
    from fim.slivers.network_service import NetworkServiceSliver, ServiceType
    from fim.slivers.interface_info import InterfaceSliver, InterfaceType, InterfaceInfo
    ns = NetworkServiceSliver()
    ns.node_id = V[2]
    ns.set_properties(name="ns1", type=ServiceType.L2Bridge, site=V[3])
    i = InterfaceSliver()
    i.node_id = V[4]
    i.set_properties(name="p1", type=InterfaceType.ServicePort)
    ii = InterfaceInfo()
    ii.add_interface(i)
    ns.interface_info = ii
    E.g(I["cls"], V[0]).add_network_service_sliver(parent_node_id=V[1] if I["parent"] else None, network_service=ns)


@op("add_interface_sliver", 4, {**CLS, "parent": [True, False]}, kind="compound",
    sent=lambda I, V: V if I["parent"] else [V[0]] + V[2:])
def _(E, I, V):
    from fim.slivers.interface_info import InterfaceSliver, InterfaceType
    i = InterfaceSliver()
    i.node_id = V[2]
    i.set_properties(name="p1", type=InterfaceType.FacilityPort, details=V[3])
    E.g(I["cls"], V[0]).add_interface_sliver(parent_node_id=V[1] if I["parent"] else None, interface=i)


@op("add_network_link_sliver", 5, CLS, kind="compound")
def _(E, I, V):
    from fim.slivers.network_link import NetworkLinkSliver, LinkType
    s = NetworkLinkSliver()
    s.node_id = V[1]
    s.set_properties(name="link1", type=LinkType.Patch, technology=V[2])
    E.g(I["cls"], V[0]).add_network_link_sliver(lsliver=s, interfaces=[V[3], V[4]])


def _w_deep(W, I, V):
    _w_tree(W, I, V)
    typ = {"NetworkNode": "VM", "Component": "GPU", "NetworkService": "OVS", "ConnectionPoint": "AccessPort",
           "Link": "Patch"}
    for lb, nid in zip(["NetworkNode", "Component", "NetworkService", "ConnectionPoint", "Link"], V[1:6]):
        W["nodes"][nid] = ([lb], {"Name": "nm-" + lb, "Type": typ[lb], "Class": lb, "Site": V[6], "Details": V[6]})
    W["nbr"]["NetworkNode"] = []


for _name, _pos in (("build_deep_node_sliver", 1), ("build_deep_component_sliver", 2), ("build_deep_ns_sliver", 3),
                    ("build_deep_interface_sliver", 4), ("build_deep_link_sliver", 5)):
    def _mk2(name, pos):
        @op(name, 7, CLS, kind="compound", world=_w_deep, sent=lambda I, V: [V[0], V[pos]])
        def _(E, I, V):
            getattr(E.g(I["cls"], V[0]), name)(node_id=V[pos])
    _mk2(_name, _pos)


# ---- Neo4jASM
@op("check_node_name", 3, {"label": CLASSES})
def _(E, I, V):
    E.g("asm", V[0]).check_node_name(node_id=V[1], label=I["label"], name=V[2])


@op("find_node_by_name", 2, {"label": CLASSES})
def _(E, I, V):
    E.g("asm", V[0]).find_node_by_name(node_name=V[1], label=I["label"])


@op("set_mapping", 4, {}, kind="compound", sent=lambda I, V: V[:2] + [json.dumps([V[2], V[3]])])
def _(E, I, V):
    E.g("asm", V[0]).set_mapping(node_id=V[1], to_graph_id=V[2], to_node_id=V[3])


@op("get_mapping", 4, {}, kind="compound", sent=lambda I, V: V[:2],
    world=lambda W, I, V: W.__setitem__("default_node", (["NetworkNode"], {"NodeMap": json.dumps([V[2], V[3]])})))
def _(E, I, V):
    E.g("asm", V[0]).get_mapping(node_id=V[1])


def _w_named(W, I, V):
    _w_tree(W, I, V)
    W["default_node"] = (list(CLASSES), {"Name": V[6], "Type": "VM"})


@op("find_node_by_name_as_child", 7, {"label": CLASSES[:5], "rel": RELS}, kind="compound", world=_w_named,
    sent=lambda I, V: V[:2])
def _(E, I, V):
    E.g("asm", V[0]).find_node_by_name_as_child(node_name=V[6], label=I["label"], rel=I["rel"], parent_node_id=V[1])


for _name, _kw in (("find_component_by_name", "component_name"), ("find_ns_by_name", "nsname"),
                   ("find_connection_point_by_name", "iname"), ("find_child_connection_point_by_name", "iname")):
    def _mk3(name, kw):
        @op(name, 7, {}, kind="compound", world=_w_named, sent=lambda I, V: V[:2])
        def _(E, I, V):
            getattr(E.g("asm", V[0]), name)(parent_node_id=V[1], **{kw: V[6]})
    _mk3(_name, _kw)


for _name in ("get_all_network_node_components", "get_all_network_node_or_component_nss"):
    def _mk4(name):
        @op(name, 6, {}, kind="compound", world=_w_tree, sent=lambda I, V: V[:2])
        def _(E, I, V):
            getattr(E.g("asm", V[0]), name)(V[1])
    _mk4(_name)


# ---- delegations: Neo4jARMGraph, Neo4jADMGraph, Neo4jCBMGraph
def _deleg_json(kind, del_id, extra=None):
    d = {del_id: {"pool_id": "_", ("labels" if kind == "LabelDelegations" else "capacities"):
                  ({"vlan_range": "1-10"} if kind == "LabelDelegations" else {"core": 4})}}
    if extra:
        d.update(extra)
    return json.dumps(d)


def _w_arm(W, I, V):
    """V[1], V[2] node ids, V[3] delegation id, V[4] stored site value"""
    W["node_ids"] = [V[1], V[2]]
    props = {"Name": "nm0", "Type": "Server", "Site": V[4]}
    for k in I["delegs"]:
        props[k] = _deleg_json(k, V[3])
    W["nodes"][V[1]] = (["NetworkNode"], props)
    W["nodes"][V[2]] = (["ConnectionPoint"], {"Name": "p1", "Type": "TrunkPort"})
    W["nbr2"] = [[V[1], V[2]]]


_DELEGS = [["LabelDelegations", "CapacityDelegations"], ["LabelDelegations"], ["CapacityDelegations"], []]


@op("generate_adms", 5, {"delegs": _DELEGS, "guids": [False, True]}, kind="compound", world=_w_arm, exact=False,
    sent=lambda I, V: V[:3])
def _(E, I, V):
    E.g("arm", V[0]).generate_adms(delegation_guids={V[3]: "guid-for-del"} if I["guids"] else None)


@op("arm.get_delegations", 5, {"delegs": _DELEGS, "type": ["LABEL", "CAPACITY"]}, kind="compound", world=_w_arm,
    sent=lambda I, V: V[:2])
def _(E, I, V):
    from fim.slivers.delegations import DelegationType
    E.g("arm", V[0]).get_delegations(node_id=V[1], delegation_type=DelegationType[I["type"]])


@op("annotate_delegations_and_pools", 3, {"type": ["LABEL", "CAPACITY"]}, kind="compound", exact=False,
    sent=lambda I, V: V[:2])
def _(E, I, V):
    from fim.slivers.delegations import DelegationType, Delegations, Delegation, DelegationFormat, Pools
    from fim.slivers.capacities_labels import Labels, Capacities
    t = DelegationType[I["type"]]
    d = Delegation(atype=t, aformat=DelegationFormat.SinglePool, delegation_id=V[2])
    d.set_details(Labels(vlan_range="1-10") if t == DelegationType.LABEL else Capacities(core=2))
    ds = Delegations(atype=t)
    ds.add_delegations(d)
    pools = Pools(atype=t)
    pools.build_index_by_delegation_id()
    E.g("arm", V[0]).annotate_delegations_and_pools(dels={V[1]: ds}, pools=pools)


@op("rewrite_delegations", 5, {"delegs": _DELEGS[:3], "real": [False, True]}, kind="compound", world=_w_arm,
    exact=False, sent=lambda I, V: V[:2])
def _(E, I, V):
    E.g("adm", V[0]).rewrite_delegations(real_adm_id="real-adm-id" if I["real"] else None)


def _w_cbm(W, I, V):
    """V[0] cbm id, V[1] adm id, V[2] common node id, V[3] delegation id, V[4] stored site value"""
    W["node_ids"] = [V[2]]
    W["common_ids"] = [V[2]]
    props = {"Name": "nm0", "Type": "Server", "Site": V[4], "StructuralInfo": json.dumps({"adm_graph_ids": ["adm-0"]})}
    for k in I.get("delegs", []):
        props[k] = _deleg_json(k, V[3])
    W["nodes"][V[2]] = (["NetworkNode"], props)            # the node as the (temporary) ADM graph has it
    W["nodes"][(V[0], V[2])] = (["NetworkNode"], {"Name": "nm0", "Type": "Server", "Site": V[4], "StructuralInfo":
                                                  json.dumps({"adm_graph_ids": ["adm-0"]})})   # ... and the CBM
    if I.get("empty"):
        W["exists"] = [True, True, False]      # adm exists, temp adm (cast) exists, CBM is empty


@op("merge_adm", 5, {"delegs": _DELEGS[1:], "empty": [False, True]}, kind="compound", world=_w_cbm, exact=False,
    sent=lambda I, V: [V[0]])
def _(E, I, V):
    E.g("cbm", V[0]).merge_adm(adm=E.g("adm", V[1]))


def _w_unmerge(W, I, V):
    W["node_ids"] = [V[2], V[5]]
    # the id of the delegation model that stays merged is a stored, caller-chosen value as well (V[3])
    si = {"adm_graph_ids": [V[1]] + ([V[3]] if I["shared"] else [])}
    props = {"Name": "nm0", "Type": "Server", "Site": V[4], "StructuralInfo": json.dumps(si)}
    for k in I["delegs"]:
        props[k] = _deleg_json(k, V[1])
    W["nodes"][V[2]] = (["NetworkNode"], props)
    W["nodes"][V[5]] = (["NetworkNode"], {"Name": "nm1", "Type": "Server",
                                          "StructuralInfo": json.dumps({"adm_graph_ids": [V[3]]})})


@op("unmerge_adm", 6, {"delegs": _DELEGS, "shared": [False, True]}, kind="compound", world=_w_unmerge, exact=False,
    sent=lambda I, V: [V[0], V[2], V[5]])
def _(E, I, V):
    E.g("cbm", V[0]).unmerge_adm(graph_id=V[1])


@op("snapshot", 1, {}, kind="compound")
def _(E, I, V):
    E.g("cbm", V[0]).snapshot()


@op("rollback", 2, {}, kind="compound")
def _(E, I, V):
    E.g("cbm", V[0]).rollback(graph_id=V[1])


@op("get_bqm", 1, {}, kind="compound")
def _(E, I, V):
    E.g("cbm", V[0]).get_bqm()


def _w_cbm_deleg(W, I, V):
    W["default_node"] = (["NetworkNode"], {"Name": "nm0", "Type": "Server",
                                           "LabelDelegations": _deleg_json("LabelDelegations", V[2]),
                                           "CapacityDelegations": _deleg_json("CapacityDelegations", V[2])})


@op("cbm.get_delegations", 3, {"type": ["LABEL", "CAPACITY"]}, kind="compound", world=_w_cbm_deleg,
    sent=lambda I, V: V[:2])
def _(E, I, V):
    from fim.slivers.delegations import DelegationType
    E.g("cbm", V[0]).get_delegations(node_id=V[1], adm_id=V[2], delegation_type=DelegationType[I["type"]])


_COMPS = [None, [], [["GPU", True]], [["SmartNIC", True], ["SmartNIC", True], ["SharedNIC", False]],
          [["GPU", False], ["NVME", True]]]


@op("get_matching_nodes_with_components",
    lambda I: 1 + len(I.get("props") or []) + sum(1 for c in (I.get("comps") or []) if c[1]),
    {"label": ["NetworkNode", "CompositeNode"], "props": [[], ["Site"], ["Site", "Type"]], "comps": _COMPS})
def _(E, I, V):
    from fim.slivers.attached_components import ComponentSliver, ComponentType, AttachedComponentsInfo
    np_ = len(I["props"])
    props = dict(zip(I["props"], V[1:1 + np_]))
    comps = None
    if I["comps"] is not None:
        comps = AttachedComponentsInfo()
        models = list(V[1 + np_:])
        for k, (ctype, has_model) in enumerate(I["comps"]):
            c = ComponentSliver()
            c.node_id = f"c{k}"
            c.resource_name = f"comp{k}"
            if ctype is not None:
                c.resource_type = ComponentType[ctype]
            if has_model:
                c.resource_model = models.pop(0)
            comps.add_device(c)
    E.g("cbm", V[0]).get_matching_nodes_with_components(label=I["label"], props=props, comps=comps)


for _name in ("get_intersite_links", "get_sites", "get_disconnected_sites", "get_connected_sites",
              "get_facility_ports"):
    def _mk5(name):
        @op(name, 1, {})
        def _(E, I, V):
            getattr(E.g("cbm", V[0]), name)()
    _mk5(_name)


# ---- topology API on a Neo4j importer (Neo4jASM underneath)
@op("topology.add_node+component", 4, {}, kind="compound", sent=lambda I, V: V[:2])
def _(E, I, V):
    from fim.user.topology import ExperimentTopology
    from fim.slivers.attached_components import ComponentType
    t = ExperimentTopology(importer=E.imp)
    n = t.add_node(name="node1", site=V[0], boot_script=V[1])
    n.add_component(name="comp1", ctype=ComponentType.GPU, model="RTX6000")


@op("topology.load", 1, {}, kind="compound", sent=lambda I, V: [])
def _(E, I, V):
    from fim.user.topology import ExperimentTopology
    ExperimentTopology(graph_string=graphml(V[0]), importer=E.imp)


OP_NAMES = sorted(OPS)


# ---------------------------------------------------------------------------------------------------------------
# case plumbing
# ---------------------------------------------------------------------------------------------------------------
def _nvals(o, I):
    return o["nvals"](I) if callable(o["nvals"]) else o["nvals"]


def _norm_idents(o, given):
    """complete / repair the identifiers of a (possibly shrunk or hand-written) case: unknown choice -> first"""
    I = {}
    for k, choices in o["idents"].items():
        v = given.get(k, choices[0]) if isinstance(given, dict) else choices[0]
        I[k] = v if v in choices else choices[0]
    return I


def _fit(vec, n, tag):
    """exactly n pairwise distinct strings (pad / cut / disambiguate deterministically)"""
    out = []
    seen = set()
    for i in range(n):
        v = vec[i] if isinstance(vec, list) and i < len(vec) and isinstance(vec[i], str) else f"pad{tag}{i}"
        v = v.replace("\r", " ")
        while v in seen:
            v = v + "~" + str(i)
        seen.add(v)
        out.append(v)
    return out


def _benign(n):
    return [f"Vq{i}xz" for i in range(n)]


@st.composite
def _case(draw):
    name = draw(st.sampled_from(OP_NAMES))
    o = OPS[name]
    I = {k: draw(st.sampled_from(ch)) for k, ch in sorted(o["idents"].items())}
    n = _nvals(o, I)
    va = draw(st.lists(_value, min_size=n, max_size=n))
    mode = draw(st.integers(0, 3))
    if mode == 0 and n > 0:          # B differs from A in exactly one position
        vb = list(va)
        vb[draw(st.integers(0, n - 1))] = draw(_value)
    else:
        vb = draw(st.lists(_value, min_size=n, max_size=n))
    case = {"op": name, "idents": I, "values": [va, vb]}
    if draw(st.integers(0, 5)) == 0:
        case["fail_at"] = draw(st.integers(1, 6))     # the k-th statement fails at the driver
    return case


def strategy(tier):
    return _case()


def _ident_variants(o):
    """a small deterministic set of identifier combinations: the first choice of everything, then each identifier
    varied on its own through all its choices"""
    base = {k: ch[0] for k, ch in o["idents"].items()}
    out = [dict(base)]
    for k, ch in sorted(o["idents"].items()):
        for c in ch[1:]:
            v = dict(base)
            v[k] = c
            out.append(v)
    return out


def enumerate_cases(tier):
    step = 1 if tier == "thorough" else 3
    for name in OP_NAMES:
        o = OPS[name]
        for vi, I in enumerate(_ident_variants(o)):
            n = _nvals(o, I)
            if n == 0:
                yield {"op": name, "idents": I, "values": [[], []]}
                continue
            ks = range(len(ADVERSARIAL)) if vi == 0 else range(vi % step, len(ADVERSARIAL), step)
            for k in ks:
                va = [ADVERSARIAL[(k + 3 * i) % len(ADVERSARIAL)] for i in range(n)]
                vb = [ADVERSARIAL[(k + 7 + 5 * i) % len(ADVERSARIAL)] for i in range(n)]
                yield {"op": name, "idents": I, "values": [va, vb]}
            if vi == 0:
                # fault injection: the k-th statement of the operation fails at the driver, so that the
                # statements issued on the error-handling paths are captured and judged too
                va = [ADVERSARIAL[(3 * i) % len(ADVERSARIAL)] for i in range(n)]
                vb = [ADVERSARIAL[(7 + 5 * i) % len(ADVERSARIAL)] for i in range(n)]
                nst = len(_execute(o, I, _benign(n)).stmts)
                for fa in range(1, min(nst, 8 if tier == "thorough" else 4) + 1):
                    yield {"op": name, "idents": I, "values": [va, vb], "fail_at": fa}


ENUM_EXHAUSTIVE = False

# which operations reach each statement builder that has a recorded finding (measured on the pinned tree)
PINNED_REACH = {
    "C19/add_link/literal-not-escaped": {"add_link"},
    "C19/add_node/literal-not-escaped": {"add_component_sliver", "add_interface_sliver", "add_network_link_sliver",
                                         "add_network_node_sliver", "add_network_service_sliver", "add_node",
                                         "topology.add_node+component"},
    "C19/get_matching_nodes_with_components/dangling-comma": {"get_matching_nodes_with_components"},
    "C19/get_matching_nodes_with_components/literal-not-escaped": {"get_matching_nodes_with_components"},
    "C19/graph_exists/literal-not-escaped": {"find_matching_nodes", "graph_exists", "importer.cast_graph", "merge_adm",
                                             "merge_nodes", "rollback"},
    "C19/merge_nodes/literal-not-escaped": {"merge_nodes"},
    "C19/serialize_graph/literal-not-escaped": {"clone_graph", "generate_adms", "get_bqm", "merge_adm",
                                                "serialize_graph", "snapshot"},
    "C19/update_link_properties/literal-not-escaped": {"update_link_properties"},
    "C19/update_node_properties/literal-not-escaped": {"merge_adm", "rewrite_delegations", "update_node_properties"},
}


# ---------------------------------------------------------------------------------------------------------------
# execution of one run
# ---------------------------------------------------------------------------------------------------------------
class _Run:
    __slots__ = ("stmts", "exc", "vals", "sent", "allowed")


def _execute(o, I, V, fail_at=None):
    import uuid
    import fim.graph.neo4j_property_graph as npg
    from fim.graph.networkx_property_graph import NetworkXGraphStorage
    from fim.graph.networkx_property_graph_disjoint import NetworkXGraphStorageDisjoint
    NetworkXGraphStorage.storage_instance = None
    NetworkXGraphStorageDisjoint.storage_instance = None
    npg.Neo4jGraphImporter.index_initialized = False
    W = base_world(V[0] if V else "gid-0")
    if o["world"]:
        o["world"](W, I, V)
    E = Env(W)
    counter = [0]

    def fake_uuid4():
        counter[0] += 1
        return uuid.UUID(int=(0x1234 << 96) | counter[0], version=4)

    saved = (npg.GraphDatabase, uuid.uuid4, npg.time)
    npg.GraphDatabase = cy.FakeGraphDatabase(E.rec)
    uuid.uuid4 = fake_uuid4
    npg.time = types.SimpleNamespace(sleep=lambda s: None, time=saved[2].time)
    r = _Run()
    r.exc = None
    os.makedirs(_scratch_dir(), exist_ok=True)
    try:
        if o["name"] != "importer.init":
            E.imp                   # connect + index bootstrap are judged by the importer.init operation only
            del E.rec.statements[:]
        E.rec.fail_at = fail_at
        try:
            o["call"](E, I, list(V))
        except Exception as e:      # library failures are data here; the statements issued so far are still judged
            r.exc = e
        finally:
            imp = E._imp
            if imp is not None:
                imp.driver = None   # keep Neo4jGraphImporter.__del__ quiet
    finally:
        npg.GraphDatabase, uuid.uuid4, npg.time = saved
        shutil.rmtree(_scratch_dir(), ignore_errors=True)
    r.stmts = E.rec.statements
    r.vals = list(V)
    r.sent = list(o["sent"](I, list(V))) if o["sent"] else list(V)
    r.allowed = set(r.vals) | {s for s in r.sent if isinstance(s, str)}
    return r


def _leaves(x):
    if isinstance(x, dict):
        for v in x.values():
            yield from _leaves(v)
    elif isinstance(x, (list, tuple, set)):
        for v in x:
            yield from _leaves(v)
    else:
        yield x


def _short(s, n=260):
    s = s if len(s) <= n else s[:n // 2] + " ... " + s[-n // 2:]
    return s.replace("\n", "\\n")


def run_case(case):
    o = OPS[case["op"]]
    I = _norm_idents(o, case.get("idents") or {})
    n = _nvals(o, I)
    vecs = list(case.get("values") or [])[:2]
    while len(vecs) < 2:
        vecs.append([])
    VA, VB = _fit(vecs[0], n, "a"), _fit(vecs[1], n, "b")
    V0 = _benign(n)
    fa = case.get("fail_at")
    r0, ra, rb = _execute(o, I, V0, fa), _execute(o, I, VA, fa), _execute(o, I, VB, fa)

    v, seen = [], set()

    def viol(issuer, clause, msg):
        sig = f"C19/{issuer}/{clause}"
        # a recorded finding is tied to the operations that reached the defective statement builder on the pinned
        # tree; the same builder newly reached from another operation is a different violation
        if sig in PINNED_REACH and case["op"] not in PINNED_REACH[sig]:
            sig = f"C19/{case['op']}>{issuer}/{clause}"
        if sig not in seen:
            seen.add(sig)
            v.append((sig, f"op={case['op']} idents={json.dumps(I, sort_keys=True)}: {msg}"))

    # ---- clauses 1-3 on the benign run (the statement templates)
    if len(r0.stmts) < o["min_stmts"]:
        viol(case["op"], "no-statement",
             f"the operation handed no statement to the driver (raised {type(r0.exc).__name__}: {_short(str(r0.exc), 160)})")
    for s in r0.stmts:
        for clause, msg in cy.lint(s.text, s.params):
            viol(s.issuer, clause, f"{msg}; statement: {_short(s.text)}")

    # ---- clause 4: benign vs A, benign vs B, A vs B
    spliced = set()
    aligned = True

    def compare(x, y):
        nonlocal aligned
        m = min(len(x.stmts), len(y.stmts))
        if len(x.stmts) != len(y.stmts):
            aligned = False
        for k in range(m):
            sx, sy = x.stmts[k], y.stmts[k]
            if sx.issuer != sy.issuer:
                aligned = False
                break
            mapping = None
            if x is r0:          # benign markers identify the role of a literal: V0[i] must become y's i-th value
                mapping = dict(zip(x.vals, y.vals))
                mapping.update({a: b for a, b in zip(x.sent, y.sent) if isinstance(a, str) and isinstance(b, str)})
            why = cy.diff_statements(sx.text, x.allowed if o["exact"] else _Any, sy.text,
                                     y.allowed if o["exact"] else _Any, mapping)
            if why is None:
                continue
            spliced.add((id(y), k))
            spliced.add((id(x), k))
            # classify with the benign template: was the value put between quotes or into bare text?
            ref = r0.stmts[k] if k < len(r0.stmts) and r0.stmts[k].issuer == sx.issuer else None
            clause = "literal-not-escaped"
            if ref is not None:
                inside, outside = cy.marker_contexts(ref.text, V0)
                if outside or not inside:
                    clause = "value-in-text"
            viol(sx.issuer, clause, f"{why}; text 1: {_short(sx.text)} || text 2: {_short(sy.text)}")

    compare(r0, ra)
    compare(r0, rb)
    compare(ra, rb)

    # ---- clauses 1-3 on adversarial statements whose text legitimately differs from the template
    for r in (ra, rb):
        for k, s in enumerate(r.stmts):
            if (id(r), k) in spliced:
                continue
            if k < len(r0.stmts) and r0.stmts[k].issuer == s.issuer:
                if r0.stmts[k].text == s.text and sorted(r0.stmts[k].params) == sorted(s.params):
                    continue                      # same template, same parameter names: already judged
                for clause, msg in cy.lint(s.text, s.params):
                    viol(s.issuer, clause, f"{msg}; statement: {_short(s.text)}")

    # ---- clause 4, second half: sent values arrive unchanged (parameter value, or decoded literal)
    for r in (r0, ra, rb):
        if any((id(r), k) in spliced for k in range(len(r.stmts))):
            continue                              # corrupted by splicing: reported above
        if r.exc is not None:
            continue                              # the library refused the arguments part-way: nothing to deliver
        got = []
        for s in r.stmts:
            got.extend(_leaves(s.params))
            got.extend(t.value for t in cy.lex(s.text)[0] if t.kind == "str")
        for sv in r.sent:
            if not any(type(g) is type(sv) and g == sv for g in got):
                issuer = r.stmts[-1].issuer if r.stmts else case["op"]
                viol(issuer if len({s.issuer for s in r.stmts}) == 1 else case["op"], "value-not-delivered",
                     f"value {_short(repr(sv), 80)} is sent by the operation but reaches the driver neither as a "
                     f"parameter value nor as a literal; statements: {[_short(s.text, 120) for s in r.stmts][:4]}")
                break

    allv = VA + VB
    joined = "".join(allv)
    labels = [f"kind:{o['kind']}"]
    if "'" in joined or '"' in joined:
        labels.append("has-quote")
    if "\\" in joined:
        labels.append("has-backslash")
    if "{" in joined or "}" in joined:
        labels.append("has-brace")
    if "$" in joined:
        labels.append("has-dollar")
    if "\n" in joined:
        labels.append("has-newline")
    if "//" in joined or "/*" in joined:
        labels.append("has-comment")
    if any(k in joined for k in KEYWORDS_IN_VALUES):
        labels.append("has-keyword")
    if any(len(x) > 200 for x in allv):
        labels.append("long")
    if any(ord(c) > 127 for c in joined):
        labels.append("non-ascii")
    if aligned:
        labels.append("aligned")
    if spliced:
        labels.append("value-dependent-text")
    if r0.exc is not None:
        labels.append("benign-run-raised")
    if ra.exc is not None or rb.exc is not None:
        labels.append("adversarial-run-raised")
    if n == 0:
        labels.append("no-values")
    labels.append("stmts:" + ("0" if not r0.stmts else "1" if len(r0.stmts) == 1 else "2-5" if len(r0.stmts) <= 5
                              else "6+"))
    if case.get("fail_at"):
        labels.append("driver-fault-injected")
        if len(r0.stmts) > case["fail_at"]:
            labels.append("statements-after-fault")
    nt = n >= 1 and ("'" in joined or '"' in joined or "\\" in joined)
    return {"v": v, "nt": bool(nt), "labels": labels}


class _AnySet:
    def __contains__(self, item):
        return True


_Any = _AnySet()

# directed probes: minimal reproducer per finding key (signature)
PROBES = {
    "C19/update_node_properties/literal-not-escaped":
        {"op": "update_node_properties", "idents": {"cls": "pg", "props": ["Name"]}, "values": [["g", "n", "it's"], ["g", "n", "x"]]},
    "C19/update_link_properties/literal-not-escaped":
        {"op": "update_link_properties", "idents": {"cls": "pg", "kind": "has", "props": ["Details"]},
         "values": [["g", "a", "b", 'say "hi"'], ["g", "a", "b", "x"]]},
    "C19/update_link_properties/template-residue":
        {"op": "update_link_properties", "idents": {"cls": "pg", "kind": "has", "props": []}, "values": [["g", "a", "b"], ["g", "a", "c"]]},
    "C19/update_link_properties/unbound-variable":
        {"op": "update_link_properties", "idents": {"cls": "pg", "kind": "has", "props": []}, "values": [["g", "a", "b"], ["g", "a", "c"]]},
    "C19/add_node/literal-not-escaped":
        {"op": "add_node", "idents": {"cls": "pg", "label": "NetworkNode", "props": []}, "values": [["g", "it's"], ["g", "n"]]},
    "C19/add_link/literal-not-escaped":
        {"op": "add_link", "idents": {"cls": "pg", "rel": "has", "props": ["Details"]},
         "values": [["g", "a", "b", "it's"], ["g", "a", "b", "x"]]},
    "C19/merge_nodes/literal-not-escaped":
        {"op": "merge_nodes", "idents": {"cls": "pg", "policy": ["Name"]}, "values": [["g", "h", "n", "it's"], ["g", "h", "n", "x"]]},
    "C19/get_matching_nodes_with_components/literal-not-escaped":
        {"op": "get_matching_nodes_with_components", "idents": {"label": "NetworkNode", "props": ["Site"], "comps": None},
         "values": [["g", 'say "hi"'], ["g", "x"]]},
    "C19/get_matching_nodes_with_components/dangling-comma":
        {"op": "get_matching_nodes_with_components", "idents": {"label": "NetworkNode", "props": [], "comps": None},
         "values": [["g"], ["h"]]},
    "C19/node_exists/unbalanced":
        {"op": "node_exists", "idents": {"cls": "pg", "label": "NetworkNode"}, "values": [["g", "n"], ["g", "m"]]},
    "C19/serialize_graph/literal-not-escaped":
        {"op": "serialize_graph", "idents": {"cls": "pg"}, "values": [['say "hi"'], ["g"]]},
    "C19/graph_exists/literal-not-escaped":
        {"op": "graph_exists", "idents": {"cls": "pg", "exists": True}, "values": [['say "hi"'], ["g"]]},
}
