"""
C13 - partitioning an aggregate model yields sound per-delegation models (DESIGN.md §3 "C13").

case = {"arm": <E6 description>            (or "shipped": "RENCI"|"UKY"|"LBNL"|"Network" - corpus seeds)
        "guids": {delegation id: graph id} | None,   -> generate_adms(delegation_guids=...)
        "bystander": bool,                 another graph with the same NodeIDs lives in the store
        "rekey": str}                      real_adm_id used for clause 8

Oracle: everything is computed from the canonical snapshot of the ARM taken before the call
(engines/substrate.canon), with an independent decoder of the delegation JSON.
"""
import os

from hypothesis import strategies as st

from fimverif.engines import substrate as S

ID = "C13"
RULE = ("Hypothesis-generated substrate descriptions (E6: 1-2 sites, workers with components/NIC services/ports, "
        "data-plane switch with MPLS service, patch links, trunk ports and switch as stitch nodes, optional P4 "
        "switch/facility, inter-switch links) annotated with 1-3 delegation ids (label-only/capacity-only/both/"
        "none per resource; single, pool definition, pool reference; sometimes several ids on one resource), "
        "loaded through add_node/add_link into the in-memory shared store; generate_adms with and without "
        "delegation_guids; plus the 4 shipped *-ad.graphml as seeds. Non-trivial: >= 2 delegation ids and >= 1 "
        "resource carrying only one kind of delegation. Distinct by hash of the case.")
ASSUMPTIONS = [
    "per resource and delegation kind the annotation has a shape the API can produce: either single-resource "
    "entries (1..n ids) or pool definition/reference entries with distinct delegation ids",
    "delegation details are non-empty Labels/Capacities dictionaries (the encoder asserts that)",
    "delegation_guids maps delegation ids to distinct graph ids not otherwise present in the store",
    "an interface is attached to at most one link (as in every model the topology API builds)",
    "links carry no delegations (none of the shipped models has any)",
]
BUDGET = {"quick": 2000, "thorough": 20000}
MIN_LABEL_FRACTION = {"one-kind-node": 0.5, "ids>=2": 0.4, "pooled": 0.25, "multi-id-node": 0.2,
                      "no-one-kind-node": 0.08, "guids": 0.2, "two-sites": 0.25}

SIG_UNSET = "C13/generate_adms/raised/unset-missing-property"
SHIPPED = ["RENCI", "UKY", "LBNL", "Network"]


@st.composite
def _case(draw):
    arm = draw(S.substrate())
    ids = sorted({d for n in arm["nodes"] for f in ("ld", "cd") for d in n.get(f, {})})
    guids = None
    if draw(st.integers(0, 2)) == 0:
        guids = {d: f"guid-{d}" for d in ids if draw(st.integers(0, 3)) > 0}
    return {"arm": arm, "guids": guids, "bystander": draw(st.integers(0, 3)) == 0,
            "rekey": draw(st.sampled_from(["adm-real-id", "primary", "x"]))}


def strategy(tier):
    return _case()


def enumerate_cases(tier):
    for name in SHIPPED:
        yield {"shipped": name, "guids": None, "bystander": False, "rekey": "adm-real-id"}
    yield {"shipped": "RENCI", "guids": {"primary": "guid-primary"}, "bystander": True, "rekey": "x"}


ENUM_EXHAUSTIVE = False

PROBES = {
    # one server carrying only a capacity delegation: generate_adms unsets the (missing) label delegations
    SIG_UNSET: {"arm": {"gid": "arm-0", "nodes": [
        {"id": "a-w0", "cls": "NetworkNode", "props": {"Name": "w0", "Type": "Server", "StitchNode": "false"},
         "cd": {"primary": {"pool_id": "_", "capacities": {"core": 2}}}}], "edges": []},
        "guids": None, "bystander": False, "rekey": "x"},
}


def _deleg(props):
    return S.decode_delegations(props.get(S.P_LD)), S.decode_delegations(props.get(S.P_CD))


def _other(props):
    return {k: v for k, v in props.items() if k not in (S.P_LD, S.P_CD)}


def run_case(case):
    S.reset_stores()
    from fim.graph.networkx_property_graph import NetworkXGraphImporter
    from fim.graph.resources.networkx_adm import NetworkXADMGraph
    v, seen = [], set()
    labels = []

    def bad(sig, msg):
        if sig not in seen:                      # one message per signature and case
            seen.add(sig)
            v.append((sig, msg))

    if "shipped" in case:
        desc = S.shipped_ad_desc(case["shipped"], os.path.abspath(os.environ.get("VERIF_REPO", "/repo")))
        labels.append("shipped")
    else:
        desc = case["arm"]
    imp = NetworkXGraphImporter()
    with S.deterministic_uuid():
        arm = S.build(desc, imp)
        if case.get("bystander"):
            S.build(desc, imp, gid="bystander-0")
        pre = S.canon(arm)
        pre_by = S.canon_of_id(imp.storage, "bystander-0")
        if pre != S.canon_of_desc(desc):
            raise AssertionError("harness: loaded model differs from its description")
        ids_before = set(S.graph_ids(imp.storage))
        pre_nodes, pre_edges = pre
        L, C = {}, {}
        for n, (_, props) in pre_nodes.items():
            L[n], C[n] = _deleg(props)
        D = sorted({d for n in pre_nodes for d in list(L[n]) + list(C[n])})
        stitch = sorted(n for n, (_, p) in pre_nodes.items() if p.get("StitchNode") == "true")
        # adjacency of the ARM for the closure clause (independent of the library's traversal)
        adj = {n: [] for n in pre_nodes}
        for e, (rel, _) in pre_edges.items():
            a, z = (tuple(e) * 2)[:2]
            adj[a].append((rel, z))
            adj[z].append((rel, a))
        cls_of = {n: c for n, (c, _) in pre_nodes.items()}

        # ---- classification of the case
        one_kind = [n for n in pre_nodes if bool(L[n]) != bool(C[n])]
        if len(D) >= 2:
            labels.append("ids>=2")
        labels.append(f"ids={len(D)}")
        labels.append("one-kind-node" if one_kind else "no-one-kind-node")
        if any(f != "single" for n in pre_nodes for f, _, _ in list(L[n].values()) + list(C[n].values())):
            labels.append("pooled")
        if any(len(L[n]) > 1 or len(C[n]) > 1 or (L[n] and C[n] and set(L[n]) != set(C[n])) for n in pre_nodes):
            labels.append("multi-id-node")
        if case.get("guids"):
            labels.append("guids")
        if case.get("bystander"):
            labels.append("bystander")
        if any(n.startswith("b-") for n in pre_nodes):
            labels.append("two-sites")
        if any(L[n] or C[n] for n in stitch):
            labels.append("delegated-stitch-node")
        nt = len(D) >= 2 and bool(one_kind)

        guids = case.get("guids")
        res = None
        try:
            res = arm.generate_adms(delegation_guids=dict(guids)) if guids else arm.generate_adms()
        except Exception as e:               # "never fails" on a well-formed annotated model
            labels.append("raised")
            if "Unable to unset property" in str(e):
                bad(SIG_UNSET, f"generate_adms raised {type(e).__name__}: {e} "
                               f"({len(one_kind)} node(s) carry only one kind of delegation, e.g. {sorted(one_kind)[:2]})")
            else:
                bad(f"C13/generate_adms/raised/{type(e).__name__}", f"generate_adms raised {type(e).__name__}: {e}")

        # ---- clause 7: the ARM and unrelated graphs are untouched (also when the call failed)
        if S.canon(arm) != pre:
            bad("C13/generate_adms/arm-modified", _diff("ARM", pre, S.canon(arm)))
        if case.get("bystander") and S.canon_of_id(imp.storage, "bystander-0") != pre_by:
            bad("C13/generate_adms/bystander-modified", _diff("bystander", pre_by,
                                                              S.canon_of_id(imp.storage, "bystander-0")))
        if res is None:
            return {"v": v, "nt": nt, "labels": labels}
        labels.append("reached-oracle")

        # ---- clause 1: exactly one model per delegation id
        if sorted(res.keys()) != D:
            bad("C13/generate_adms/models-per-id", f"models for {sorted(res.keys())}, delegation ids are {D}")
        gids = {d: g.graph_id for d, g in res.items()}
        if len(set(gids.values())) != len(gids) or set(gids.values()) & ids_before:
            bad("C13/generate_adms/graph-ids-not-fresh", f"model graph ids {gids}, store had {sorted(ids_before)}")
        for d in sorted(res):
            if guids and d in guids and gids[d] != guids[d]:
                bad("C13/generate_adms/guid-not-used", f"delegation {d}: graph id {gids[d]}, requested {guids[d]}")
        ids_after = set(S.graph_ids(imp.storage))
        # a delegation whose model is empty cannot exist: every id has >= 1 node
        if ids_after != ids_before | set(gids.values()):
            bad("C13/generate_adms/stray-graph", f"store graph ids {sorted(ids_after)}; expected "
                                                 f"{sorted(ids_before | set(gids.values()))}")

        for d in sorted(res):
            if d not in D:
                continue
            m_nodes, m_edges = S.canon(res[d])
            ctx = f"model {d!r}"
            # ---- clauses 2 + 3: own entries exact, nothing foreign, nothing residual
            for n in sorted(pre_nodes):
                if (d in L[n] or d in C[n]) and n not in m_nodes:
                    bad("C13/model/delegated-node-missing", f"{ctx}: {n} carries an entry for {d} but is absent")
            for n in sorted(m_nodes):
                if n not in pre_nodes:
                    continue
                got = dict(zip(("L", "C"), _deleg(m_nodes[n][1])))
                for kind, src in (("L", L[n]), ("C", C[n])):
                    exp = {d: src[d]} if d in src else {}
                    if got[kind] == exp:
                        continue
                    if set(got[kind]) - {d}:
                        bad("C13/model/foreign-entry", f"{ctx}: node {n} {kind}-delegations {got[kind]}, ARM had {src}")
                    else:
                        bad("C13/model/own-entries", f"{ctx}: node {n} {kind}-delegations {got[kind]}, expected {exp}")
            # ---- clause 4: sub-model
            extra = sorted(set(m_nodes) - set(pre_nodes))
            if extra:
                bad("C13/model/extra-node", f"{ctx}: nodes not in the ARM: {extra[:5]}")
            for n in sorted(set(m_nodes) & set(pre_nodes)):
                if m_nodes[n][0] != pre_nodes[n][0] or _other(m_nodes[n][1]) != _other(pre_nodes[n][1]):
                    bad("C13/model/other-props-changed", f"{ctx}: node {n}: {m_nodes[n]} vs ARM {pre_nodes[n]}")
            exp_edges = {e: x for e, x in pre_edges.items() if e <= set(m_nodes)}
            for e in sorted(set(exp_edges) - set(m_edges), key=sorted):
                bad("C13/model/edge-missing", f"{ctx}: ARM edge {sorted(e)} between two kept nodes is gone")
            for e in sorted(set(m_edges) - set(exp_edges), key=sorted):
                bad("C13/model/edge-extra", f"{ctx}: edge {sorted(e)} is not an ARM edge")
            for e in sorted(set(m_edges) & set(exp_edges), key=sorted):
                if m_edges[e] != exp_edges[e]:
                    bad("C13/model/edge-props", f"{ctx}: edge {sorted(e)}: {m_edges[e]} vs ARM {exp_edges[e]}")
            # ---- clause 5: closure of every kept interface
            for p in sorted(n for n in m_nodes if cls_of.get(n) == "ConnectionPoint"):
                for rel, x in sorted(adj[p]):
                    if rel != "connects":
                        continue
                    if cls_of[x] == "Link":
                        if x not in m_nodes:
                            bad("C13/model/closure/link", f"{ctx}: interface {p} kept without its link {x}")
                        for rel2, q in sorted(adj[x]):
                            if rel2 == "connects" and cls_of[q] == "ConnectionPoint" and q != p and q not in m_nodes:
                                bad("C13/model/closure/peer", f"{ctx}: interface {p} kept without its peer {q}")
                    elif cls_of[x] == "NetworkService":
                        if x not in m_nodes:
                            bad("C13/model/closure/service", f"{ctx}: interface {p} kept without its service {x}")
                        for rel2, o in sorted(adj[x]):
                            if rel2 == "has" and cls_of[o] in ("NetworkNode", "Component") and o not in m_nodes:
                                bad("C13/model/closure/owner", f"{ctx}: interface {p}: service {x} kept without "
                                                               f"its owner {o}")
            # ---- clause 6: stitch nodes everywhere
            gone = [n for n in stitch if n not in m_nodes]
            if gone:
                bad("C13/model/stitch-node-missing", f"{ctx}: stitch nodes {gone[:5]} are absent")

            # ---- clause 8: re-keying changes only the key
            for variant, new_key in (("real-id", case.get("rekey") or "x"), ("graph-id", None)):
                try:
                    if new_key is not None:
                        tmp = res[d].clone_graph(new_graph_id="rekey-tmp")
                        NetworkXADMGraph(graph_id="rekey-tmp", importer=imp).rewrite_delegations(real_adm_id=new_key)
                        after = S.canon(tmp)
                        tmp.delete_graph()
                    else:
                        NetworkXADMGraph(graph_id=gids[d], importer=imp).rewrite_delegations()
                        after = S.canon(res[d])
                        new_key = gids[d]
                except Exception as e:
                    bad(f"C13/rewrite_delegations/raised/{type(e).__name__}", f"{ctx} ({variant}): {type(e).__name__}: {e}")
                    continue
                a_nodes, a_edges = after
                if set(a_nodes) != set(m_nodes) or a_edges != m_edges:
                    bad("C13/rewrite_delegations/structure-changed", f"{ctx} ({variant}): " + _diff("model", (m_nodes, m_edges), after))
                    continue
                for n in sorted(m_nodes):
                    if a_nodes[n][0] != m_nodes[n][0] or _other(a_nodes[n][1]) != _other(m_nodes[n][1]):
                        bad("C13/rewrite_delegations/other-props-changed", f"{ctx} ({variant}): node {n}: "
                            f"{a_nodes[n]} vs {m_nodes[n]}")
                    for kind, b4, af in zip("LC", _deleg(m_nodes[n][1]), _deleg(a_nodes[n][1])):
                        exp = {new_key: x for x in b4.values()} if len(b4) == 1 else b4
                        if af != exp:
                            bad(f"C13/rewrite_delegations/rekey/{variant}", f"{ctx}: node {n} {kind}-delegations "
                                f"{af}, expected {exp}")
        # the ARM still untouched after the re-keying of its partitions
        if S.canon(arm) != pre:
            bad("C13/rewrite_delegations/arm-modified", _diff("ARM", pre, S.canon(arm)))

        # ---- history clause: the model grows, the SAME handle partitions it again. A resource added after the first
        # call (delegated to a new id, connected to nothing) must get its own partition and appear in no other one.
        if not v and "shipped" not in case:
            import json as _json
            late_id, late_del = "late-worker", "late-delegation"
            try:
                arm.add_node(node_id=late_id, label="NetworkNode",
                             props={"Name": "late-worker", "Type": "Server", "StitchNode": "false",
                                    S.P_CD: _json.dumps({late_del: {"pool_id": "_", "capacities": {"core": 4}}})})
                res2 = arm.generate_adms()
            except Exception as e:
                bad(f"C13/generate_adms/second-call/raised/{type(e).__name__}",
                    f"second generate_adms on the same handle after adding a resource: {type(e).__name__}: {e}")
                res2 = None
            if res2 is not None:
                labels.append("second-call")
                if sorted(res2.keys()) != sorted(D + [late_del]):
                    bad("C13/generate_adms/second-call/models-per-id",
                        f"after adding a resource delegated to {late_del!r}: models for {sorted(res2.keys())}, "
                        f"delegation ids are {sorted(D + [late_del])}")
                for d2, g2 in sorted(res2.items()):
                    n2, _e2 = S.canon(NetworkXADMGraph(graph_id=g2.graph_id, importer=imp))
                    if d2 == late_del and late_id not in n2:
                        bad("C13/generate_adms/second-call/delegated-resource-missing",
                            f"partition {d2} lacks the resource added before the second call")
                    if d2 != late_del and late_id in n2:
                        bad("C13/generate_adms/second-call/foreign-resource",
                            f"partition {d2} contains {late_id}, delegated only to {late_del} and connected to nothing")
    return {"v": v, "nt": nt, "labels": labels}


def _diff(what, before, after):
    bn, be = before
    an, ae = after
    parts = []
    if set(bn) != set(an):
        parts.append(f"nodes -{sorted(set(bn) - set(an))[:4]} +{sorted(set(an) - set(bn))[:4]}")
    ch = [n for n in sorted(set(bn) & set(an)) if bn[n] != an[n]]
    if ch:
        n = ch[0]
        keys = sorted(k for k in set(bn[n][1]) | set(an[n][1]) if bn[n][1].get(k) != an[n][1].get(k))
        parts.append(f"{len(ch)} node(s) changed, e.g. {n}: " +
                     ", ".join(f"{k}: {bn[n][1].get(k)!r} -> {an[n][1].get(k)!r}" for k in keys[:3]))
    if be != ae:
        parts.append(f"edges -{[sorted(e) for e in sorted(set(be) - set(ae), key=sorted)][:3]} "
                     f"+{[sorted(e) for e in sorted(set(ae) - set(be), key=sorted)][:3]}")
    return f"{what} changed: " + "; ".join(parts)
