"""
C04 - graphs sharing the in-memory store are isolated; clones are independent (DESIGN.md §C04).

case = {"fl": "shared"|"disjoint", "descs": [raw graph description, ...], "ops": [op, ...]}
ops:  ["import", gid, desc index, "graphml"|"json", "string"|"file"|"string_none", "int"|"str"|"gap", carried GraphID|None]
      ["import_bad", gid, desc index, fmt, position of the node without NodeID]
      ["import_direct", gid, desc index, fmt, "string"|"file", keys]
      ["clone", src, dst], ["delete_graph", gid], ["delete_graph_imp", gid], ["delete_all"]
      + the node/link operations of C05 (add_node, delete_node, add_link, upd_node, unset_node, upd_node_props,
        upd_nodes, upd_link, unset_link, upd_link_props, get_node, list_ids)
After every operation the canonical content of EVERY graph id is compared with the reference model (this is the
frame condition and the target condition at once), stored-node identities are checked, and the lock must be free.
Import text is produced by the harness with networkx directly (not by the library's serializer: that is C01).
"""
import copy
import json
import os
import tempfile

from hypothesis import strategies as st
from fimverif.engines import store
from fimverif.engines.refmodel import RefStore, ModelRaise, UNSPEC
from fimverif.props import c05

ID = "C04"
RULE = ("Hypothesis-generated histories of 1-25 (thorough: 60) operations over graph ids g0..g3, g10, g (look-alike ids) on one store (both "
        "flavours): imports from string/file/direct of 2-3 generated small graphs in GraphML and JSON node-link whose "
        "own node keys are integers from 1 (colliding with stored internal ids) or strings, node/link mutations, "
        "whole-graph property updates, delete (via graph object / importer), delete-all, clone. Oracle: reference "
        "model of the store; canonical content of every graph id compared after every step (frame + target), "
        "stored-node identity uniqueness and count, lock free after every call. Non-trivial: the history touches >=2 "
        "graphs and contains >=1 of {re-import under an existing id, delete-then-reimport, clone followed by a "
        "mutation of source or clone, colliding-key import into a non-empty store}. Distinct by hash of the case.")
ASSUMPTIONS = ["re-import under an existing non-empty id on the per-graph store may replace or skip (documented 'skip')",
               "operations addressed to a graph without nodes (clone/list/update-all) are unspecified",
               "deliberate GraphID rewrites are C14's subject and not generated here"]
BUDGET = {"quick": 3500, "thorough": 40000}
MIN_LABEL_FRACTION = {"nontrivial": 0.4, "reimport-existing": 0.15, "delete-then-reimport": 0.05,
                      "clone-then-mutate": 0.03, "disjoint": 0.3, "collide-import": 0.2}

# ("g1" is a prefix of "g10", "g" a substring of every id: ids are compared, never searched)
GIDS = ["g0", "g1", "g2", "g3", "g10", "g"]
IDS = ["a", "b", "c", "d"]      # ("e", "f", "h" are only used for nodes added right after an import)
CLS = ["X", "Y"]
RELS = ["r", "s"]
PNAMES = ["p", "q", "Name", "Type"]
VALS = [1, "v", "w", 22, ""]

_gid = st.sampled_from(GIDS)
_gid2 = st.sampled_from(["g0"] * 5 + ["g1"] * 4 + ["g2"] * 2 + ["g3", "g10", "g10", "g"])    # bias towards g0/g1
_nid = st.sampled_from(IDS)
_pn = st.sampled_from(PNAMES)
_v = st.sampled_from(VALS)
_props = st.dictionaries(_pn, _v, max_size=2)


@st.composite
def _desc(draw):
    n = draw(st.integers(1, 4))
    ids = draw(st.permutations(IDS))[:n]
    nodes = [{"id": i, "cls": draw(st.sampled_from(CLS)), "props": draw(_props)} for i in ids]
    edges = []
    for a in range(n):
        for b in range(a + 1, n):
            if draw(st.booleans()):
                edges.append({"a": a, "b": b, "rel": draw(st.sampled_from(RELS)), "props": draw(_props)})
    return {"nodes": nodes, "edges": edges}


@st.composite
def _op(draw, ndesc):
    k = draw(st.sampled_from(["import"] * 8 + ["import_direct"] * 3 + ["import_bad"] * 2 + ["clone"] * 6 + ["delete_graph"] * 3 +
                             ["delete_graph_imp"] * 3 + ["delete_all"] +
                             ["add_node"] * 6 + ["delete_node"] * 3 + ["add_link"] * 3 + ["upd_node"] * 5 +
                             ["unset_node", "upd_node_props", "upd_node_props"] + ["upd_nodes"] * 4 +
                             ["upd_link", "upd_link", "unset_link", "upd_link_props", "get_node", "list_ids"]))
    g = draw(_gid2)
    if k == "import":
        return [k, g, draw(st.integers(0, ndesc - 1)), draw(st.sampled_from(["graphml", "json"])),
                draw(st.sampled_from(["string", "string", "file", "string_none"])),
                draw(st.sampled_from(["int", "int", "str", "gap"])), draw(st.sampled_from([None, "other", "g1"]))]
    if k == "import_direct":
        return [k, g, draw(st.integers(0, ndesc - 1)), draw(st.sampled_from(["graphml", "json"])),
                draw(st.sampled_from(["string", "file"])), draw(st.sampled_from(["int", "str", "gap", "gap"]))]
    if k == "import_bad":
        return [k, g, draw(st.integers(0, ndesc - 1)), draw(st.sampled_from(["graphml", "json"])), draw(st.integers(0, 3))]
    if k == "clone":
        return [k, g, draw(st.sampled_from(["g1", "g2", "g2", "g3", "g0", "g10", "g"]))]
    if k in ("delete_graph", "delete_graph_imp"):
        return [k, g]
    if k == "delete_all":
        return [k]
    if k == "add_node":
        return [k, g, draw(_nid), draw(st.sampled_from(CLS)), draw(_props) or None]
    if k == "delete_node":
        return [k, g, draw(_nid)]
    a = draw(_nid)
    b = draw(st.sampled_from([x for x in IDS if x != a]))
    if k == "add_link":
        return [k, g, a, draw(st.sampled_from(RELS)), b, draw(_props) or None]
    if k == "upd_node":
        return [k, g, a, draw(_pn), draw(_v)]
    if k == "unset_node":
        return [k, g, a, draw(_pn)]
    if k == "upd_node_props":
        return [k, g, a, draw(st.dictionaries(_pn, _v, min_size=1, max_size=3))]
    if k == "upd_nodes":
        return [k, g, draw(_pn), draw(_v)]
    if k == "upd_link":
        return [k, g, a, b, draw(st.sampled_from(RELS)), draw(_pn), draw(_v)]
    if k == "unset_link":
        return [k, g, a, b, draw(st.sampled_from(RELS)), draw(_pn)]
    if k == "upd_link_props":
        return [k, g, a, b, draw(st.sampled_from(RELS)), draw(st.dictionaries(_pn, _v, min_size=1, max_size=2))]
    if k == "get_node":
        return [k, g, a]
    if k == "list_ids":
        return [k, g]
    raise AssertionError(k)


@st.composite
def _case(draw, maxlen):
    descs = draw(st.lists(_desc(), min_size=2, max_size=3))
    # structured prefix: two populated graphs, so that the generated suffix starts from an interesting state
    pre = [["import", "g0", 0, draw(st.sampled_from(["graphml", "json"])), "string", "int", None],
           ["import", "g1", 1, draw(st.sampled_from(["graphml", "json"])), "string", "int", None]]
    ops = draw(st.lists(_op(len(descs)), min_size=4, max_size=maxlen))
    # an import is often followed by growing that very graph (id allocation right after an import)
    out = []
    for op in ops:
        out.append(op)
        if op[0] in ("import", "import_direct", "clone") and draw(st.integers(0, 2)) == 0:
            g = op[2] if op[0] == "clone" else op[1]
            out.append(["add_node", g, draw(st.sampled_from(["e", "f"])), draw(st.sampled_from(CLS)), None])
            if draw(st.booleans()):
                out.append(["add_node", g, "h", "X", {"p": 1}])
    return {"fl": draw(st.sampled_from(["shared", "disjoint"])), "descs": descs, "ops": pre + out}


def strategy(tier):
    return _case(60 if tier == "thorough" else 25)


# ------------------------------------------------------------------ text production (harness side, plain networkx)
def make_text(desc, fmt, keys, carried_gid, drop_nodeid_at=None):
    import networkx as nx
    g = nx.Graph()
    # "int": 1..n (collides with stored internal ids); "gap": integers with holes, not starting at 1 (a file written
    # by the library after nodes were deleted); "str": strings
    key = (lambda i: i + 1) if keys == "int" else (lambda i: i + 2 + (i // 2)) if keys == "gap" else (lambda i: f"k{i}")
    for i, n in enumerate(desc["nodes"]):
        attrs = {"NodeID": n["id"], "Class": n["cls"]}
        if drop_nodeid_at is not None and i == min(drop_nodeid_at, len(desc["nodes"]) - 1):
            del attrs["NodeID"]
        attrs.update(n.get("props") or {})
        if carried_gid is not None:
            attrs["GraphID"] = carried_gid
        g.add_node(key(i), **attrs)
    for e in desc["edges"]:
        attrs = {"Class": e["rel"]}
        attrs.update(e.get("props") or {})
        g.add_edge(key(e["a"]), key(e["b"]), **attrs)
    if fmt == "graphml":
        return "\n".join(nx.generate_graphml(g))
    return json.dumps(nx.node_link_data(g))


def desc_content(desc):
    nodes = {}
    for n in desc["nodes"]:
        p = {"Class": n["cls"]}
        p.update(n.get("props") or {})
        nodes[n["id"]] = p
    edges = {}
    for e in desc["edges"]:
        p = {"Class": e["rel"]}
        p.update(e.get("props") or {})
        edges[(desc["nodes"][e["a"]]["id"], desc["nodes"][e["b"]]["id"])] = p
    return nodes, edges


class _Handles(dict):
    def __init__(self, imp):
        super().__init__()
        self.imp = imp

    def __missing__(self, gid):
        h = store.graph_handle(self.imp, gid)
        self[gid] = h
        return h


def _is_lock_error(e):
    return isinstance(e, RuntimeError) and "lock" in str(e).lower()


def run_case(case):
    store.reset_stores()
    fl = case["fl"]
    imp = store.make_importer(fl)
    H = _Handles(imp)
    M = RefStore()
    v = []
    labels = {fl}
    universe = set(GIDS)
    touched = set()
    deleted_once, cloned = set(), {}      # cloned: gid -> partner gid(s)
    nt_kinds = set()

    def model_nonempty(gid):
        return not M.empty(gid)

    for step, op in enumerate(case["ops"]):
        kind = op[0]
        labels.add("op-" + kind)

        def bad(clause, msg):
            v.append((f"C04/{fl}/{kind}/{clause}", f"step {step} op={op}: {msg} | ops={case['ops'][:step + 1]} "
                                                   f"descs={case['descs']}"))

        before = {g: M.canon(g) for g in universe}
        model_snap = copy.deepcopy(M.graphs)
        expect_alt = None          # alternative allowed content for the addressed graph (documented skip)
        target = None
        raised = None
        model_raises = False
        unspec = False
        try:
            if kind in ("import", "import_direct"):
                desc = case["descs"][op[2]]
                fmt, how, keys = op[3], op[4], op[5]
                target = op[1]
                carried = op[6] if kind == "import" else target
                text = make_text(desc, fmt, keys, carried)
                existing = model_nonempty(target) if how != "string_none" else False
                store_nonempty = any(model_nonempty(g) for g in universe)
                if how in ("file",):
                    fd, path = tempfile.mkstemp(prefix="c04-", suffix=".txt")
                    try:
                        with os.fdopen(fd, "w", encoding="utf-8") as f:
                            f.write(text)
                        if kind == "import":
                            h = imp.import_graph_from_file(graph_file=path, graph_id=target)
                        else:
                            h = imp.import_graph_from_file_direct(graph_file=path)
                    finally:
                        os.unlink(path)
                elif kind == "import":
                    h = imp.import_graph_from_string(graph_string=text,
                                                     graph_id=None if how == "string_none" else target)
                else:
                    h = imp.import_graph_from_string_direct(graph_string=text)
                if how == "string_none":
                    target = h.graph_id
                    universe.add(target)
                    before[target] = None
                elif h.graph_id != target:
                    bad("wrong-graph-id", f"import returned a handle for {h.graph_id!r}, expected {target!r}")
                if existing and fl == "disjoint" and kind == "import":
                    expect_alt = before[target]
                nodes, edges = desc_content(desc)
                M.put_graph(target, nodes, edges)
                if existing:
                    nt_kinds.add("reimport-existing")
                if target in deleted_once and not existing:
                    nt_kinds.add("delete-then-reimport")
                if keys == "int" and store_nonempty and step >= 2:
                    nt_kinds.add("collide-import")
                touched.add(target)
            elif kind == "import_bad":
                # a text in which one node (not necessarily the first) lacks its NodeID: the import must be refused
                desc = case["descs"][op[2]]
                target = op[1]
                text = make_text(desc, op[3], "int", None, drop_nodeid_at=op[4])
                skip = fl == "disjoint" and model_nonempty(target)      # documented skip: the text is not even read
                try:
                    imp.import_graph_from_string(graph_string=text, graph_id=target)
                    refused = False
                except Exception as e:
                    refused = True
                    if _is_lock_error(e):
                        bad("lock-error", f"{type(e).__name__}: {e}")
                if not refused and not skip:
                    bad("should-raise", "a graph with a node lacking NodeID was imported")
                if refused and fl == "shared":
                    M.delete_graph(target)      # the shared store deletes the graph of that id before it validates
                labels.add("failed-import")
                touched.add(target)
            elif kind == "clone":
                src, dst = op[1], op[2]
                target = dst
                r = M.clone_graph(src, dst) if src != dst else UNSPEC
                if r is UNSPEC:
                    unspec = True
                    try:
                        H[src].clone_graph(new_graph_id=dst)
                    except Exception as e:
                        if _is_lock_error(e):
                            bad("lock-error", f"{type(e).__name__}: {e}")
                    # content after an unspecified clone is not asserted; resynchronise the model from the store
                    break
                if before[dst] is not None and fl == "disjoint":
                    expect_alt = before[dst]
                c = H[src].clone_graph(new_graph_id=dst)
                if c.graph_id != dst:
                    bad("wrong-graph-id", f"clone returned a handle for {c.graph_id!r}")
                cloned.setdefault(src, set()).add(dst)
                cloned.setdefault(dst, set()).add(src)
                touched.update((src, dst))
            elif kind == "delete_graph":
                target = op[1]
                M.delete_graph(target)
                H[target].delete_graph()
                deleted_once.add(target)
                touched.add(target)
            elif kind == "delete_graph_imp":
                target = op[1]
                M.delete_graph(target)
                imp.delete_graph(graph_id=target)
                deleted_once.add(target)
                touched.add(target)
            elif kind == "delete_all":
                for g in list(universe):
                    if model_nonempty(g):
                        deleted_once.add(g)
                    M.delete_graph(g)
                imp.delete_all_graphs()
            else:
                target = op[1]
                try:
                    mres = c05._model(M, op)
                    if mres is UNSPEC:
                        unspec = True
                except ModelRaise:
                    model_raises = True
                try:
                    c05._real(H, op)
                except Exception as e:
                    raised = e
                if raised is not None and _is_lock_error(raised):
                    bad("lock-error", f"{type(raised).__name__}: {raised}")
                elif not unspec:
                    if model_raises and raised is None:
                        bad("should-raise", "call accepted although the interface says it must fail")
                    if not model_raises and raised is not None:
                        bad("should-not-raise", f"raised {type(raised).__name__}: {raised}")
                if unspec and kind in c05.MUTATORS:
                    break
                if raised is None and not model_raises and kind in c05.MUTATORS:
                    touched.add(target)
                    if target in cloned:
                        nt_kinds.add("clone-then-mutate")
        except Exception as e:
            if _is_lock_error(e):
                bad("lock-error", f"{type(e).__name__}: {e}")
            else:
                bad("raised", f"{type(e).__name__}: {e}")
            break

        # ---- clause 5: lock is free
        try:
            if imp.storage.lock.locked():
                bad("lock-held-after-call", "the store lock is still held after the call returned")
                break
        except AttributeError:
            pass
        # ---- clauses 1+2: every graph equals the model (frame for the others, target for the addressed one)
        for g in sorted(universe):
            rc = store.canon(imp, g)
            mc = M.canon(g)
            if rc == mc:
                continue
            if g == target and expect_alt is not None and rc == expect_alt:
                # documented skip on the per-graph store: keep the model in step with what happened
                M.graphs[g] = model_snap.get(g, {"nodes": {}, "edges": {}})
                labels.add("skip-observed")
                continue
            if g == target:
                sub = "target-lost" if rc is None else "target"
                bad(sub, f"addressed graph {g} differs from the model: {store.diff_canon(rc, mc)}")
            else:
                bad("frame", f"graph {g} (not addressed) changed: {store.diff_canon(rc, mc)}")
        # ---- clause 3: identities
        ids, idents = store.internal_ids(imp, fl)
        if len(set(idents)) != len(idents):
            bad("identity-duplicate", f"two stored nodes share one (GraphID, NodeID): {sorted(map(str, idents))}")
        exp_count = sum(len(M.g(g)["nodes"]) for g in universe)
        if len(ids) != exp_count and not v:
            bad("identity-count", f"store holds {len(ids)} nodes, model {exp_count}")
        if any(i[0] not in universe for i in idents):
            bad("orphan-node", f"a stored node belongs to no known graph: {sorted(map(str, idents))}")
        if v:
            break

    labels.update(nt_kinds)
    nt = len(touched) >= 2 and bool(nt_kinds)
    if nt:
        labels.add("nontrivial")
    return {"v": v, "nt": nt, "labels": sorted(labels)}
