"""
C12 - delegations and pools survive encoding and regrouping unchanged (DESIGN.md §C12).

Cases (plain JSON):
  {"kind": "set", "atype": "LABEL"|"CAPACITY", "dels": [{"id", "fmt": "single"|"def"|"ref", "pool", "details"}],
   "pick": int, "other": details-of-the-other-type}                                   clauses 1, 2
  {"kind": "pools", "atype", "pools": [{"id", "on": int, "for": [int], "did", "details"}], "order": [int],
   "via_json": bool, "singles": [{"node": int, "did", "details"}]}                    clause 3
  {"kind": "model", "shape": {...}, "mode": "single"|"annotate", "did": str,
   "pools": {"LABEL": [...], "CAPACITY": [...]} (pool nodes = element indices),
   "dels": {"LABEL": [{"el": int, "dels": [...]}], "CAPACITY": [...]}}                clause 4

Oracle: a dictionary model {delegation id: (format, pool name, details class, details dict)} per element, built
from the case alone; library objects are normalised into the same form through their public getters.
"""
import json

from hypothesis import strategies as st

ID = "C12"
RULE = ("Hypothesis-generated (a) delegation sets: 1..5 ids on one element, SinglePool/PoolDefinition/PoolReference, "
        "label details over 12 label fields (scalar and list values, JSON-hostile text) or capacity details over the 8 "
        "capacity fields, each set also driven through all rejection probes; (b) pool families: 1..4 pools over up to 8 "
        "nodes with 1..5 reference nodes, delegation ids drawn from a small set (shared ids on disjoint nodes, a node "
        "defining one pool and referencing another) resolved so that a node never carries one delegation id twice, plus "
        "deliberately conflicting families; regrouped in a generated node order, optionally through JSON and mixed with "
        "single delegations; (c) generated substrate models (1..3 servers with GPU/NVME/SmartNIC components, a switch "
        "with a service and ports, stitch flags) taken through single_delegation or annotate_delegations_and_pools and "
        "read back from the graph. Non-trivial: a set with >= 2 ids and >= 2 formats, or a family with >= 2 pools "
        "meeting on a node, or a model case with a pool and a single delegation. Distinct by hash of the case.")
ASSUMPTIONS = [
    "pool ids differ from the reserved single-pool name '_' (ABCPropertyGraphConstants.SINGLE_POOL_NAME)",
    "details are non-empty (>= 1 non-zero capacity field / >= 1 label field): the encoder asserts that",
    "the pool name of a SinglePool delegation is not content (the encoder does not write one); a stray one handed to "
    "the constructor is generated now and then and ignored in the comparison",
    "a pool has >= 1 reference node other than its defining node (validate_pool demands it)",
    "single_delegation copies from nodes, their components, component interfaces, node-level network services and "
    "their interfaces, skipping elements flagged stitch_node (as its code documents); links carry no capacities here",
    "'rejected' is checked as raised / not raised; the exception class is not compared",
]
BUDGET = {"quick": 25000, "thorough": 250000}
MIN_LABEL_FRACTION = {"set": 0.25, "set:3-formats": 0.05, "pools": 0.2, "pools:meet-on-node": 0.05,
                      "pools:shared-did": 0.03, "pools:single-listed-first": 0.02, "pools:conflict": 0.005, "model:single": 0.05,
                      "model:annotate": 0.05, "model:overlap-reject": 0.01, "model:with-pool": 0.04}

CAP_FIELDS = ['cpu', 'core', 'ram', 'disk', 'bw', 'burst_size', 'unit', 'mtu']
TYPES = ("LABEL", "CAPACITY")

# ------------------------------------------------------------------ strategies

_TXT = st.one_of(st.sampled_from(["p1", "eth0", "None", "_", "a b", 'q"uote', "back\\slash", "{}", "pool", "labels",
                                  "é中", "x" * 40, "0"]),
                 st.text(min_size=1, max_size=8))
_IDTXT = st.one_of(st.sampled_from(["primary", "secondary", "del1", "del2", "d-3", "site.am", "pool_id", "pool",
                                    "None", 'a"b', "ü1", "a b"]),
                   st.text(min_size=1, max_size=6))
_POOLTXT = st.one_of(st.sampled_from(["pool1", "pool2", "shared_pool", "datanic_pool", "__", "pool", "labels", "None",
                                      "p 1", 'p"1', "é"]),
                     st.text(min_size=1, max_size=6)).filter(lambda s: s != "_")
_HEX2 = st.text("0123456789abcdefABCDEF", min_size=2, max_size=2)
_OCT = st.integers(0, 255)


@st.composite
def _label_value(draw, field):
    if field == "bdf":
        return "%s:%s:%s.%s" % (draw(st.text("0123456789abcdef", min_size=1, max_size=4)), draw(_HEX2), draw(_HEX2),
                                draw(st.text("0123456789abcdef", min_size=1, max_size=1)))
    if field == "mac":
        return ":".join(draw(_HEX2) for _ in range(6))
    if field == "ipv4":
        return "%d.%d.%d.%d" % tuple(draw(_OCT) for _ in range(4))
    if field == "ipv4_range":
        return "%d.%d.%d.%d-%d.%d.%d.%d" % tuple(draw(_OCT) for _ in range(8))
    if field == "ipv4_subnet":
        return "%d.%d.%d.%d/%d" % (tuple(draw(_OCT) for _ in range(4)) + (draw(st.integers(0, 32)),))
    if field == "ipv6":
        return draw(st.sampled_from(["2001:0db8:85a3:0000:0000:8a2e:0370:7334", "::1", "fe80::1"]))
    if field == "vlan":
        return str(draw(st.integers(0, 4096)))
    if field == "vlan_range":
        a = draw(st.integers(0, 4096))
        return "%d-%d" % (a, draw(st.integers(a, 4096)))
    if field == "asn":
        return str(draw(st.integers(1, 2 ** 32 - 1)))
    if field == "numa":
        return str(draw(st.integers(-1, 7)))
    return draw(_TXT)       # local_name, device_name, instance_parent: free text


_LFIELDS = ["bdf", "mac", "ipv4", "ipv4_range", "ipv4_subnet", "ipv6", "vlan", "vlan_range", "asn", "numa",
            "local_name", "device_name", "instance_parent"]


@st.composite
def _ldetails(draw):
    d = {}
    for f in draw(st.lists(st.sampled_from(_LFIELDS), min_size=1, max_size=4, unique=True)):
        if draw(st.integers(0, 2)) == 0:
            d[f] = [draw(_label_value(f)) for _ in range(draw(st.integers(1, 3)))]
        else:
            d[f] = draw(_label_value(f))
    # free-text label fields may be set to the empty string (a value: the setters take any str) - alongside at least one
    # other field, because a details object with nothing in it is outside the domain (ASSUMPTIONS)
    if len(d) >= 2 and draw(st.integers(0, 5)) == 0:
        for f in ("local_name", "device_name", "instance_parent"):
            if f in d and not isinstance(d[f], list):
                d[f] = ""
                break
    return d


_CVAL = st.one_of(st.integers(1, 16), st.sampled_from([1, 100, 2 ** 31, 2 ** 62]), st.integers(0, 3))


@st.composite
def _cdetails(draw):
    d = {f: draw(_CVAL) for f in draw(st.lists(st.sampled_from(CAP_FIELDS), min_size=1, max_size=4, unique=True))}
    if all(x == 0 for x in d.values()):
        d[sorted(d)[0]] = draw(st.integers(1, 9))
    return d


def _details(atype):
    return _ldetails() if atype == "LABEL" else _cdetails()


@st.composite
def _del_list(draw, atype, ids=None, max_n=5):
    if ids is None:
        ids = draw(st.lists(_IDTXT, min_size=1, max_size=max_n, unique=True))
    out = []
    for i in ids:
        fmt = draw(st.sampled_from(["single", "def", "ref", "def", "ref"]))
        # (the constructor takes a pool id for every format: now and then a single-resource entry carries a stray one)
        stray = fmt == "single" and draw(st.integers(0, 3)) == 0
        out.append({"id": i, "fmt": fmt, "pool": None if (fmt == "single" and not stray) else draw(_POOLTXT),
                    "details": None if fmt == "ref" else draw(_details(atype))})
    return out


@st.composite
def _set_case(draw):
    atype = draw(st.sampled_from(TYPES))
    return {"kind": "set", "atype": atype, "dels": draw(_del_list(atype)), "pick": draw(st.integers(0, 7)),
            "other": draw(_details("CAPACITY" if atype == "LABEL" else "LABEL"))}


def _resolve_dids(pools, prefs, candidates):
    """assign delegation ids so that no node carries one id twice (first free candidate, else a fresh id)"""
    used = {}       # node -> set(did)
    for i, (p, pref) in enumerate(zip(pools, prefs)):
        nodes = [p["on"]] + p["for"]
        order = candidates[pref % len(candidates):] + candidates[:pref % len(candidates)]
        did = next((c for c in order if all(c not in used.get(n, ()) for n in nodes)), None)
        if did is None:
            did = "fresh-%d" % i
            while any(did in used.get(n, ()) for n in nodes) or did in candidates:
                did += "x"
        p["did"] = did
        for n in nodes:
            used.setdefault(n, set()).add(did)


@st.composite
def _pool_family(draw, atype, n_nodes, max_pools=4, allow_conflict=True):
    k = draw(st.integers(1, max_pools))
    pids = draw(st.lists(_POOLTXT, min_size=k, max_size=k, unique=True))
    pools = []
    for pid in pids:
        on = draw(st.integers(0, n_nodes - 1))
        fr = draw(st.lists(st.integers(0, n_nodes - 1).filter(lambda x: x != on), min_size=1,
                           max_size=min(5, n_nodes - 1), unique=True))
        pools.append({"id": pid, "on": on, "for": sorted(fr), "did": None, "details": draw(_details(atype))})
    cands = draw(st.lists(_IDTXT, min_size=1, max_size=3, unique=True))
    prefs = [draw(st.integers(0, 2)) for _ in pools]
    if allow_conflict and draw(st.integers(0, 19)) == 0:
        for p, pref in zip(pools, prefs):       # unresolved: may put one id twice on a node
            p["did"] = cands[pref % len(cands)]
    else:
        _resolve_dids(pools, prefs, cands)
    return pools


@st.composite
def _pools_case(draw):
    atype = draw(st.sampled_from(TYPES))
    n = draw(st.integers(2, 8))
    pools = draw(_pool_family(atype, n))
    order = draw(st.permutations(list(range(n))))
    singles = []
    for _ in range(draw(st.integers(0, 2))):
        singles.append({"node": draw(st.integers(0, n + 1)), "did": draw(_IDTXT), "details": draw(_details(atype)),
                        "first": draw(st.booleans())})
    edits = []
    if draw(st.integers(0, 2)) == 0:
        # a second round on the same registry: pools re-keyed / given other details through their setters, pools
        # re-indexed, per-node delegations generated again
        for _ in range(draw(st.integers(1, 2))):
            if draw(st.booleans()):
                edits.append({"k": draw(st.integers(0, 3)), "did": draw(st.one_of(
                    st.sampled_from(sorted({p["did"] for p in pools})), _IDTXT))})
            elif draw(st.booleans()):
                edits.append({"k": draw(st.integers(0, 3)), "details": draw(_details(atype))})
            else:
                # pool j is given pool k's reference-node set (as returned by its getter), then pool k gets one more
                # reference node: the two pools must not share the set
                edits.append({"k": draw(st.integers(0, 3)), "j": draw(st.integers(0, 3)), "node": draw(st.integers(0, n + 1))})
    return {"kind": "pools", "atype": atype, "pools": pools, "order": list(order),
            "via_json": draw(st.booleans()), "singles": singles, "edits": edits}


@st.composite
def _shape(draw):
    servers = []
    for _ in range(draw(st.integers(1, 3))):
        comps = []
        for _ in range(draw(st.integers(0, 2))):
            kind = draw(st.sampled_from(["GPU", "NVME", "NIC"]))
            comps.append({"kind": kind,
                          "caps": draw(st.one_of(st.none(), _cdetails())),
                          "labels": draw(st.one_of(st.none(), _ldetails())) if kind != "NIC" else
                          draw(st.one_of(st.none(), st.just({"bdf": ["0000:41:00.0", "0000:41:00.1"]}))),
                          "stitch": draw(st.integers(0, 9)) == 0})
        servers.append({"caps": draw(st.one_of(st.none(), _cdetails())),
                        "labels": draw(st.one_of(st.none(), _ldetails())),
                        "stitch": draw(st.integers(0, 9)) == 0, "comps": comps})
    ports = []
    for _ in range(draw(st.integers(0, 4))):
        ports.append({"caps": draw(st.one_of(st.none(), st.none(), _cdetails())),
                      "labels": draw(st.one_of(st.none(), st.none(), _ldetails())),
                      "stitch": draw(st.integers(0, 3)) == 0})
    return {"servers": servers,
            "switch": {"stitch": draw(st.booleans()), "ns_stitch": draw(st.booleans()),
                       "ns_caps": draw(st.one_of(st.none(), st.none(), _cdetails())),
                       "ns_labels": draw(st.one_of(st.none(), st.none(), _ldetails())), "ports": ports}}


def _elements(shape):
    """ordered element table of a substrate shape: (node id, has_caps, has_labels, stitch, visited-by-single)"""
    els = []
    for i, s in enumerate(shape["servers"]):
        sid = "S%d" % i
        els.append([sid, s["caps"] is not None, s["labels"] is not None, s["stitch"], True])
        for j, c in enumerate(s["comps"]):
            cid = "%s-c%d" % (sid, j)
            els.append([cid, c["caps"] is not None, c["labels"] is not None, c["stitch"], True])
            if c["kind"] == "NIC":
                els.append([cid + "-sf", False, False, False, False])
                els.append([cid + "-p1", True, True, False, True])
                els.append([cid + "-p2", True, True, False, True])
    sw = shape["switch"]
    els.append(["SW", False, False, sw["stitch"], True])
    els.append(["SW-ns", sw["ns_caps"] is not None, sw["ns_labels"] is not None, sw["ns_stitch"], True])
    for k, p in enumerate(sw["ports"]):
        els.append(["SW-p%d" % k, p["caps"] is not None, p["labels"] is not None, p["stitch"], True])
    return els


@st.composite
def _model_case(draw):
    shape = draw(_shape())
    els = _elements(shape)
    n = len(els)
    mode = draw(st.sampled_from(["single", "annotate"]))
    did = draw(_IDTXT)
    pools, dels = {}, {}
    for t in TYPES:
        steer = draw(st.integers(0, 4)) > 0      # mostly keep pools away from elements that get a single delegation
        pools[t] = []
        if n >= 2 and draw(st.integers(0, 2)) > 0:
            fam = draw(_pool_family(t, n, max_pools=2, allow_conflict=False))
            if steer and mode == "single":
                free = [i for i, e in enumerate(els) if not (e[4] and not e[3] and e[1 if t == "CAPACITY" else 2])]
                if len(free) >= 2:
                    for p in fam:
                        p["on"] = free[p["on"] % len(free)]
                        p["for"] = sorted({free[x % len(free)] for x in p["for"]} - {p["on"]})
                    fam = [p for p in fam if p["for"]]
                    _resolve_dids(fam, [0] * len(fam), [did, did + "2"])
            pools[t] = fam
        dels[t] = []
        if mode == "annotate":
            taken = {x for p in pools[t] for x in [p["on"]] + p["for"]} if steer else set()
            for el in draw(st.lists(st.integers(0, n - 1), max_size=4, unique=True)):
                if el in taken:
                    continue
                dels[t].append({"el": el, "dels": draw(_del_list(t, max_n=3))})
    return {"kind": "model", "shape": shape, "mode": mode, "did": did, "pools": pools, "dels": dels}


def strategy(tier):
    return st.one_of(_set_case(), _set_case(), _pools_case(), _pools_case(), _model_case())


# ------------------------------------------------------------------ model <-> library helpers

def _mk_details(atype, d):
    from fim.slivers.capacities_labels import Capacities, Labels
    if atype == "LABEL":
        return Labels(**{k: (list(x) if isinstance(x, list) else x) for k, x in d.items()})
    return Capacities(**d)


def _norm_details(obj):
    """library details object -> (class name, dict of set fields)"""
    from fim.slivers.capacities_labels import Capacities, Labels
    if obj is None:
        return None
    if isinstance(obj, Capacities):
        return ("Capacities", {f: x for f, x in obj.__dict__.items() if x not in (None, 0)})
    if isinstance(obj, Labels):
        return ("Labels", {f: x for f, x in obj.__dict__.items() if x is not None})
    return (type(obj).__name__, repr(obj))


def _exp_details(atype, d):
    if d is None:
        return None
    if atype == "CAPACITY":
        return ("Capacities", {f: x for f, x in d.items() if x != 0})
    return ("Labels", dict(d))


_FMT = {"single": "SinglePool", "def": "PoolDefinition", "ref": "PoolReference"}


def _exp_entry(atype, e):
    return (_FMT[e["fmt"]], None if e["fmt"] == "single" else e["pool"], _exp_details(atype, e["details"]))


def _norm_delegations(ds):
    """Delegations object -> {id: (format name, pool name, details)} or None"""
    if ds is None:
        return None
    out = {}
    for d in ds.get_delegations_as_list():
        # (a single-resource delegation has no pool: whatever stray pool name it was constructed with is not content)
        out[d.get_delegation_id()] = (d.get_format().name,
                                      None if d.get_format().name == "SinglePool" else d.get_pool_name(),
                                      _norm_details(d.get_details()))
    if set(out) != set(ds.get_delegation_ids()) or len(out) != len(ds.get_delegations_as_list()):
        out["<ids-disagree>"] = (sorted(map(str, ds.get_delegation_ids())),)
    for i in list(out):
        if i != "<ids-disagree>" and ds.get_by_delegation_id(i) is None:
            out["<lookup-fails>"] = (i,)
    return out


def _mk_delegation(atype, e, with_details=True):
    from fim.slivers.delegations import Delegation, DelegationType, DelegationFormat
    d = Delegation(atype=DelegationType[atype], delegation_id=e["id"], aformat=DelegationFormat[_FMT[e["fmt"]]],
                   pool_id=e["pool"])
    if with_details and e["details"] is not None:
        d.set_details(_mk_details(atype, e["details"]))
    return d


def _mk_delegations(atype, dels):
    from fim.slivers.delegations import Delegations, DelegationType
    ds = Delegations(atype=DelegationType[atype])
    for e in dels:
        ds.add_delegations(_mk_delegation(atype, e))
    return ds


def _mk_pools(atype, pools, node_name):
    from fim.slivers.delegations import Pool, Pools, DelegationType
    ps = Pools(atype=DelegationType[atype])
    for p in pools:
        po = Pool(atype=DelegationType[atype], pool_id=p["id"], delegation_id=p["did"],
                  defined_on=node_name(p["on"]), defined_for=[node_name(x) for x in p["for"]])
        po.set_pool_details(_mk_details(atype, p["details"]))
        ps.add_pool(pool=po)
    return ps


def _norm_pools(ps):
    out = {}
    for pid, p in ps.pool_by_id.items():
        out[pid] = (p.get_pool_id(), p.get_pool_type().name, p.get_defined_on(), frozenset(p.get_defined_for()),
                    p.get_delegation_id(), _norm_details(p.get_pool_details()))
    return out


def _exp_pools(atype, pools, node_name):
    return {p["id"]: (p["id"], atype, node_name(p["on"]), frozenset(node_name(x) for x in p["for"]), p["did"],
                      _exp_details(atype, p["details"])) for p in pools}


def _exp_by_node(atype, pools, node_name):
    """model of generate_delegations_by_node_id(): node -> {did: entry}; None if a node gets one id twice"""
    out = {}
    for p in pools:
        entries = [(node_name(p["on"]), ("PoolDefinition", p["id"], _exp_details(atype, p["details"])))]
        entries += [(node_name(x), ("PoolReference", p["id"], None)) for x in p["for"]]
        for node, ent in entries:
            slot = out.setdefault(node, {})
            if p["did"] in slot:
                return None
            slot[p["did"]] = ent
    return out


# ------------------------------------------------------------------ clause 1 + 2

def _run_set(case):
    from fim.slivers.delegations import Delegation, Delegations, DelegationType, DelegationFormat
    atype = case["atype"]
    other = "CAPACITY" if atype == "LABEL" else "LABEL"
    dels = case["dels"]
    v = []
    ctx = f"case={json.dumps(case, sort_keys=True)}"
    exp = {e["id"]: _exp_entry(atype, e) for e in dels}

    def bad(sig, msg):
        v.append((f"C12/{sig}", f"{msg}; {ctx}"))

    ds = _mk_delegations(atype, dels)
    if _norm_delegations(ds) != exp:
        bad("Delegations/add/content", f"container holds {_norm_delegations(ds)}")
    # ---- clause 1: round trip and text fixpoint
    try:
        text = ds.to_json()
        back = Delegations.from_json(json_str=text, atype=DelegationType[atype])
        text2 = back.to_json() if back is not None else None
    except Exception as e:
        bad("Delegations/roundtrip/raised", f"{type(e).__name__}: {e}")
        text = back = text2 = None
    if text is not None:
        got = _norm_delegations(back)
        if got != exp:
            diff = sorted(k for k in set(exp) | set(got or {}) if (got or {}).get(k) != exp.get(k))
            what = "content"
            if got is not None and set(got) == set(exp):
                k = diff[0]
                what = "format" if got[k][0] != exp[k][0] else "pool-name" if got[k][1] != exp[k][1] else "details"
            bad(f"Delegations/roundtrip/{what}", f"text {text!r} decodes to {got}, expected {exp}")
        if back is not None and back.type != DelegationType[atype]:
            bad("Delegations/roundtrip/type", f"decoded container type {back.type}")
        if text2 != text:
            bad("Delegations/roundtrip/text-fixpoint", f"{text!r} re-encodes as {text2!r}")
        parsed = json.loads(text)
        if not isinstance(parsed, dict) or set(parsed) != set(exp):
            bad("Delegations/to_json/keys", f"text {text!r} is not an object keyed by the delegation ids")
        if _norm_delegations(ds) != exp:
            bad("Delegations/to_json/mutates", f"container after encoding: {_norm_delegations(ds)}")

    # ---- clause 2: rejections; each must raise and leave things unchanged
    def must_raise(sig, fn, unchanged=None):
        try:
            fn()
        except Exception:
            pass
        else:
            bad(f"{sig}/accepted", "no exception")
        if unchanged is not None and unchanged() is not True:
            bad(f"{sig}/changed", f"container after the rejected call: {_norm_delegations(ds)}")

    def same():
        return _norm_delegations(ds) == exp

    pick = dels[case["pick"] % len(dels)]
    target = ds.get_by_delegation_id(pick["id"])
    wrong = _mk_details(other, case["other"])
    if pick["fmt"] != "ref":
        # 2a. Labels on a CAPACITY delegation and vice versa
        must_raise("Delegation.set_details/wrong-type/" + atype, lambda: target.set_details(wrong), same)
    else:
        # 2e. details on a PoolReference (right and wrong type)
        some = next((e["details"] for e in dels if e["details"] is not None), None)
        if some is not None:
            must_raise("Delegation.set_details/on-reference", lambda: target.set_details(_mk_details(atype, some)),
                       same)
        must_raise("Delegation.set_details/on-reference", lambda: target.set_details(wrong), same)
    fresh = Delegation(atype=DelegationType[atype], delegation_id="fresh-id", aformat=DelegationFormat.SinglePool)
    must_raise("Delegation.set_details/wrong-type/" + atype, lambda: fresh.set_details(wrong),
               lambda: fresh.get_details() is None)
    # 2b. a delegation of the other type added to this container
    od = Delegation(atype=DelegationType[other], delegation_id="other-type-id", aformat=DelegationFormat.SinglePool)
    od.set_details(_mk_details(other, case["other"]))
    must_raise("Delegations.add_delegations/other-type", lambda: ds.add_delegations(od), same)
    # 2d. duplicate delegation id (alone, and as the second argument of one call)
    dup_src = dict(pick)
    if dup_src["fmt"] == "ref":
        dup_src.update(fmt="def", details=next((e["details"] for e in dels if e["details"]), None) or
                       ({"unit": 1} if atype == "CAPACITY" else {"local_name": "zz"}))
    else:
        dup_src.update(fmt="ref", pool=dup_src["pool"] or "pool-x", details=None)
    must_raise("Delegations.add_delegations/duplicate-id", lambda: ds.add_delegations(_mk_delegation(atype, dup_src)),
               same)
    ds_b = _mk_delegations(atype, dels)
    newd = {"id": "brand-new-id", "fmt": "ref", "pool": "pool-y", "details": None}
    if newd["id"] not in exp:
        must_raise("Delegations.add_delegations/duplicate-id",
                   lambda: ds_b.add_delegations(_mk_delegation(atype, newd), _mk_delegation(atype, dup_src)),
                   lambda: all(_norm_delegations(ds_b).get(k) == x for k, x in exp.items()))
    # 2d'. two NEW delegations with one id in a single call: duplicate ids are always rejected
    ds_c = _mk_delegations(atype, dels)
    tw1 = {"id": "twice-in-one-call", "fmt": "def", "pool": "pool-z",
           "details": next((e["details"] for e in dels if e["details"]), None) or
           ({"unit": 1} if atype == "CAPACITY" else {"local_name": "zz"})}
    tw2 = {"id": "twice-in-one-call", "fmt": "ref", "pool": "pool-w", "details": None}
    if "twice-in-one-call" not in exp:
        must_raise("Delegations.add_delegations/duplicate-id-within-call",
                   lambda: ds_c.add_delegations(_mk_delegation(atype, tw1), _mk_delegation(atype, tw2)),
                   lambda: all(_norm_delegations(ds_c).get(k) == x for k, x in exp.items()))
    # 2f. a non-single format without pool id
    for fmt in (DelegationFormat.PoolDefinition, DelegationFormat.PoolReference):
        must_raise("Delegation/no-pool-id", lambda: Delegation(atype=DelegationType[atype], delegation_id="x1",
                                                               aformat=fmt, pool_id=None))
    # 2c. decoding the text as the other type (only if some entry carries details)
    if text is not None and any(e["details"] is not None for e in dels):
        must_raise("Delegations.from_json/other-type/" + atype,
                   lambda: Delegations.from_json(json_str=text, atype=DelegationType[other]))
    # 2g. an entry that is neither a definition nor a reference
    if text is not None:
        broken = json.loads(text)
        broken[pick["id"]] = {}
        must_raise("Delegations.from_json/invalid-entry",
                   lambda: Delegations.from_json(json_str=json.dumps(broken), atype=DelegationType[atype]))
    # absence convention of the decoder
    for absent in (None, "", "None"):
        if Delegations.from_json(json_str=absent, atype=DelegationType[atype]) is not None:
            bad("Delegations.from_json/absent", f"{absent!r} does not decode to None")
    # return_delegations_for_id: restriction to one id keeps the entry
    one = ds.return_delegations_for_id(pick["id"])
    if _norm_delegations(one) != {pick["id"]: exp[pick["id"]]}:
        bad("Delegations.return_delegations_for_id/content", f"{_norm_delegations(one)}")

    fmts = {e["fmt"] for e in dels}
    labels = ["set", "set:" + atype]
    if len(fmts) == 3:
        labels.append("set:3-formats")
    if any(isinstance(x, list) for e in dels if e["details"] for x in e["details"].values()):
        labels.append("set:list-values")
    return {"v": v, "nt": len(dels) >= 2 and len(fmts) >= 2, "labels": labels}


# ------------------------------------------------------------------ clause 3

def _pool_labels(pools):
    labels = []
    by_node = {}
    for p in pools:
        by_node.setdefault(p["on"], []).append(("def", p["id"]))
        for x in p["for"]:
            by_node.setdefault(x, []).append(("ref", p["id"]))
    meet = any(len(e) >= 2 for e in by_node.values())
    if meet:
        labels.append("pools:meet-on-node")
    if any({k for k, _ in e} == {"def", "ref"} for e in by_node.values()):
        labels.append("pools:node-defines-and-references")
    dids = [p["did"] for p in pools]
    if len(set(dids)) < len(dids):
        labels.append("pools:shared-did")
    return labels, meet


def _run_pools(case):
    from fim.slivers.delegations import Delegation, Delegations, DelegationType, DelegationFormat, Pools
    atype, pools = case["atype"], case["pools"]
    v = []
    ctx = f"case={json.dumps(case, sort_keys=True)}"

    def name(i):
        return "node-%d" % i

    def bad(sig, msg):
        v.append((f"C12/{sig}", f"{msg}; {ctx}"))

    labels, meet = _pool_labels(pools)
    labels = ["pools", "pools:" + atype] + labels
    nt = len(pools) >= 2 and meet
    exp_pools = _exp_pools(atype, pools, name)
    exp_nodes = _exp_by_node(atype, pools, name)

    ps = _mk_pools(atype, pools, name)
    if _norm_pools(ps) != exp_pools:
        bad("Pools/add_pool/content", f"registry holds {_norm_pools(ps)}")
    try:
        ps.build_index_by_delegation_id()
        ps.validate_pools()
    except Exception as e:
        bad("Pools.build_index_by_delegation_id/raised", f"{type(e).__name__}: {e}")
        return {"v": v, "nt": nt, "labels": labels}
    # index agrees with the registry
    dids = sorted({p["did"] for p in pools})
    if sorted(ps.get_delegation_ids()) != dids:
        bad("Pools/index/delegation-ids", f"{sorted(ps.get_delegation_ids())} expected {dids}")
    for d in dids:
        gotp = sorted(p.get_pool_id() for p in (ps.get_pools_by_delegation_id(d) or []))
        if gotp != sorted(p["id"] for p in pools if p["did"] == d):
            bad("Pools/index/pools-by-delegation", f"{d!r}: {gotp}")
        want_nodes = {name(x) for p in pools if p["did"] == d for x in p["for"]}
        if set(ps.get_node_ids(d)) != want_nodes:
            bad("Pools/index/node-ids", f"{d!r}: {sorted(ps.get_node_ids(d))} expected {sorted(want_nodes)}")

    try:
        by_node = ps.generate_delegations_by_node_id()
    except Exception as e:
        if exp_nodes is None:       # one delegation id twice on a node: rejected (duplicate ids are always rejected)
            labels.append("pools:conflict")
            return {"v": v, "nt": nt, "labels": labels}
        bad("Pools.generate_delegations_by_node_id/raised", f"{type(e).__name__}: {e}")
        return {"v": v, "nt": nt, "labels": labels}
    if exp_nodes is None:
        labels.append("pools:conflict")
        bad("Pools.generate_delegations_by_node_id/duplicate-id-accepted",
            f"a node carries one delegation id twice, yet {({n: _norm_delegations(d) for n, d in by_node.items()})}")
        return {"v": v, "nt": nt, "labels": labels}
    # ---- clause 3b: the intermediate has exactly one definition per pool on its defining node and one reference
    #      on each defined_for node
    got_nodes = {n: _norm_delegations(d) for n, d in by_node.items()}
    if got_nodes != exp_nodes:
        what = "node-set" if set(got_nodes) != set(exp_nodes) else "entries"
        bad(f"Pools.generate_delegations_by_node_id/{what}", f"{got_nodes} expected {exp_nodes}")
    for n, d in by_node.items():
        if d.type != DelegationType[atype]:
            bad("Pools.generate_delegations_by_node_id/type", f"{n}: {d.type}")
    if _norm_pools(ps) != exp_pools:
        bad("Pools.generate_delegations_by_node_id/mutates", f"registry afterwards {_norm_pools(ps)}")

    # ---- a second round on the same registry after its pools were edited through their public setters: indexing
    #      and generation must describe the pools as they are NOW (same delegation id and details as the pool carries)
    if case.get("edits"):
        labels.append("pools:second-round-after-edit")
        pools2 = json.loads(json.dumps(pools))
        for e in case["edits"]:
            k = e["k"] % len(pools2)
            po = ps.get_pool_by_id(pool_id=pools2[k]["id"], strict=True)
            if "did" in e:
                pools2[k]["did"] = e["did"]
                po.set_delegation_id(delegation_id=e["did"])
            elif "details" in e:
                pools2[k]["details"] = e["details"]
                po.set_pool_details(_mk_details(atype, e["details"]))
            else:
                j = e["j"] % len(pools2)
                if j != k and pools2[j]["on"] not in pools2[k]["for"]:
                    pj = ps.get_pool_by_id(pool_id=pools2[j]["id"], strict=True)
                    pj.set_defined_for(po.get_defined_for())
                    pools2[j]["for"] = list(pools2[k]["for"])
                if e["node"] != pools2[k]["on"] and e["node"] not in pools2[k]["for"]:
                    po.add_defined_for(name(e["node"]))
                    pools2[k]["for"] = list(pools2[k]["for"]) + [e["node"]]
        exp2 = _exp_by_node(atype, pools2, name)
        try:
            ps.build_index_by_delegation_id()
            by2 = ps.generate_delegations_by_node_id()
        except Exception as e:
            if exp2 is not None:
                bad("Pools/second-round/raised", f"{type(e).__name__}: {e}")
        else:
            if exp2 is None:
                bad("Pools/second-round/duplicate-id-accepted", "a node carries one delegation id twice after the edit")
            else:
                got2 = {n: _norm_delegations(d) for n, d in by2.items()}
                if got2 != exp2:
                    bad("Pools/second-round/stale", f"after edits {case['edits']}: {got2} expected {exp2}")
                if sorted(ps.get_delegation_ids()) != sorted({p["did"] for p in pools2}):
                    bad("Pools/second-round/index/delegation-ids", f"{sorted(ps.get_delegation_ids())}")

    # ---- clause 3a: regroup (optionally through JSON, in the generated node order, with single delegations mixed in)
    per_node = {}
    try:
        for n, d in by_node.items():
            per_node[n] = Delegations.from_json(json_str=d.to_json(), atype=DelegationType[atype]) \
                if case["via_json"] else d
    except Exception as e:
        bad("Delegations/roundtrip/raised", f"{type(e).__name__}: {e}")
        return {"v": v, "nt": nt, "labels": labels}
    for s in case["singles"]:
        n = name(s["node"])
        ds = per_node.get(n)
        if ds is None:
            ds = per_node[n] = Delegations(atype=DelegationType[atype])
        if s["did"] in ds.get_delegation_ids():
            continue
        sd = Delegation(atype=DelegationType[atype], delegation_id=s["did"], aformat=DelegationFormat.SinglePool)
        sd.set_details(_mk_details(atype, s["details"]))
        if s.get("first") and ds.get_delegation_ids():
            # the single-resource entry listed BEFORE the pool entries of the node (dict / JSON order)
            reordered = Delegations(atype=DelegationType[atype])
            reordered.add_delegations(sd)
            for d in list(ds.delegations.values()):
                reordered.add_delegations(d)
            ds = per_node[n] = reordered
            labels.append("pools:single-listed-first") if "pools:single-listed-first" not in labels else None
        else:
            ds.add_delegations(sd)
        labels.append("pools:with-singles") if "pools:with-singles" not in labels else None
    seq = [name(i) for i in case["order"]] + sorted(per_node)
    ps2 = Pools(atype=DelegationType[atype])
    done = set()
    try:
        for n in seq:
            if n in per_node and n not in done:
                done.add(n)
                ps2.incorporate_delegation(node_id=n, deleg=per_node[n])
        got2 = _norm_pools(ps2)
        ps2.build_index_by_delegation_id()
        ps2.validate_pools()
    except Exception as e:
        bad("Pools.incorporate_delegation/raised", f"{type(e).__name__}: {e}")
        return {"v": v, "nt": nt, "labels": labels}
    if got2 != exp_pools:
        what = "pool-set"
        if set(got2) == set(exp_pools):
            k = sorted(k for k in exp_pools if got2[k] != exp_pools[k])[0]
            what = ["pool-id", "type", "defined-on", "defined-for", "delegation-id", "details"][
                [i for i in range(6) if got2[k][i] != exp_pools[k][i]][0]]
        bad(f"Pools.incorporate_delegation/{what}", f"regrouped {got2} expected {exp_pools}")
    elif {n: _norm_delegations(d) for n, d in ps2.generate_delegations_by_node_id().items()} != exp_nodes:
        bad("Pools/regroup/not-idempotent", "regrouped pools generate different per-node delegations")
    # wrong-type delegations are not incorporated
    try:
        other = "CAPACITY" if atype == "LABEL" else "LABEL"
        ps2.incorporate_delegation(node_id="node-0", deleg=Delegations(atype=DelegationType[other]))
        bad("Pools.incorporate_delegation/other-type/accepted", "no exception")
    except Exception:
        pass
    if case["via_json"]:
        labels.append("pools:via-json")
    return {"v": v, "nt": nt, "labels": labels}


# ------------------------------------------------------------------ clause 4

def _build_substrate(shape):
    import fim.user as f
    topo = f.SubstrateTopology()

    def kw(caps, labels, stitch):
        k = {}
        if caps is not None:
            k["capacities"] = _mk_details("CAPACITY", caps)
        if labels is not None:
            k["labels"] = _mk_details("LABEL", labels)
        if stitch:
            k["stitch_node"] = True
        return k

    for i, s in enumerate(shape["servers"]):
        sid = "S%d" % i
        node = topo.add_node(name="w%d" % i, node_id=sid, site="SITE", ntype=f.NodeType.Server,
                             **kw(s["caps"], s["labels"], s["stitch"]))
        for j, c in enumerate(s["comps"]):
            cid = "%s-c%d" % (sid, j)
            if c["kind"] == "NIC":
                node.add_component(name="w%d-c%d" % (i, j), node_id=cid, ctype=f.ComponentType.SmartNIC,
                                   model="ConnectX-6", network_service_node_id=cid + "-sf",
                                   interface_node_ids=[cid + "-p1", cid + "-p2"],
                                   interface_labels=[f.Labels(mac="04:3F:72:B7:15:74", vlan_range="1-4096"),
                                                     f.Labels(mac="04:3F:72:B7:15:75", vlan_range="1-4096")],
                                   **kw(c["caps"], c["labels"], c["stitch"]))
            else:
                node.add_component(name="w%d-c%d" % (i, j), node_id=cid,
                                   ctype=f.ComponentType.GPU if c["kind"] == "GPU" else f.ComponentType.NVME,
                                   model="RTX6000" if c["kind"] == "GPU" else "P4510",
                                   **kw(c["caps"], c["labels"], c["stitch"]))
    sw = shape["switch"]
    swn = topo.add_node(name="dp-sw", node_id="SW", site="SITE", ntype=f.NodeType.Switch, **kw(None, None, sw["stitch"]))
    ns = swn.add_network_service(name="dp-sw-ns", node_id="SW-ns", nstype=f.ServiceType.MPLS,
                                 **kw(sw["ns_caps"], sw["ns_labels"], sw["ns_stitch"]))
    for k, p in enumerate(sw["ports"]):
        ns.add_interface(name="port%d" % k, node_id="SW-p%d" % k, itype=f.InterfaceType.TrunkPort,
                         **kw(p["caps"], p["labels"], p["stitch"]))
    return topo


def _run_model(case):
    import fim.user as f
    from fim.graph.networkx_property_graph import NetworkXGraphStorage
    from fim.slivers.delegations import DelegationType, Pools
    NetworkXGraphStorage.storage_instance = None
    try:
        from fim.graph.networkx_property_graph_disjoint import NetworkXGraphStorageDisjoint
        NetworkXGraphStorageDisjoint.storage_instance = None
    except ImportError:
        pass
    v = []
    ctx = f"case={json.dumps(case, sort_keys=True)}"
    shape, mode = case["shape"], case["mode"]
    els = _elements(shape)
    ids = [e[0] for e in els]

    def name(i):
        return ids[i % len(ids)]

    def bad(sig, msg):
        v.append((f"C12/{sig}", f"{msg}; {ctx}"))

    topo = _build_substrate(shape)
    arm = topo.as_arm()
    all_ids = sorted(arm.list_all_node_ids())
    if sorted(ids) != all_ids:
        raise RuntimeError(f"harness: element table {sorted(ids)} differs from the graph {all_ids}")
    # what each element carries before the call (the values single_delegation is to copy)
    from fim.slivers.capacities_labels import Capacities, Labels
    from fim.graph.abc_property_graph import ABCPropertyGraph

    def carried_now(eid):
        _, props = topo.graph_model.get_node_properties(node_id=eid)
        return {"CAPACITY": _norm_details(Capacities.from_json(props.get(ABCPropertyGraph.PROP_CAPACITIES))),
                "LABEL": _norm_details(Labels.from_json(props.get(ABCPropertyGraph.PROP_LABELS)))}

    carried = {e[0]: carried_now(e[0]) for e in els}
    labels = ["model", "model:" + mode]
    expect = {}     # type -> node -> {did: entry} ; absent node -> None
    reject = False
    pools_obj = {}
    for t in TYPES:
        fam = [dict(p, on=p["on"] % len(ids), **{"for": sorted({x % len(ids) for x in p["for"]} - {p["on"] % len(ids)})})
               for p in case["pools"][t]]
        fam = [p for p in fam if p["for"]]
        exp_nodes = _exp_by_node(t, fam, name)
        if exp_nodes is None:       # (not generated; keep replayed cases meaningful)
            fam, exp_nodes = [], {}
        pools_obj[t] = _mk_pools(t, fam, name)
        pools_obj[t].build_index_by_delegation_id()
        exp = dict(exp_nodes)
        if fam:
            labels.append("model:with-pool") if "model:with-pool" not in labels else None
        singles = {}
        if mode == "single":
            for e in els:
                det = carried[e[0]][t]
                if e[4] and not e[3] and det is not None:
                    singles[e[0]] = {case["did"]: ("SinglePool", None, det)}
        else:
            for item in case["dels"][t]:
                n = name(item["el"])
                if n not in singles:
                    singles[n] = {x["id"]: _exp_entry(t, x) for x in item["dels"]}
        if set(singles) & set(exp):
            reject = True
        exp.update(singles)
        expect[t] = exp
        if singles and fam:
            labels.append("model:pool+single") if "model:pool+single" not in labels else None
    nt = "model:pool+single" in labels

    # harness cross-check of the element table against what the library stored (user-supplied values only)
    for i, s in enumerate(shape["servers"]):
        if carried["S%d" % i]["CAPACITY"] != _exp_details("CAPACITY", s["caps"]) and not \
                (s["caps"] is not None and all(x == 0 for x in s["caps"].values())):
            raise RuntimeError("harness: server capacities were not stored as given")

    raised = None
    try:
        if mode == "single":
            topo.single_delegation(delegation_id=case["did"], label_pools=pools_obj["LABEL"],
                                   capacity_pools=pools_obj["CAPACITY"])
        else:
            for t in TYPES:
                dd = {}
                for item in case["dels"][t]:
                    n = name(item["el"])
                    if n not in dd:
                        dd[n] = _mk_delegations(t, item["dels"])
                arm.annotate_delegations_and_pools(dels=dd, pools=pools_obj[t])
    except Exception as e:
        raised = e
    if reject:
        labels.append("model:overlap-reject")
        if raised is None:
            # clause 4b: a node that would get both a single delegation and a pool entry is rejected
            bad(f"{mode}/overlap-accepted", "a node got a single delegation and a pool entry, no exception")
        return {"v": v, "nt": nt, "labels": labels}
    if raised is not None:
        bad(f"{mode}/raised", f"{type(raised).__name__}: {raised}")
        return {"v": v, "nt": nt, "labels": labels}
    # ---- clause 4a: read the properties back
    for t in TYPES:
        for eid in ids:
            try:
                got = _norm_delegations(arm.get_delegations(node_id=eid, delegation_type=DelegationType[t]))
            except Exception as e:
                bad(f"{mode}/read-back/raised", f"{eid} {t}: {type(e).__name__}: {e}")
                continue
            want = expect[t].get(eid)
            if got != want:
                if want is None:
                    what = "unexpected-delegation"
                elif got is None:
                    what = "missing-delegation"
                else:
                    what = "content"
                bad(f"{mode}/read-back/{what}", f"{eid} {t}: graph has {got}, expected {want}")
    # the copied-from properties are untouched
    for e in els:
        now = carried_now(e[0])
        if now != carried[e[0]]:
            bad(f"{mode}/source-properties-changed", f"{e[0]}: {now} was {carried[e[0]]}")
    # a second reading path: the element objects of the user API
    for i in range(len(shape["servers"])):
        node = topo.nodes["w%d" % i]
        for t, pname in (("CAPACITY", "capacity_delegations"), ("LABEL", "label_delegations")):
            got = _norm_delegations(node.get_property(pname))
            if got != expect[t].get("S%d" % i):
                bad(f"{mode}/read-back/element-property", f"S{i} {pname}: {got} expected {expect[t].get('S%d' % i)}")
    # regrouping from the model reconstructs the pools (clause 3 through the graph)
    for t in TYPES:
        ps2 = Pools(atype=DelegationType[t])
        try:
            for eid in ids:
                ds = arm.get_delegations(node_id=eid, delegation_type=DelegationType[t])
                if ds is not None and mode == "single":
                    ps2.incorporate_delegation(node_id=eid, deleg=ds)
        except Exception as e:
            bad(f"{mode}/regroup/raised", f"{type(e).__name__}: {e}")
            continue
        if mode == "single" and _norm_pools(ps2) != _norm_pools(pools_obj[t]):
            bad(f"{mode}/regroup/pools", f"{t}: {_norm_pools(ps2)} expected {_norm_pools(pools_obj[t])}")
    return {"v": v, "nt": nt, "labels": labels}


def run_case(case):
    kind = case["kind"]
    if kind == "set":
        return _run_set(case)
    if kind == "pools":
        return _run_pools(case)
    if kind == "model":
        return _run_model(case)
    raise ValueError(f"unknown case kind {kind!r}")
