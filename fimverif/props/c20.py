"""
C20 - store lock discipline and identifier allocation under concurrent use (DESIGN.md §C20).

case (a) {"kind": "seq", "fl": flavour, "ops": [op, ...]}                      single-thread fault sequences
case (b) {"kind": "conc", "fl": flavour, "threads": [[op, ...], ...], "preempt": [[global step, thread], ...]}
ops: ["import", gid, desc index], ["import_direct", gid, desc index] (JSON with gaps in its integer node keys),
     ["import_bad", gid] (a node without NodeID), ["add_node", gid, node id],
     ["clone", src, dst], ["delete", gid], ["delete_imp", gid], ["extract", gid], ["delete_all"]
(a) after every call: lock free, acquisitions == releases, no lock error, the next call is not blocked.
(b) the harness owns the schedule (engines/sched.py: cooperative lock, preemption at every source line of the two
    store files); after all threads join the store must equal the outcome of SOME serial order of the operations
    (computed with the reference model), id counters must lie above every id in use, no lock error / deadlock.
"""
import itertools
import json

from hypothesis import strategies as st
from fimverif.engines import store, sched
from fimverif.engines.refmodel import RefStore, UNSPEC, ModelRaise
from fimverif.props.c04 import make_text, desc_content

ID = "C20"
RULE = ("(a) Single-thread sequences of 1-15 store calls incl. failing ones (imports lacking NodeIDs, duplicate graph "
        "ids, delete-then-reimport, delete/extract of a missing graph, node adds, clone, delete-all) on both store "
        "flavours: all sequences of length <=2 (quick) / <=3 (thorough) over a 15-operation alphabet plus "
        "Hypothesis-generated longer ones. (b) 2-3 threads x 1-3 store operations with the harness owning the schedule "
        "(preemption at every source line of the store files): every single preemption point x target thread is "
        "enumerated for a fixed set of 2-thread programs (thorough: every pair of preemptions for the smallest "
        "programs), plus Hypothesis-generated programs and schedules with up to 6 preemptions. Oracle: lock "
        "acquire/release balance per call, no lock error, no deadlock, final store equals some serial order "
        "(reference model), id counters above every id in use. Non-trivial: (a) a failing call followed by a "
        "successful one; (b) >=1 preemption actually taken while both threads still had store work. Distinct by "
        "hash of the case.")
ASSUMPTIONS = ["preemption granularity is the source line of the two store files, not the bytecode",
               "final-state serializability at the granularity of the STORE's locked operations (clone_graph = "
               "extract_graph then add_graph, two steps), compared structurally (node "
               "ids, classes, connections): add_node writes the extra properties after the node exists, so a "
               "concurrent clone may see the node without them; NodeIDs are distinct per (thread, graph) - the "
               "uniqueness check of add_node is not atomic with the insertion, which is outside this statement",
               "liveness beyond 'no thread is parked forever in this bounded run' is not claimed"]
BUDGET = {"quick": 12000, "thorough": 150000}
LEVEL = "exploration"
MIN_LABEL_FRACTION = {"conc": 0.3, "seq": 0.15, "nontrivial": 0.2}

DESCS = [
    {"nodes": [{"id": "a", "cls": "X", "props": {}}, {"id": "b", "cls": "Y", "props": {"p": 1}}],
     "edges": [{"a": 0, "b": 1, "rel": "r", "props": {}}]},
    {"nodes": [{"id": "c", "cls": "X", "props": {"q": "v"}}], "edges": []},
    {"nodes": [{"id": "d", "cls": "Y", "props": {}}, {"id": "e", "cls": "Y", "props": {}}, {"id": "f", "cls": "X", "props": {}}],
     "edges": [{"a": 0, "b": 2, "rel": "s", "props": {}}]},
]
BAD_TEXT = json.dumps({"directed": False, "multigraph": False, "graph": {},
                       "nodes": [{"id": 1, "Class": "X", "NodeID": "z1"}, {"id": 2, "Class": "X"}],
                       "edges": [], "links": []})
GIDS = ["g0", "g1", "g2"]

SEQ_ALPHABET = [["import", "g0", 0], ["import", "g0", 1], ["import", "g1", 2], ["import_bad", "g0"], ["import_bad", "g2"],
                ["import_direct", "g2", 0],
                ["add_node", "g0", "n1"], ["add_node", "g2", "n2"], ["clone", "g0", "g1"], ["clone", "g2", "g0"],
                ["delete", "g0"], ["delete_imp", "g2"], ["extract", "g0"], ["extract", "g2"], ["delete_all"]]

CONC_PROGRAMS = [
    [[["import", "g2", 0]], [["import", "g2", 1]]],
    [[["add_node", "g0", "t0a"], ["add_node", "g0", "t0b"]], [["add_node", "g0", "t1a"], ["add_node", "g1", "t1b"]]],
    [[["import", "g2", 2], ["add_node", "g2", "t0a"]], [["add_node", "g0", "t1a"], ["import", "g0", 1]]],
    [[["clone", "g0", "g2"], ["add_node", "g2", "t0a"]], [["delete", "g0"], ["add_node", "g1", "t1a"]]],
    [[["add_node", "g1", "t0a"], ["delete_imp", "g1"]], [["import", "g1", 0], ["extract", "g1"]]],
    # two writers / a writer and a reader meeting on a graph id the store has not seen yet (first touch)
    [[["add_node", "g2", "t0-g2-1"]], [["add_node", "g2", "t1-g2-2"]]],
    [[["add_node", "g2", "t0-g2-1"]], [["extract", "g2"], ["add_node", "g2", "t1-g2-2"]]],
]


# ------------------------------------------------------------------ generation
def enumerate_cases(tier):
    depth = 3 if tier == "thorough" else 2
    for fl in ("shared", "disjoint"):
        for d in range(1, depth + 1):
            for seq in itertools.product(range(len(SEQ_ALPHABET)), repeat=d):
                yield {"kind": "seq", "fl": fl, "ops": [SEQ_ALPHABET[i] for i in seq]}
    for fl in ("shared", "disjoint"):
        for pi, prog in enumerate(CONC_PROGRAMS):
            base = run_conc({"kind": "conc", "fl": fl, "threads": prog, "preempt": []}, want_steps=True)
            total = base["steps"]
            yield {"kind": "conc", "fl": fl, "threads": prog, "preempt": []}
            stride = 1
            for s in range(1, total + 1, stride):
                for t in range(len(prog)):
                    yield {"kind": "conc", "fl": fl, "threads": prog, "preempt": [[s, t]]}
            if tier == "thorough" and pi < 2:
                for s1 in range(1, total + 1, 2):
                    for s2 in range(s1 + 1, total + 8, 3):
                        yield {"kind": "conc", "fl": fl, "threads": prog, "preempt": [[s1, 1], [s2, 0]]}


_gid = st.sampled_from(GIDS)


@st.composite
def _op(draw, tag):
    k = draw(st.sampled_from(["import", "import", "import_bad", "import_direct", "add_node", "add_node", "add_node",
                              "clone", "delete", "delete_imp", "extract", "delete_all", "new_importer"]))
    if k == "import_direct":
        return [k, draw(_gid), draw(st.integers(0, 2))]
    if k == "import":
        return [k, draw(_gid), draw(st.integers(0, 2))]
    if k == "import_bad":
        return [k, draw(_gid)]
    if k == "add_node":
        # NodeIDs are distinct per (thread, graph): the uniqueness check of add_node is not atomic with the insertion
        # (C05 covers NodeID uniqueness single-threaded; C20's statement is about lost nodes and internal ids), and
        # a clone must not carry an id into a graph in which another call adds the same id
        g = draw(_gid)
        return [k, g, f"{tag}{g}-{draw(st.integers(0, 99))}"]
    if k == "clone":
        return [k, draw(_gid), draw(_gid)]
    if k in ("delete", "delete_imp", "extract"):
        return [k, draw(_gid)]
    return [k]


@st.composite
def _case(draw):
    fl = draw(st.sampled_from(["shared", "disjoint"]))
    if draw(st.integers(0, 2)) == 0:
        return {"kind": "seq", "fl": fl, "ops": draw(st.lists(_op("s"), min_size=3, max_size=15))}
    nth = draw(st.sampled_from([2, 2, 3]))
    threads = []
    for t in range(nth):
        ops = draw(st.lists(_op(f"t{t}-"), min_size=1, max_size=3, unique_by=lambda o: json.dumps(o)))
        threads.append([o for o in ops if o[0] != "delete_all"] or [["extract", "g0"]])
    pre = draw(st.lists(st.tuples(st.integers(1, 160), st.integers(0, nth - 1)).map(list), min_size=1, max_size=6,
                        unique_by=lambda p: p[0]))
    # (one case in four starts from an EMPTY store instead of the two pre-imported graphs)
    return {"kind": "conc", "fl": fl, "threads": threads, "preempt": sorted(pre), "empty": draw(st.integers(0, 3)) == 0}


def strategy(tier):
    return _case()


# ------------------------------------------------------------------ execution helpers
def _prepare(fl, scheduler=None):
    store.reset_stores()
    imp = store.make_importer(fl)
    lock = sched.InstrumentedLock(scheduler)
    imp.storage.storage_instance.lock = lock
    return imp, lock


def _do(imp, op):
    k = op[0]
    if k == "import":
        imp.import_graph_from_string(graph_string=make_text(DESCS[op[2]], "json", "int", None), graph_id=op[1])
    elif k == "import_direct":
        # node-link JSON whose integer node keys have a hole (as written by the library after a node was deleted)
        imp.import_graph_from_string_direct(graph_string=make_text(DESCS[op[2]], "json", "gap", op[1]))
    elif k == "import_bad":
        imp.import_graph_from_string(graph_string=BAD_TEXT, graph_id=op[1])
    elif k == "add_node":
        store.graph_handle(imp, op[1]).add_node(node_id=op[2], label="X", props={"p": "of-" + op[2]})
    elif k == "clone":
        store.graph_handle(imp, op[1]).clone_graph(new_graph_id=op[2])
    elif k == "delete":
        store.graph_handle(imp, op[1]).delete_graph()
    elif k == "delete_imp":
        imp.delete_graph(graph_id=op[1])
    elif k == "extract":
        imp.storage.extract_graph(op[1])
    elif k == "delete_all":
        imp.delete_all_graphs()
    elif k == "new_importer":
        # another importer object is constructed (every topology object does that); it must join the one store
        store.make_importer("shared" if type(imp).__name__ == "NetworkXGraphImporter" else "disjoint")
    else:
        raise AssertionError(k)


def _model_do(M, op, fl):
    """effect of one whole operation on the reference model; returns False if the operation has no defined effect"""
    k = op[0]
    if k == "import":
        if fl == "disjoint" and not M.empty(op[1]):
            return        # documented skip on the per-graph store
        n, e = desc_content(DESCS[op[2]])
        M.put_graph(op[1], n, e)
    elif k == "import_direct":
        n, e = desc_content(DESCS[op[2]])
        M.put_graph(op[1], n, e)
    elif k == "import_bad":
        # shared store: an existing graph of that id is deleted before the NodeID check raises
        if fl == "shared":
            M.delete_graph(op[1])
    elif k == "add_node":
        try:
            M.add_node(op[1], op[2], "X", {"p": "of-" + op[2]})
        except ModelRaise:
            pass
    elif k == "clone":
        if op[1] != op[2] and not M.empty(op[1]):
            if fl == "disjoint" and not M.empty(op[2]):
                return
            M.clone_graph(op[1], op[2])
    elif k in ("delete", "delete_imp"):
        M.delete_graph(op[1])
    elif k == "delete_all":
        for g in list(M.graphs):
            M.delete_graph(g)


def _counters_ok(imp, fl):
    st_ = imp.storage
    if fl == "shared":
        ids = list(st_.graphs.nodes)
        return not ids or st_.start_id > max(ids), f"start_id={st_.start_id} max internal id={max(ids) if ids else None}"
    for gid in list(st_.graphs.keys()):
        ids = list(st_.graphs[gid].nodes)
        if ids and st_.graph_node_ids[gid] <= max(ids):
            return False, f"graph {gid}: next id {st_.graph_node_ids[gid]} <= max id in use {max(ids)}"
    return True, ""


def _lockerr(e):
    return isinstance(e, RuntimeError) and "lock" in str(e).lower()


# ------------------------------------------------------------------ (a) sequences
def run_seq(case):
    fl = case["fl"]
    imp, lock = _prepare(fl)
    M = RefStore()
    v, labels = [], {"seq", fl}
    failed_before, nt = False, False
    for step, op in enumerate(case["ops"]):
        a0, r0 = lock.acquired, lock.released
        raised = None
        try:
            _do(imp, op)
        except Exception as e:
            raised = e
        kind = op[0]

        def bad(clause, msg):
            v.append((f"C20/{fl}/{kind}/{clause}", f"step {step} {op}: {msg} | ops={case['ops'][:step + 1]}"))
        if lock.errors:
            bad(lock.errors[0][0], f"lock misuse {lock.errors} ({type(raised).__name__}: {raised})")
        elif raised is not None and _lockerr(raised):
            bad("lock-error", f"{type(raised).__name__}: {raised}")
        if lock.locked():
            bad("lock-held-after-call", "lock still held after the call " +
                ("raised " + type(raised).__name__ if raised is not None else "returned"))
        elif lock.acquired - a0 != lock.released - r0:
            bad("acquire-release-imbalance", f"{lock.acquired - a0} acquisitions, {lock.released - r0} releases")
        if v:
            break
        _model_do(M, op, fl)
        if raised is not None:
            failed_before = True
            labels.add("failing-" + kind)
        elif failed_before:
            nt = True
        # the store content follows the reference model (ties lock discipline to an observable effect)
        for g in GIDS:
            rc, mc = store.canon(imp, g), M.canon(g)
            if rc != mc:
                bad("state", f"graph {g} differs from the model: {store.diff_canon(rc, mc)}")
                break
        ok, msg = _counters_ok(imp, fl)
        if not ok:
            bad("id-counter", msg)
        if v:
            break
    if nt:
        labels.add("nontrivial")
    return {"v": v, "nt": nt, "labels": sorted(labels)}


# ------------------------------------------------------------------ (b) concurrent
def _steps(ops):
    """atomic store-level steps of a thread's operations: clone_graph is extract_graph (a locked read) followed by
    add_graph (a locked write) - two store operations, not one"""
    out = []
    for op in ops:
        if op[0] == "clone":
            out.append(["clone_read", op[1], op[2]])
            out.append(["clone_write", op[1], op[2]])
        else:
            out.append(op)
    return out


def _freeze(M, regs):
    def fg(G):
        return (tuple(sorted((i, tuple(sorted((k, repr(v)) for k, v in p.items()))) for i, p in G["nodes"].items())),
                tuple(sorted((tuple(sorted(k)), tuple(sorted((a, repr(b)) for a, b in p.items())))
                             for k, p in G["edges"].items())))
    return (tuple(sorted((g, fg(G)) for g, G in M.graphs.items() if G["nodes"])),
            tuple(sorted((t, None if r is None else fg(r)) for t, r in regs.items())))


def serial_outcomes(threads, fl, empty=False):
    """canonical final states of every serial order of the store-level steps that respects per-thread order
    (breadth-first over (positions, model state) with duplicate states merged)"""
    import copy
    steps = [_steps(t) for t in threads]
    n = len(steps)

    def apply(M, regs, t, st_):
        k = st_[0]
        if k == "clone_read":
            regs[t] = None if M.empty(st_[1]) else copy.deepcopy(M.g(st_[1]))
        elif k == "clone_write":
            snap = regs.pop(t, None)
            if snap is None:
                return          # empty source: AttributeError on the shared store / empty graph on the other: no effect
            if fl == "disjoint" and not M.empty(st_[2]):
                return          # documented skip
            M.delete_graph(st_[2])
            G = copy.deepcopy(snap)
            for p in G["nodes"].values():
                p["GraphID"] = st_[2]
            M.graphs[st_[2]] = G
        else:
            _model_do(M, st_, fl)

    M0 = RefStore()
    if not empty:
        _init_model(M0)
    frontier = {(tuple([0] * n), _freeze(M0, {})): (M0, {})}
    outs, seen_final = [], set()
    total = sum(len(x) for x in steps)
    for _ in range(total):
        nxt = {}
        for (pos, _key), (M, regs) in frontier.items():
            for t in range(n):
                if pos[t] < len(steps[t]):
                    M2, r2 = copy.deepcopy(M), copy.deepcopy(regs)
                    apply(M2, r2, t, steps[t][pos[t]])
                    p2 = tuple(pos[i] + (1 if i == t else 0) for i in range(n))
                    nxt.setdefault((p2, _freeze(M2, r2)), (M2, r2))
        frontier = nxt
    for (_pos, _key), (M, _regs) in frontier.items():
        c = json.dumps({g: _struct(M.canon(g)) for g in GIDS}, sort_keys=True)
        if c not in seen_final:
            seen_final.add(c)
            outs.append(c)
    return outs


def _struct(c):
    """what the statement promises under concurrency: which nodes (id, class) and connections each graph has.
    Property values of a node that is being added while another thread clones its graph are not part of it
    (add_node sets them after the node exists)."""
    if c is None:
        return None
    return {"nodes": {i: d["Class"] for i, d in c["nodes"].items()},
            "edges": {k: d["Class"] for k, d in c["edges"].items()}, "problems": c["problems"]}


def _init_model(M):
    n, e = desc_content(DESCS[0])
    M.put_graph("g0", n, e)
    n, e = desc_content(DESCS[1])
    M.put_graph("g1", n, e)


def run_conc(case, want_steps=False):
    fl = case["fl"]
    S = sched.Scheduler(len(case["threads"]), case.get("preempt") or [])
    imp, lock = _prepare(fl, None)
    if not case.get("empty"):
        _do(imp, ["import", "g0", 0])
        _do(imp, ["import", "g1", 1])
    lock.sched = S
    raised = [[] for _ in case["threads"]]

    def worker(t):
        def fn():
            for op in case["threads"][t]:
                try:
                    _do(imp, op)
                    raised[t].append(None)
                except Exception as e:
                    raised[t].append(e)
        return fn
    S.run([worker(t) for t in range(len(case["threads"]))])
    lock.sched = None
    if want_steps:
        return {"steps": S.step}
    v, labels = [], {"conc", fl, f"threads={len(case['threads'])}"}
    sig = f"C20/{fl}/concurrent"
    ctx = f"threads={case['threads']} preempt={case.get('preempt')} switches={S.trace[:8]}"
    if S.deadlock:
        v.append((f"{sig}/deadlock", f"all unfinished threads are parked on the lock | {ctx}"))
    if lock.errors:
        v.append((f"{sig}/{lock.errors[0][0]}", f"lock misuse {lock.errors} | {ctx}"))
    for t, rs in enumerate(raised):
        for i, e in enumerate(rs):
            if e is not None and _lockerr(e):
                v.append((f"{sig}/lock-error", f"thread {t} op {case['threads'][t][i]}: {e} | {ctx}"))
    if not v:
        if lock.locked():
            v.append((f"{sig}/lock-held-after-join", ctx))
        final = json.dumps({g: _struct(store.canon(imp, g)) for g in GIDS}, sort_keys=True)
        outs = serial_outcomes(case["threads"], fl, bool(case.get("empty")))
        if final not in outs:
            got = json.loads(final)
            v.append((f"{sig}/not-serializable",
                      f"final store matches none of the {len(outs)} serial outcomes; node ids per graph: "
                      f"{ {g: sorted(got[g]['nodes']) if got[g] else None for g in GIDS} } problems="
                      f"{ {g: got[g]['problems'] for g in GIDS if got[g] and got[g]['problems']} } | {ctx}"))
        ok, msg = _counters_ok(imp, fl)
        if not ok:
            v.append((f"{sig}/id-counter", f"{msg} | {ctx}"))
        # every add_node tags its node with a property naming that node: a tag found on ANOTHER node means the
        # internal identifier add_node wrote through was (also) somebody else's - handed out twice
        # (not judged for graphs that some thread replaces or deletes as a whole during the run: add_node is two store
        # steps - create the node, then write its properties through the internal id - and a graph replaced in between
        # legitimately re-issues its ids; that is the same non-atomicity as clone's, not a double hand-out)
        replaced = set()
        for ops in case["threads"]:
            for o in ops:
                if o[0] in ("import", "import_direct", "import_bad", "delete", "delete_imp"):
                    replaced.add(o[1])
                elif o[0] == "clone":
                    replaced.add(o[2])
                elif o[0] == "delete_all":
                    replaced |= set(GIDS)
        for g in GIDS:
            c = store.canon(imp, g)
            for nid, d in (c["nodes"] if c else {}).items():
                tag = d["props"].get("p")
                if tag is not None and tag[0] == "str" and tag[1].startswith("of-") and tag[1] != "of-" + nid:
                    writer_graph = tag[1].split("-")[2] if tag[1].count("-") >= 3 else None
                    if g in replaced or writer_graph in replaced:
                        continue
                    v.append((f"{sig}/properties-written-to-another-node",
                              f"node {nid!r} of {g} carries the properties of {tag[1][3:]!r} | {ctx}"))
                    break
    nt = S.preemptions_done >= 1
    if nt:
        labels.add("nontrivial")
        labels.add(f"preemptions={min(S.preemptions_done, 3)}")
    return {"v": v, "nt": nt, "labels": sorted(labels)}


def run_case(case):
    return run_seq(case) if case["kind"] == "seq" else run_conc(case)
