"""
C14 - combined broker model: merge is order-independent, unmerge is its inverse, rollback restores
(DESIGN.md §3 "C14").

Harness: `merge_adm`, `unmerge_adm`, `_update_node_delegations` of Neo4jCBMGraph are written against the
abstract graph interface; they are borrowed by `class NXCBM(NetworkXPropertyGraph, ABCCBMPropertyGraph)` and the
module attribute `neo4j_cbm.Neo4jADMGraph` is pointed at NetworkXADMGraph for the duration of a case.
snapshot/rollback come from abc_cbm.py unchanged. No repository change.

case = {"kind": "family",    "family": {"models": [<E6 description>, ...]}, "history": [[op, k], ...]}
     | {"kind": "partition", "arm": <E6 description, one speaker per resource>, "history": [...]}
       (the models are what generate_adms returns; when that call fails the case is skipped - C13 owns it)
     | {"kind": "shipped", "history": [...]}     the four advertisements shipped with the repository
op in merge / unmerge / snapshot / rollback; k selects the k-th (mod n) not-yet-merged model / merged model /
live snapshot, so every history is executable.

Oracle: a reference model of the combined graph computed from the canonical snapshots of the source models
(`_expected`): a pure function of the *ordered list of currently merged models* - nodes = union by NodeID, edges
= union, provenance = contributing models, delegations re-keyed by the contributing model's id.
"""
import itertools
import json
import os

from hypothesis import strategies as st

from fimverif.engines import substrate as S

ID = "C14"
RULE = ("Families of 1-4 delegation models sharing stitch nodes: (a) generated site models + network model (E6 "
        "adm_family: shared switch / MPLS service / trunk ports with identical non-delegation properties, "
        "delegations on a shared element spoken for by one model), (b) the partitions generate_adms returns for a "
        "generated multi-delegation ARM, (c) the four shipped advertisements. Every family: all merge permutations, "
        "unmerge + re-merge of every member, unmerge down to empty, then a generated history of 1-12 "
        "merge/unmerge/snapshot/rollback steps, compared after every step with a reference model. Non-trivial: "
        ">= 2 models sharing >= 1 element and >= 1 unmerge or rollback executed in the history. Distinct by hash "
        "of the case.")
ASSUMPTIONS = [
    "a shared element has the same class and non-delegation properties in every model containing it (the merge "
    "keeps the combined model's copy); where the shipped advertisements disagree the values are not compared",
    "at most one model of a family carries delegations for a given element ('only one aggregate can speak for a "
    "resource'); every delegation property of a delegation model names exactly one delegation id",
    "two shared elements are connected in every model that contains both (models describe the same substrate)",
    "a model is merged at most once at a time; unmerge names a merged model; rollback names a live snapshot",
    "snapshots are taken of a non-empty combined model only (the in-memory clone of an empty graph is undefined)",
    "source models carry no StructuralInfo of their own",
]
BUDGET = {"quick": 800, "thorough": 8000}
SIG_CONTRACTION = "C14/merge_nodes/edge-contraction-attribute"
SIG_NO_OWN = "C14/merge/raised/adm-without-own-nodes"
MIN_LABEL_FRACTION = {"models>=2": 0.5, "shared-nodes": 0.45, "hist-unmerge": 0.2, "hist-rollback": 0.07,
                      "hist-snapshot": 0.15, "kind:partition-ok": 0.04, "kind:family": 0.4,
                      "shared-delegated": 0.3, "models=4": 0.08}

OPS = ["merge", "merge", "merge", "unmerge", "unmerge", "snapshot", "snapshot", "rollback", "rollback"]
SHIPPED = ["LBNL", "Network", "RENCI", "UKY"]

_op = st.tuples(st.sampled_from(OPS), st.integers(0, 5)).map(list)
# 1-12 steps; the first one is a merge (anything else would be skipped on the empty combined model)



@st.composite
def _history(draw):
    n = draw(st.sampled_from([0, 1, 2, 3, 4, 5, 6, 7, 8, 9, 10, 11, 5, 7, 9, 11]))
    return [["merge", draw(st.integers(0, 5))]] + draw(st.lists(_op, min_size=n, max_size=n))


@st.composite
def _case(draw):
    kind = draw(st.sampled_from(["family", "family", "family", "partition"]))
    if kind == "family":
        return {"kind": kind, "family": draw(S.adm_family()), "history": draw(_history())}
    arm = draw(S.substrate(multi_id=False, modes=("all-both", "all-both", "all-both", "mixed"),
                           max_workers=2, max_comps=2))
    return {"kind": kind, "arm": arm, "history": draw(_history())}


def strategy(tier):
    return _case()


def enumerate_cases(tier):
    yield {"kind": "shipped", "perms": "rotations" if tier == "quick" else "all", "history": [["merge", 0], ["merge", 0], ["snapshot", 0], ["merge", 0], ["unmerge", 1],
                                          ["merge", 0], ["rollback", 0], ["unmerge", 0], ["merge", 0]]}


ENUM_EXHAUSTIVE = False


def _n(nid, cls, typ, stitch=False, **deleg):
    return dict({"id": nid, "cls": cls, "props": {"Name": nid, "Type": typ,
                                                  "StitchNode": "true" if stitch else "false"}}, **deleg)


_CD = {"primary": {"pool_id": "_", "capacities": {"unit": 1}}}
PROBES = {
    # two models that both contain the switch, its service and the edge between them: after the merge that edge
    # carries networkx' 'contraction' bookkeeping
    SIG_CONTRACTION: {"kind": "family", "history": [["merge", 0], ["merge", 0], ["unmerge", 0]], "family": {"models": [
        {"gid": "adm-a", "nodes": [_n("sw", "NetworkNode", "Switch", True), _n("sw-ns", "NetworkService", "MPLS"),
                                   _n("a-w0", "NetworkNode", "Server", cd=_CD)],
         "edges": [["sw", "has", "sw-ns"]]},
        {"gid": "adm-b", "nodes": [_n("sw", "NetworkNode", "Switch", True), _n("sw-ns", "NetworkService", "MPLS"),
                                   _n("b-w0", "NetworkNode", "Server", cd=_CD)],
         "edges": [["sw", "has", "sw-ns"]]}]}},
    # a model all of whose nodes are already in the combined model
    SIG_NO_OWN: {"kind": "family", "history": [["merge", 0], ["merge", 0], ["unmerge", 1]], "family": {"models": [
        {"gid": "adm-a", "nodes": [_n("sw", "NetworkNode", "Switch", True), _n("a-w0", "NetworkNode", "Server", cd=_CD)],
         "edges": []},
        {"gid": "adm-b", "nodes": [_n("sw", "NetworkNode", "Switch", True)], "edges": []}]}},
}


# ------------------------------------------------------------------------------------------ reference model
def _other(props):
    return {k: v for k, v in props.items() if k not in (S.P_LD, S.P_CD, S.P_SI)}


def _expected(src, order, ambiguous):
    """reference combined model for the ordered list `order` of merged source ids"""
    nodes, edges = {}, {}
    for gid in order:
        sn, se = src[gid]
        for nid, (c, p) in sn.items():
            ent = nodes.get(nid)
            if ent is None:
                ent = nodes[nid] = {"cls": c, "other": None if nid in ambiguous else _other(p), "prov": [],
                                    "L": {}, "C": {}}
            ent["prov"].append(gid)
            for kind, prop in (("L", S.P_LD), ("C", S.P_CD)):
                d = S.decode_delegations(p.get(prop))
                if d:
                    ent[kind] = {gid: x for x in d.values()}      # re-keyed by the contributing model's id
        for e, x in se.items():
            edges.setdefault(e, x)
    for ent in nodes.values():
        ent["prov"] = sorted(ent["prov"])
    return nodes, edges


def _norm(canon, ambiguous, bad, prefix):
    """actual combined model in the shape of `_expected` (provenance as sorted list; duplicates reported)"""
    cn, ce = canon
    nodes = {}
    for nid, (c, p) in cn.items():
        si = p.get(S.P_SI)
        sid = json.loads(si) if si not in S.ABSENT else {}
        prov = sid.get("adm_graph_ids")
        if not isinstance(prov, list):
            bad(f"{prefix}/provenance", f"node {nid}: StructuralInfo {si!r} has no adm_graph_ids list")
            prov = []
        if len(set(prov)) != len(prov):
            bad(f"{prefix}/provenance-duplicates", f"node {nid}: adm_graph_ids {prov}")
        nodes[nid] = {"cls": c, "other": None if nid in ambiguous else _other(p), "prov": sorted(set(prov)),
                      "L": S.decode_delegations(p.get(S.P_LD)), "C": S.decode_delegations(p.get(S.P_CD))}
        if any(k != "adm_graph_ids" for k in sid):
            bad(f"{prefix}/other-props", f"node {nid}: unexpected StructuralInfo fields {si!r}")
    edges = {}
    for e, (c, p) in ce.items():
        if "contraction" in p:
            # nx.contracted_nodes bookkeeping (internal integer ids) left on the edge by merge_nodes: own signature,
            # then ignored so that everything else is still compared
            bad(SIG_CONTRACTION, f"edge {sorted(e)} of the combined model carries {p!r}")
            p = {k: x for k, x in p.items() if k != "contraction"}
        edges[e] = (c, p)
    return nodes, edges


def _compare(prefix, actual, expected, bad, ctx):
    an, ae = actual
    en, ee = expected
    if set(an) != set(en):
        bad(f"{prefix}/nodes", f"{ctx}: missing {sorted(set(en) - set(an))[:4]} extra {sorted(set(an) - set(en))[:4]}")
    for nid in sorted(set(an) & set(en)):
        a, e = an[nid], en[nid]
        if a["cls"] != e["cls"] or a["other"] != e["other"]:
            bad(f"{prefix}/other-props", f"{ctx}: node {nid}: {a['cls']} {a['other']} expected {e['cls']} {e['other']}")
        if a["prov"] != e["prov"]:
            bad(f"{prefix}/provenance", f"{ctx}: node {nid}: adm_graph_ids {a['prov']} expected {e['prov']}")
        if a["L"] != e["L"] or a["C"] != e["C"]:
            bad(f"{prefix}/delegations", f"{ctx}: node {nid}: label {a['L']} capacity {a['C']} expected "
                                         f"label {e['L']} capacity {e['C']}")
    if set(ae) != set(ee):
        bad(f"{prefix}/edges", f"{ctx}: missing {[sorted(x) for x in sorted(set(ee) - set(ae), key=sorted)][:3]} "
                               f"extra {[sorted(x) for x in sorted(set(ae) - set(ee), key=sorted)][:3]}")
    for e in sorted(set(ae) & set(ee), key=sorted):
        if ae[e] != ee[e]:
            bad(f"{prefix}/edge-props", f"{ctx}: edge {sorted(e)}: {ae[e]} expected {ee[e]}")


# --------------------------------------------------------------------------------------------------- harness
def _make_cbm_class():
    import fim.graph.resources.neo4j_cbm as ncbm
    from fim.graph.networkx_property_graph import NetworkXPropertyGraph
    from fim.graph.resources.abc_cbm import ABCCBMPropertyGraph

    class NXCBM(NetworkXPropertyGraph, ABCCBMPropertyGraph):
        merge_adm = ncbm.Neo4jCBMGraph.merge_adm
        unmerge_adm = ncbm.Neo4jCBMGraph.unmerge_adm
        _update_node_delegations = ncbm.Neo4jCBMGraph._update_node_delegations

    NXCBM.__abstractmethods__ = frozenset()      # query methods of the CBM interface are not exercised here
    return NXCBM


def run_case(case):
    S.reset_stores()
    import fim.graph.resources.neo4j_cbm as ncbm
    from fim.graph.resources.networkx_adm import NetworkXADMGraph
    saved = ncbm.Neo4jADMGraph
    ncbm.Neo4jADMGraph = NetworkXADMGraph
    try:
        with S.deterministic_uuid():
            return _run(case, _make_cbm_class(), NetworkXADMGraph)
    finally:
        ncbm.Neo4jADMGraph = saved


def _run(case, NXCBM, NetworkXADMGraph):
    from fim.graph.networkx_property_graph import NetworkXGraphImporter
    v, seen, labels = [], set(), [f"kind:{case['kind']}"]

    def bad(sig, msg):
        if sig not in seen:
            seen.add(sig)
            v.append((sig, msg))

    def done(nt=False):
        return {"v": v, "nt": nt, "labels": sorted(set(labels))}

    imp = NetworkXGraphImporter()
    storage = imp.storage
    # ---- source models
    if case["kind"] == "family":
        models = {m["gid"]: S.build(m, imp, cls=NetworkXADMGraph) for m in case["family"]["models"]}
    elif case["kind"] == "shipped":
        repo = os.path.abspath(os.environ.get("VERIF_REPO", "/repo"))
        models = {f"{n}-ad": S.build(S.shipped_ad_desc(n, repo), imp, cls=NetworkXADMGraph) for n in SHIPPED}
    else:
        arm = S.build(case["arm"], imp)
        ids = sorted({d for n in case["arm"]["nodes"] for f in ("ld", "cd") for d in n.get(f, {})})
        try:
            res = arm.generate_adms(delegation_guids={d: f"adm-{d}" for d in ids})
        except Exception:
            labels.append("partition-raised")       # property C13's business
            return done()
        arm.delete_graph()
        if not res:
            labels.append("partition-empty")
            return done()
        labels.append("kind:partition-ok")
        models = {g.graph_id: NetworkXADMGraph(graph_id=g.graph_id, importer=imp) for g in res.values()}
    gids = sorted(models)
    src = {g: S.canon(models[g]) for g in gids}

    # ---- domain: one speaker per element, agreement on shared elements (else: not compared)
    holders, speakers, variants = {}, {}, {}
    for g in gids:
        for nid, (c, p) in src[g][0].items():
            holders.setdefault(nid, []).append(g)
            variants.setdefault(nid, [])
            if (c, _other(p)) not in variants[nid]:
                variants[nid].append((c, _other(p)))
            # the code's own rule ("only one aggregate can speak for a resource") is checked per delegation
            # property: one model may delegate the labels of a shared element and another its capacities
            for kind_prop in (S.P_LD, S.P_CD):
                if p.get(kind_prop) not in S.ABSENT:
                    speakers.setdefault((nid, kind_prop), []).append(g)
    split = {nid for (nid, _k) in speakers} and any(
        speakers.get((nid, S.P_LD)) and speakers.get((nid, S.P_CD)) and
        set(speakers[(nid, S.P_LD)]) != set(speakers[(nid, S.P_CD)]) for (nid, _k) in speakers)
    if split:
        labels.append("split-speakers")
    if any(len(s) > 1 for s in speakers.values()):
        labels.append("multi-speaker")
        return done()
    ambiguous = {nid for nid, x in variants.items() if len(x) > 1}
    if ambiguous and case["kind"] != "shipped":
        raise AssertionError(f"harness: generated family disagrees on shared nodes {sorted(ambiguous)[:3]}")
    shared = [nid for nid, h in holders.items() if len(h) > 1]
    labels.append(f"models={len(gids)}")
    if len(gids) >= 2:
        labels.append("models>=2")
    if shared:
        labels.append("shared-nodes")
    if any((nid, k) in speakers for nid in shared for k in (S.P_LD, S.P_CD)):
        labels.append("shared-delegated")
    if any(len(h) > 2 for h in holders.values()):
        labels.append("shared-by-3+")

    def sources_intact(prefix, ctx):
        for g in gids:
            if S.canon(models[g], []) != src[g]:
                bad(f"{prefix}/source-modified", f"{ctx}: source model {g} changed")

    def store_ids(prefix, ctx, extra):
        got = set(S.graph_ids(storage))
        exp = set(gids) | set(extra)
        if got != exp:
            bad(f"{prefix}/stray-graph", f"{ctx}: graphs in store {sorted(map(str, got))}, expected {sorted(exp)}")

    def observe(cbm, prefix, order, ctx):
        dups = []
        raw = S.canon(cbm, dups)
        if dups:
            bad(f"{prefix}/duplicate-node", f"{ctx}: NodeIDs occurring twice in the combined model: {sorted(dups)[:4]}")
        act = _norm(raw, ambiguous, bad, prefix)
        _compare(prefix, act, _expected(src, order, ambiguous), bad, ctx)
        return raw, act

    def call(op, fn, ctx, merging=None, into=()):
        try:
            fn()
            return True
        except Exception as e:                 # the library failing on a well-formed family is the violation
            if merging is not None and into and "Unable to find graph nodes" in str(e) and \
                    set(src[merging][0]) <= {n for g in into for n in src[g][0]}:
                # every node of the model was already in the combined model: merge_adm completes the merge and
                # then fails re-homing the (empty) remainder. Own signature; the history goes on.
                labels.append("adm-without-own-nodes")
                bad(SIG_NO_OWN, f"{ctx}: {type(e).__name__}: {e}")
                return True
            bad(f"C14/{op}/raised/{type(e).__name__}", f"{ctx}: {type(e).__name__}: {e}")
            return False

    # ---- part A: every merge permutation (clauses 1-4)
    first = None
    cbm, order = None, []
    perms = list(itertools.permutations(gids))
    if case.get("perms") == "rotations":        # every model first once and last once (quick tier, shipped family)
        perms = [tuple(gids[i:] + gids[:i]) for i in range(len(gids))]
    for k, perm in enumerate(perms):
        cbm, order = NXCBM(graph_id=f"cbm-{k}", importer=imp), []
        ctx = f"merge order {list(perm)}"
        ok = True
        for g in perm:
            ok = call("merge", lambda: cbm.merge_adm(adm=models[g]), ctx + f" at {g}", g, list(order))
            if not ok:
                break
            order.append(g)
        if not ok:
            return done()
        _, act = observe(cbm, "C14/merge", order, ctx)
        sources_intact("C14/merge", ctx)                                   # clause 4
        store_ids("C14/merge", ctx, [cbm.graph_id])
        if first is None:
            first = act
        elif act != first:                                                 # clause 3
            bad("C14/merge/order-dependent", f"{ctx} gives a different combined model than {list(perms[0])}")
        if k < len(perms) - 1:
            cbm.delete_graph()

    # ---- part B: unmerge + re-merge of every member, then down to empty (clause 5)
    for g in gids:
        ctx = f"after merging {order}: unmerge {g}"
        if not call("unmerge", lambda: cbm.unmerge_adm(graph_id=g), ctx):
            return done()
        order.remove(g)
        observe(cbm, "C14/unmerge", order, ctx)
        if not call("merge", lambda: cbm.merge_adm(adm=models[g]), ctx + " and merge it again", g, list(order)):
            return done()
        order.append(g)
        observe(cbm, "C14/merge", order, ctx + " and merge it again")
    for g in gids:
        ctx = f"unmerging everything, {g} from {order}"
        if not call("unmerge", lambda: cbm.unmerge_adm(graph_id=g), ctx):
            return done()
        order.remove(g)
        observe(cbm, "C14/unmerge", order, ctx)
    if cbm.graph_exists():
        bad("C14/unmerge/not-empty", "combined model still has nodes after unmerging every model")
    sources_intact("C14/unmerge", "after part B")
    store_ids("C14/unmerge", "after part B", [])

    # ---- part C: generated history (clauses 5-7)
    cbm, order, snaps = NXCBM(graph_id="cbm-h", importer=imp), [], []
    executed = set()
    for step, (op, k) in enumerate(case["history"]):
        ctx = f"history step {step} {op}"
        if op == "merge":
            cand = [g for g in gids if g not in order]
            if not cand:
                continue
            g = cand[k % len(cand)]
            if not order and "hist-unmerge" in executed:
                labels.append("remerge-after-empty")
            if not call(op, lambda: cbm.merge_adm(adm=models[g]), f"{ctx} {g} into {order}", g, list(order)):
                break
            order.append(g)
        elif op == "unmerge":
            if not order:
                continue
            g = order[k % len(order)]
            if not call(op, lambda: cbm.unmerge_adm(graph_id=g), f"{ctx} {g} from {order}"):
                break
            order.remove(g)
        elif op == "snapshot":
            if not order:
                labels.append("snapshot-of-empty-skipped")
                continue
            before = S.canon(cbm, [])
            box = []
            if not call(op, lambda: box.append(cbm.snapshot()), ctx):
                break
            if S.canon_of_id(storage, box[0], []) != before:
                bad("C14/snapshot/differs", f"{ctx}: the snapshot is not a copy of the combined model")
            snaps.append((box[0], list(order), before))
        else:
            if not snaps:
                continue
            sid, o, raw = snaps.pop(k % len(snaps))
            if not call(op, lambda: cbm.rollback(graph_id=sid), f"{ctx} to the state {o} from {order}"):
                break
            order = list(o)
            if S.canon(cbm, []) != raw:                                    # clause 6: exact
                bad("C14/rollback/not-restored", f"{ctx}: combined model differs from the snapshot taken at {o}")
            if sid in S.graph_ids(storage):
                bad("C14/rollback/snapshot-not-consumed", f"{ctx}: snapshot graph still present")
        executed.add(f"hist-{op}")
        observe(cbm, f"C14/{op}", order, f"{ctx} -> merged {order}")         # clause 7
        sources_intact(f"C14/{op}", ctx)
        store_ids(f"C14/{op}", ctx, (["cbm-h"] if order else []) + [s[0] for s in snaps])
    labels.extend(sorted(executed))
    nt = len(gids) >= 2 and bool(shared) and bool(executed & {"hist-unmerge", "hist-rollback"})
    return done(nt)
