"""
C11 - authorization and accounting attributes cover every resource, in any order (DESIGN.md §3 "C11").

case = {
  "nodes": [{"site": 0..2, "type": "VM"|"Container"|"Switch", "caps": null | {"core","ram","disk" (any subset)},
             "comps": [component model name, ...]}, ...],
  "facs":  [{"site": 0..2, "bw": int|null}, ...],
  "svcs":  [{"type": service type name, "bw": int|null, "ifs": [int, ...], "labels": [int|null, ...],
             "mirror": ["in"|"out", int]}, ...],
  "orders": [{"units": [perm of nodes+facs], "svcs": [perm of svcs], "early": bool}, ...]
}

* `ifs[k]` picks the k-th interface of a service by index modulo the list of still free ports that keep the
  service valid for its type (number of sites, port kinds); a service that cannot get its minimum number of
  ports is not built. The resolution is a pure function of the description (never of the creation order).
* `labels[k]` (PORT<n>) is put as `Labels(local_name=...)` on the *service-side* port created for interface k
  (this is what the collector reads to decide which ports are "in the slice").
* PortMirror: `ifs[0]` is the mirrored-to port, `mirror` = ["in", k] mirrors the k-th labelled in-slice port
  (falls back to an outside name when the slice has no labelled port), ["out", k] mirrors EXT<k>.
* every order builds the same slice: units (nodes and facilities) in `units` order, services in `svcs` order,
  either after all units or ("early") as soon as the units they attach to exist.

Oracle: a direct tally of the resolved description (clauses 1-5 of DESIGN.md, marked below).
"""
import json
from collections import Counter

from hypothesis import strategies as st

ID = "C11"
RULE = ("Hypothesis-generated slice descriptions (1-5 nodes VM/Container/Switch over 1-3 sites with core/ram/disk, "
        "0-3 components each from all 13 catalogue models, 0-3 facilities, 0-5 services of 11 types incl. "
        "FABNetv4Ext/v6Ext and several PortMirror services per site whose mirrored port is inside/outside the "
        "slice), each built in 2-6 creation orders (permutation of nodes+facilities, permutation of services, "
        "services created late or as early as possible); attributes collected from the validated topology (every "
        "order) and from its serialised model (NetworkxASM, first two orders) are compared with a direct tally of "
        "the description, across orders and across the two sources. "
        "Non-trivial: nodes in >= 2 sites, >= 2 effectively different creation sequences, and at least one of "
        "{a site with both an in-slice and an out-of-slice mirror service, an Ext service, a facility}. "
        "Distinct by hash of the case.")
ASSUMPTIONS = [
    "the slice is validated (ExperimentTopology.validate()) before attributes are collected, as the collector "
    "documents ('site must be set (typically set by Topology.validate())')",
    "a mirrored port is 'inside the slice' iff its name equals the Labels.local_name of a service-side port "
    "peered with a node interface of the slice (the collector's own notion of port identity)",
    "node capacities are either absent or have core >= 1; unspecified ram/disk may be reported as 0 or omitted "
    "(zeros are ignored on the collected side)",
    "RESOURCE_SITE / accounting sites must contain every node site and may additionally contain facility sites "
    "(validate() stamps the facility's VLAN service with the facility site); nothing else",
    "accounting 'core_count'/'nodes' cover VM nodes; Container capacities may or may not be counted",
    "implicit services (OVS/P4 inside NICs/FPGAs/switches, VLAN inside facilities) are ignored in the accounting "
    "'services' list; the generator never creates services of these three types itself",
    "the XACML category/datatype table is taken as published in ResourceAuthZAttributes.ATTRIBUTE_TYPES_AND_"
    "CATEGORIES at the pinned revision (copied below)",
]
BUDGET = {"quick": 240, "thorough": 2500}
MIN_LABEL_FRACTION = {"multi-site": 0.3, "mirror-mixed-site": 0.05, "mirror-out": 0.2, "mirror-in": 0.15,
                      "ext": 0.1, "facility": 0.2, "switch": 0.12, "orders-distinct>=2": 0.6}

SITES = ["SITEA", "SITEB", "SITEC"]

# component model -> (component type, [(port suffix, dedicated?)])   (fim/slivers/data/*.json catalogue)
MODELS = {
    "GPU_RTX6000": ("GPU", []), "GPU_Tesla_T4": ("GPU", []), "GPU_A40": ("GPU", []), "GPU_A30": ("GPU", []),
    "SharedNIC_ConnectX_6": ("SharedNIC", [("p1", False)]),
    "SharedNIC_OpenStack_vNIC": ("SharedNIC", [("p1", False)]),
    "SmartNIC_BlueField_2_ConnectX_6": ("SmartNIC", [("p1", True), ("p2", True)]),
    "SmartNIC_ConnectX_6": ("SmartNIC", [("p1", True), ("p2", True)]),
    "SmartNIC_ConnectX_5": ("SmartNIC", [("p1", True), ("p2", True)]),
    "NVME_P4510": ("NVME", []), "Storage_NAS": ("Storage", []),
    "FPGA_Xilinx_U280": ("FPGA", [("p1", True), ("p2", True)]),
    "FPGA_Xilinx_SN1022": ("FPGA", [("p1", True), ("p2", True)]),
}
SWITCH_PORTS = 2
ASM_ORDERS = 2      # number of creation orders per case for which the serialised model is collected too

# service type -> (min ports, max ports, max sites (None = unlimited), allowed port kinds, dedicated only)
SVC = {
    "L2Bridge": (1, 3, 1, ("comp", "sw", "fac"), False),
    "L2STS": (2, 3, 2, ("comp", "sw", "fac"), False),
    "L2PTP": (2, 2, 2, ("comp", "sw", "fac"), True),
    "L2Multisite": (1, 3, None, ("comp", "sw"), False),
    "L3VPN": (1, 3, None, ("comp", "sw"), False),
    "FABNetv4": (1, 3, 1, ("comp",), False),
    "FABNetv6": (1, 3, 1, ("comp",), False),
    "FABNetv4Ext": (1, 3, 1, ("comp",), False),
    "FABNetv6Ext": (1, 3, 1, ("comp",), False),
    "PortMirror": (1, 1, 1, ("comp",), True),
}
IMPLICIT_SERVICE_TYPES = {"OVS", "P4", "VLAN", "MPLS"}      # (MPLS: a facility's own service of non-default type)

A_TYPE = "urn:fabric:xacml:attributes:resource-type"
A_CPU = "urn:fabric:xacml:attributes:resource-cpu"
A_RAM = "urn:fabric:xacml:attributes:resource-ram"
A_DISK = "urn:fabric:xacml:attributes:resource-disk"
A_BW = "urn:fabric:xacml:attribute:resource-bw"
A_SITE = "urn:fabric:xacml:attribute:resource-site"
A_COMP = "urn:fabric:xacml:attribute:resource-component"
A_V4EXT = "urn:fabric:xacml:attribute:resource-fabnetv4-ext-site"
A_V6EXT = "urn:fabric:xacml:attribute:resource-fabnetv6-ext-site"
A_MIRROR = "urn:fabric:xacml:attribute:resource-mirrorsite"
A_FAC = "urn:fabric:xacml:attribute:resource-facility-port"
A_RPROJ = "urn:fabric:xacml:attributes:resource-project"
A_RSUBJ = "urn:fabric:xacml:attributes:resource-subject"
A_ACTION = "urn:oasis:names:tc:xacml:1.0:action:action-id"
A_SUBJ = "urn:oasis:names:tc:xacml:1.0:subject:subject-id"
A_SPROJ = "urn:fabric:xacml:attributes:subject-project"
A_TAG = "urn:fabric:xacml:attributes:project-tag"
SHORT = {A_TYPE: "resource-type", A_CPU: "cpu", A_RAM: "ram", A_DISK: "disk", A_BW: "bw", A_SITE: "site",
         A_COMP: "component", A_V4EXT: "fabnetv4-ext-site", A_V6EXT: "fabnetv6-ext-site", A_MIRROR: "mirror-site",
         A_FAC: "facility-port", A_RPROJ: "resource-project", A_RSUBJ: "resource-subject", A_ACTION: "action-id",
         A_SUBJ: "subject-id", A_SPROJ: "subject-project", A_TAG: "project-tag"}
_XS = "http://www.w3.org/2001/XMLSchema#"
CAT_RES = "urn:oasis:names:tc:xacml:3.0:attribute-category:resource"
CAT_ACT = "urn:oasis:names:tc:xacml:3.0:attribute-category:action"
CAT_SUBJ = "urn:oasis:names:tc:xacml:1.0:subject-category:access-subject"
PDP_TABLE = {
    A_TYPE: (_XS + "string", CAT_RES), A_CPU: (_XS + "integer", CAT_RES), A_RAM: (_XS + "integer", CAT_RES),
    A_DISK: (_XS + "integer", CAT_RES), A_BW: (_XS + "integer", CAT_RES), A_SITE: (_XS + "string", CAT_RES),
    A_COMP: (_XS + "string", CAT_RES), A_V4EXT: (_XS + "string", CAT_RES), A_V6EXT: (_XS + "string", CAT_RES),
    A_MIRROR: (_XS + "string", CAT_RES), A_FAC: (_XS + "string", CAT_RES), A_RPROJ: (_XS + "string", CAT_RES),
    A_RSUBJ: (_XS + "string", CAT_RES), A_ACTION: (_XS + "string", CAT_ACT), A_SUBJ: (_XS + "string", CAT_SUBJ),
    A_SPROJ: (_XS + "string", CAT_SUBJ), A_TAG: (_XS + "string", CAT_SUBJ),
}
RESOURCE_ATTRS = [A_TYPE, A_CPU, A_RAM, A_DISK, A_BW, A_SITE, A_COMP, A_V4EXT, A_V6EXT, A_MIRROR, A_FAC]
LOG_FIELDS = ["vm_count", "p4_count", "core_count", "nodes", "components", "services", "facilities", "sites"]

# discriminated signature of the known defect: a mirror site is missing in a creation order in which an in-slice
# mirror service is stored after an out-of-slice mirror service of the same site (see findings_draft/C11.md)
SIG_MIRROR_POP = "C11/authz/tally/mirror-site/missing/in-slice-after-out-of-slice-same-site"


# ----------------------------------------------------------------------------------------------- generator

_model = st.sampled_from(sorted(MODELS) +
                         ["SmartNIC_ConnectX_6", "SmartNIC_ConnectX_5", "SmartNIC_BlueField_2_ConnectX_6"] * 2 +
                         ["FPGA_Xilinx_U280", "FPGA_Xilinx_SN1022", "SharedNIC_ConnectX_6", "SharedNIC_OpenStack_vNIC"])
_nic2 = st.sampled_from(["SmartNIC_ConnectX_6", "SmartNIC_ConnectX_5", "SmartNIC_BlueField_2_ConnectX_6",
                         "FPGA_Xilinx_U280"])
_cap_val = st.sampled_from([1, 2, 2, 4, 8, 10, 16, 32, 64, 100])


@st.composite
def _caps(draw):
    m = draw(st.integers(0, 9))
    if m == 0:
        return None
    if m == 1:      # partial: core always, ram/disk maybe
        d = {"core": draw(_cap_val)}
        for f in ("ram", "disk"):
            if draw(st.booleans()):
                d[f] = draw(_cap_val)
        return d
    return {"core": draw(_cap_val), "ram": draw(_cap_val), "disk": draw(_cap_val)}


@st.composite
def _node(draw, nsites):
    typ = draw(st.sampled_from(["VM"] * 7 + ["Container"] + ["Switch"] * 2))
    site = draw(st.integers(0, nsites - 1))
    if typ == "Switch":
        # a switch may be given capacities after it was added (add_switch takes none): they are requested too
        return {"site": site, "type": typ, "caps": draw(st.one_of(st.none(), st.none(), _caps())), "comps": []}
    comps = draw(st.lists(_model, min_size=0, max_size=2))
    if draw(st.integers(0, 3)):      # 3 of 4 nodes carry at least one two-port dedicated NIC (attachable everywhere)
        comps.insert(draw(st.integers(0, len(comps))), draw(_nic2))
    return {"site": site, "type": typ, "caps": draw(_caps()), "comps": comps}


_svc_type = st.sampled_from(["PortMirror"] * 10 + ["FABNetv4Ext"] * 2 + ["FABNetv6Ext"] * 2 + ["L2Bridge"] * 2 +
                            ["L2STS"] * 2 + ["L2PTP"] * 2 + ["FABNetv4", "FABNetv6", "L2Multisite", "L3VPN"])


@st.composite
def _svc(draw):
    typ = draw(_svc_type)
    n = draw(st.integers(SVC[typ][0], SVC[typ][1]))
    return {"type": typ,
            "bw": draw(st.one_of(st.none(), st.sampled_from([1, 5, 10, 25, 100]))),
            "ifs": draw(st.lists(st.integers(0, 7), min_size=n, max_size=n)),
            "labels": draw(st.lists(st.sampled_from([None, None, 0, 0, 1, 2]), min_size=n, max_size=n)),
            "mirror": [draw(st.sampled_from(["in", "out"])), draw(st.integers(0, 2))]}


@st.composite
def _order(draw, nunits, nsvcs):
    units = list(range(nunits))
    svcs = list(range(nsvcs))
    return {"units": draw(st.one_of(st.just(units[::-1]), st.permutations(units))),
            "svcs": draw(st.one_of(st.just(svcs[::-1]), st.permutations(svcs))),
            "early": draw(st.booleans())}


@st.composite
def _case(draw):
    nsites = draw(st.sampled_from([1, 2, 2, 2, 3, 3]))
    nodes = draw(st.lists(_node(nsites), min_size=1, max_size=5))
    facs = draw(st.lists(st.fixed_dictionaries({"site": st.integers(0, 2),
                                                "bw": st.one_of(st.none(), st.sampled_from([1, 10, 100])),
                                                # (the facility's own service is VLAN by default; any type is legal)
                                                "nstype": st.sampled_from([None, None, None, "MPLS"])}),
                         min_size=0, max_size=draw(st.sampled_from([0, 1, 1, 2, 3]))))
    svcs = draw(st.lists(_svc(), min_size=draw(st.sampled_from([0, 1, 1, 2, 2, 2, 3, 3])), max_size=5))
    nu, ns = len(nodes) + len(facs), len(svcs)
    orders = [{"units": list(range(nu)), "svcs": list(range(ns)), "early": False}]
    orders += draw(st.lists(_order(nu, ns), min_size=1, max_size=draw(st.sampled_from([1, 2, 2, 3, 5]))))
    return {"nodes": nodes, "facs": facs, "svcs": svcs, "orders": orders}


def strategy(tier):
    return _case()


# ----------------------------------------------------------------------------------------------- resolution

def _resolve(case):
    """Pure function of the description: which ports every service uses, which mirror services are in-slice."""
    nodes, facs, ports = [], [], []
    for i, nd in enumerate(case.get("nodes") or []):
        typ = nd.get("type", "VM")
        site = SITES[int(nd.get("site", 0)) % len(SITES)]
        name = f"nd{i}"
        rec = {"name": name, "site": site, "type": typ, "caps": None, "comps": []}
        caps = nd.get("caps")
        if caps:
            rec["caps"] = {f: int(caps[f]) for f in ("core", "ram", "disk") if caps.get(f)}
        if typ == "Switch":
            for p in range(1, SWITCH_PORTS + 1):
                ports.append({"key": ("n", i, None, f"p{p}"), "unit": ("n", i), "site": site, "kind": "sw",
                              "ded": True})
        else:
            for j, model in enumerate(nd.get("comps") or []):
                ctype, plist = MODELS[model]
                cname = f"c{j}"
                rec["comps"].append((cname, model, ctype))
                for suffix, ded in plist:
                    ports.append({"key": ("n", i, cname, f"{cname}-{suffix}"), "unit": ("n", i), "site": site,
                                  "kind": "comp", "ded": ded})
        nodes.append(rec)
    for i, fc in enumerate(case.get("facs") or []):
        site = SITES[int(fc.get("site", 0)) % len(SITES)]
        facs.append({"name": f"fac{i}", "site": site, "bw": fc.get("bw"), "nstype": fc.get("nstype")})
        ports.append({"key": ("f", i, None, f"fac{i}-int"), "unit": ("f", i), "site": site, "kind": "fac",
                      "ded": False})

    free = list(ports)
    svcs, dropped = [], 0
    for j, sv in enumerate(case.get("svcs") or []):
        typ = sv["type"]
        mn, mx, maxsites, kinds, ded_only = SVC[typ]
        ifs = list(sv.get("ifs") or [])[:mx]
        lbls = list(sv.get("labels") or [])
        chosen, mine = [], list(free)
        for k, pick in enumerate(ifs):
            sites = {p["site"] for p in chosen}
            cand = [p for p in mine if p["kind"] in kinds and (p["ded"] or p["kind"] == "fac" or not ded_only)
                    and (maxsites is None or len(sites | {p["site"]}) <= maxsites)]
            if not cand:
                break
            p = cand[int(pick) % len(cand)]
            mine.remove(p)
            lb = lbls[k] if k < len(lbls) else None
            chosen.append(dict(p, label=(f"PORT{int(lb)}" if lb is not None and p["kind"] != "fac" else None)))
        if len(chosen) < mn:
            dropped += 1
            continue
        free = mine
        sites = sorted({p["site"] for p in chosen})
        svcs.append({"idx": j, "name": f"sv{j}", "type": typ, "bw": sv.get("bw") or None, "ports": chosen,
                     "site": sites[0] if len(sites) == 1 else None, "mirror": list(sv.get("mirror") or ["out", 0])})
    labelset = sorted({p["label"] for s in svcs for p in s["ports"] if p["label"]})
    for s in svcs:
        if s["type"] == "PortMirror":
            how, k = s["mirror"][0], int(s["mirror"][1])
            s["mirror_port"] = labelset[k % len(labelset)] if (how == "in" and labelset) else f"EXT{k}"
            s["inside"] = s["mirror_port"] in labelset
    return {"nodes": nodes, "facs": facs, "svcs": svcs, "dropped": dropped}


def _in_after_out(plan, seq):
    """Input-shape discriminator: an in-slice mirror service created after an out-of-slice one of the same site."""
    out_sites = set()
    for kind, k in seq:
        if kind != "s" or plan["svcs"][k]["type"] != "PortMirror":
            continue
        sv = plan["svcs"][k]
        if sv["inside"] and sv["site"] in out_sites:
            return True
        if not sv["inside"]:
            out_sites.add(sv["site"])
    return False


def _perm(p, n):
    out = []
    for x in p or []:
        if isinstance(x, int) and not isinstance(x, bool) and 0 <= x < n and x not in out:
            out.append(x)
    return out + [i for i in range(n) if i not in out]


def _sequence(plan, order):
    """Creation sequence (list of ('n'|'f'|'s', index into plan lists)) of one order."""
    nn, nf = len(plan["nodes"]), len(plan["facs"])
    by_idx = {s["idx"]: k for k, s in enumerate(plan["svcs"])}
    # service permutation is over the description's services; services that were not built are skipped
    nsv_desc = max([s["idx"] for s in plan["svcs"]] + [-1]) + 1
    sperm = [by_idx[j] for j in _perm(order.get("svcs"), nsv_desc) if j in by_idx]
    units = [("n", u) if u < nn else ("f", u - nn) for u in _perm(order.get("units"), nn + nf)]
    seq, made, pending = [], set(), list(sperm)
    for u in units:
        seq.append(u)
        made.add(u)
        if order.get("early"):
            for k in list(pending):
                if all(p["unit"] in made for p in plan["svcs"][k]["ports"]):
                    seq.append(("s", k))
                    pending.remove(k)
    seq.extend(("s", k) for k in pending)
    return seq


# ----------------------------------------------------------------------------------------------- execution

def _build(plan, seq):
    """Build the slice in the given creation sequence with the user API; returns a validated topology."""
    from fim.graph.networkx_property_graph import NetworkXGraphStorage
    from fim.user.topology import ExperimentTopology
    from fim.user.component import ComponentModelType
    from fim.user.node import NodeType
    from fim.slivers.capacities_labels import Capacities, Labels
    from fim.slivers.network_service import ServiceType

    NetworkXGraphStorage.storage_instance = None
    t = ExperimentTopology()
    ifaces = {}
    for kind, k in seq:
        if kind == "n":
            nd = plan["nodes"][k]
            if nd["type"] == "Switch":
                n = t.add_switch(name=nd["name"], site=nd["site"], nports=SWITCH_PORTS)
                if nd["caps"] is not None:
                    n.capacities = Capacities(**nd["caps"])
                got = {i.name: i for i in n.interface_list}
                for p in range(1, SWITCH_PORTS + 1):
                    ifaces[("n", k, None, f"p{p}")] = got[f"p{p}"]
            else:
                kw = {}
                if nd["caps"] is not None:
                    kw["capacities"] = Capacities(**nd["caps"])
                n = t.add_node(name=nd["name"], site=nd["site"], ntype=NodeType[nd["type"]], **kw)
                for cname, model, ctype in nd["comps"]:
                    c = n.add_component(name=cname, model_type=ComponentModelType[model])
                    got = {i.name: i for i in c.interface_list}
                    want = {f"{cname}-{sfx}" for sfx, _ in MODELS[model][1]}
                    if set(got) != want or str(c.type) != ctype:
                        raise RuntimeError(f"C11 harness: catalogue table out of date for {model}: {sorted(got)}")
                    for iname, i in got.items():
                        ifaces[("n", k, cname, iname)] = i
        elif kind == "f":
            fc = plan["facs"][k]
            kw = {"capacities": Capacities(bw=fc["bw"])} if fc["bw"] else {}
            if fc.get("nstype"):
                kw["nstype"] = ServiceType[fc["nstype"]]
            f = t.add_facility(name=fc["name"], site=fc["site"], **kw)
            ifaces[("f", k, None, f"{fc['name']}-int")] = f.interface_list[0]
        else:
            sv = plan["svcs"][k]
            kw = {"capacities": Capacities(bw=sv["bw"])} if sv["bw"] else {}
            objs = [ifaces[p["key"]] for p in sv["ports"]]
            if sv["type"] == "PortMirror":
                t.add_port_mirror_service(name=sv["name"], from_interface_name=sv["mirror_port"],
                                          to_interface=objs[0], **kw)
            else:
                t.add_network_service(name=sv["name"], nstype=ServiceType[sv["type"]], interfaces=objs, **kw)
            for p, o in zip(sv["ports"], objs):
                if p["label"]:
                    peers = o.get_peers()
                    if not peers or len(peers) != 1:
                        raise RuntimeError("C11 harness: connected interface has no single service-side peer")
                    peers[0].set_property("labels", Labels(local_name=p["label"]))
    # the model as a user would hand it over before ever validating it (the collector validates what it rebuilds)
    early = t.serialize()
    t.validate()
    return t, early


def _norm_attrs(az):
    out = {}
    for k, v in az.attributes.items():     # items(): never index the defaultdict behind the view
        vals = sorted(list(v), key=lambda x: (type(x).__name__, str(x)))
        if vals:
            out[k] = vals
    return out


def _norm_log(lc):
    a = dict(lc.attributes.items())
    out = {}
    for f in ("vm_count", "p4_count", "core_count"):
        out[f] = a.get(f)
    out["nodes"] = sorted((c.core, c.ram, c.disk) for c in a.get("nodes", []))
    out["components"] = dict(sorted((str(k), v) for k, v in a.get("components", {}).items()))
    out["services"] = sorted((str(t), bw if bw else 0) for t, bw in a.get("services", [])
                             if str(t) not in IMPLICIT_SERVICE_TYPES)
    out["facilities"] = sorted(a.get("facilities", ()))
    out["sites"] = sorted(a.get("sites", ()))
    return out


def _tally(plan):
    nodes, facs, svcs = plan["nodes"], plan["facs"], plan["svcs"]
    node_sites = {n["site"] for n in nodes}
    fac_sites = {f["site"] for f in facs}
    capn = [n for n in nodes if n["caps"]]
    comps = [ct for n in nodes for _, _, ct in n["comps"]]
    exp = {
        A_TYPE: ["switch-p4"] if any(n["type"] == "Switch" for n in nodes) else ["sliver"],
        A_CPU: [n["caps"]["core"] for n in capn if n["caps"].get("core")],
        A_RAM: [n["caps"]["ram"] for n in capn if n["caps"].get("ram")],
        A_DISK: [n["caps"]["disk"] for n in capn if n["caps"].get("disk")],
        A_BW: [s["bw"] for s in svcs if s["bw"]],
        A_COMP: comps,
        A_FAC: [f["name"] for f in facs],
        A_V4EXT: sorted({s["site"] for s in svcs if s["type"] == "FABNetv4Ext"}),
        A_V6EXT: sorted({s["site"] for s in svcs if s["type"] == "FABNetv6Ext"}),
        A_MIRROR: sorted({s["site"] for s in svcs if s["type"] == "PortMirror" and not s["inside"]}),
    }
    vms = [n for n in nodes if n["type"] == "VM"]
    cts = [n for n in nodes if n["type"] == "Container"]

    def cap3(n):
        return (n["caps"].get("core", 0), n["caps"].get("ram", 0), n["caps"].get("disk", 0))

    log = {
        "vm_count": len(vms),
        "p4_count": sum(1 for n in nodes if n["type"] == "Switch"),
        "core_count": [sum(n["caps"].get("core", 0) for n in vms if n["caps"]),
                       sum(n["caps"].get("core", 0) for n in vms + cts if n["caps"])],
        "nodes": [sorted(cap3(n) for n in vms if n["caps"]), sorted(cap3(n) for n in vms + cts if n["caps"])],
        "components": dict(sorted(Counter(comps).items())),
        "services": sorted((s["type"], s["bw"] or 0) for s in svcs),
        "facilities": sorted(f["name"] for f in facs),
    }
    return exp, log, node_sites, fac_sites


def _check_pdp(az, snapshot, add):
    """Clause 4: every collected attribute exactly once, right category and datatype, values unchanged."""
    extra = {A_SUBJ: ["user@example.org"], A_SPROJ: ["Project1"], A_TAG: ["Tag1", "Tag2"], A_ACTION: ["create"],
             A_RSUBJ: ["user@example.org"], A_RPROJ: ["Project1"]}
    try:
        az.set_subject_attributes(subject_id="user@example.org", project=["Project1"], project_tag=["Tag1", "Tag2"])
        az.set_action("create")
        az.set_resource_subject_and_project(subject_id="user@example.org", project="Project1")
    except Exception as e:
        add("C11/pdp/set-attributes/raised", f"{type(e).__name__}: {e}")
        return
    want = {k: list(v) for k, v in snapshot.items()}
    want.update(extra)
    for form in ("json", "dict"):
        try:
            req = az.transform_to_pdp_request(as_json=(form == "json"))
            if form == "json":
                req = json.loads(req)
        except Exception as e:
            add(f"C11/pdp/{form}/raised", f"{type(e).__name__}: {e}")
            continue
        r = req.get("Request") if isinstance(req, dict) else None
        cats = r.get("Category") if isinstance(r, dict) else None
        if not isinstance(cats, list) or sorted(c.get("CategoryId") for c in cats) != sorted(
                [CAT_RES, CAT_ACT, CAT_SUBJ]):
            add(f"C11/pdp/{form}/envelope", f"unexpected request envelope: {str(req)[:300]}")
            continue
        seen = Counter()
        for c in cats:
            for at in c.get("Attribute", []):
                aid = at.get("AttributeId")
                seen[aid] += 1
                if aid not in want:
                    if at.get("Value"):
                        add(f"C11/pdp/{form}/spurious", f"attribute {aid} in the request was never collected")
                    continue
                dt, cat = PDP_TABLE[aid]
                if c.get("CategoryId") != cat:
                    add(f"C11/pdp/{form}/category/{SHORT[aid]}", f"{aid} placed in {c.get('CategoryId')}, table: {cat}")
                if at.get("DataType") != dt:
                    add(f"C11/pdp/{form}/datatype/{SHORT[aid]}", f"{aid} has DataType {at.get('DataType')}, table: {dt}")
                if sorted(map(repr, at.get("Value") or [])) != sorted(map(repr, want[aid])):
                    add(f"C11/pdp/{form}/value/{SHORT[aid]}", f"{aid}: request value {at.get('Value')} != collected "
                        f"{want[aid]}")
        for aid in want:
            if seen[aid] == 0:
                add(f"C11/pdp/{form}/missing/{SHORT[aid]}", f"collected attribute {aid}={want[aid]} not in the request")
            elif seen[aid] > 1:
                add(f"C11/pdp/{form}/duplicate/{SHORT[aid]}", f"attribute {aid} appears {seen[aid]} times")


def run_case(case):
    from fim.graph.networkx_property_graph import NetworkXGraphStorage
    from fim.graph.slices.networkx_asm import NetworkXGraphImporter, NetworkxASM, NetworkXASMFactory
    from fim.authz.attribute_collector import ResourceAuthZAttributes
    from fim.logging.log_collector import LogCollector

    NetworkXGraphStorage.storage_instance = None
    v, seen_sigs = [], set()

    def add(sig, msg):
        if sig not in seen_sigs:
            seen_sigs.add(sig)
            v.append((sig, msg))

    plan = _resolve(case)
    exp, exp_log, node_sites, fac_sites = _tally(plan)
    orders = list(case.get("orders") or [])
    if not orders:
        orders = [{}]
    seqs = [_sequence(plan, o) for o in orders]

    def names(seq):
        return [plan["nodes"][k]["name"] if kd == "n" else plan["facs"][k]["name"] if kd == "f"
                else plan["svcs"][k]["name"] for kd, k in seq]

    early_used = [False]
    results = []          # per order: dict(topo=attrs|None, asm=..., ltopo=..., lasm=...)
    tally_failed = set()  # attributes / log fields whose tally failed in some order (root cause reported there)
    for oi, seq in enumerate(seqs):
        try:
            t, early = _build(plan, seq)
            serial = t.serialize()
            if oi == 1 or len(seqs) == 1:
                # clause 3 from a model serialised BEFORE validation (sites of services not yet inferred in it)
                serial = early
                early_used[0] = True
        except Exception as e:   # precondition of the property (a valid slice exists) - harness/domain error
            raise RuntimeError(f"C11 harness: could not build/serialise the slice in order {names(seq)}: "
                               f"{type(e).__name__}: {e}; case={json.dumps(case, sort_keys=True)}") from e
        ctx = f"creation order #{oi} {names(seq)}"
        res = {"topo": None, "asm": None, "ltopo": None, "lasm": None}

        # ---- collect from the validated topology object: authorization attributes, accounting
        az = ResourceAuthZAttributes()
        try:
            az.collect_resource_attributes(source=t)
            res["topo"] = _norm_attrs(az)
        except Exception as e:
            add("C11/authz/collect-topo/raised", f"{type(e).__name__}: {e} [{ctx}]")
        lc = LogCollector()
        try:
            lc.collect_resource_attributes(source=t)
            res["ltopo"] = _norm_log(lc)
        except Exception as e:
            add("C11/log/collect-topo/raised", f"{type(e).__name__}: {e} [{ctx}]")

        # ---- collect from the serialised model (this path costs 60 % of an order: first ASM_ORDERS orders only)
        if oi < ASM_ORDERS:
            try:
                # imported under a fresh graph id into the same store (as test/attribute_collector_test.py does)
                asm = NetworkXASMFactory.create(
                    NetworkXGraphImporter().import_graph_from_string(graph_string=serial))
            except Exception as e:
                raise RuntimeError(f"C11 harness: could not import the serialised slice: {type(e).__name__}: {e}; "
                                   f"case={json.dumps(case, sort_keys=True)}") from e
            if not isinstance(asm, NetworkxASM):
                raise RuntimeError("C11 harness: NetworkXASMFactory did not return a NetworkxASM")
            az2 = ResourceAuthZAttributes()
            try:
                az2.collect_resource_attributes(source=asm)
                res["asm"] = _norm_attrs(az2)
            except Exception as e:
                add("C11/authz/collect-asm/raised", f"{type(e).__name__}: {e} [{ctx}]")
            lc2 = LogCollector()
            try:
                lc2.collect_resource_attributes(source=asm)
                res["lasm"] = _norm_log(lc2)
            except Exception as e:
                add("C11/log/collect-asm/raised", f"{type(e).__name__}: {e} [{ctx}]")
        results.append(res)

        # ---- clause 1: authorization attributes == direct tally (topology source)
        got = res["topo"]
        if got is not None:
            for k in sorted(got):
                if k not in RESOURCE_ATTRS:
                    add("C11/authz/tally/unexpected-attribute", f"attribute {k}={got[k]} collected from a slice [{ctx}]")
            # every expected value is named, nothing is named that is not in the slice (value *sets*: the
            # statement says "names every ...", the collector documents its lists as stand-ins for sets)
            for attr in (A_TYPE, A_CPU, A_RAM, A_DISK, A_BW, A_COMP, A_FAC, A_V4EXT, A_V6EXT, A_MIRROR):
                have = {x for x in got.get(attr, []) if x not in (0, None)}
                want = set(exp[attr])
                missing, spurious = sorted(want - have, key=str), sorted(have - want, key=str)
                if missing:
                    tally_failed.add(attr)
                    sig = f"C11/authz/tally/{SHORT[attr]}/missing"
                    if attr == A_MIRROR and _in_after_out(plan, seq):
                        sig = SIG_MIRROR_POP
                    add(sig, f"{attr}: collected {got.get(attr, 'ABSENT')}, tally of the slice "
                        f"{sorted(want, key=str)}: missing {missing} [{ctx}]")
                if spurious:
                    tally_failed.add(attr)
                    add(f"C11/authz/tally/{SHORT[attr]}/spurious",
                        f"{attr}: collected {got.get(attr)}, tally of the slice {sorted(want, key=str)}: "
                        f"not in the slice {spurious} [{ctx}]")
            for attr in (A_TYPE, A_FAC, A_V4EXT, A_V6EXT, A_MIRROR):    # set-valued attributes list a value once
                vals = got.get(attr, [])
                if len(vals) != len(set(vals)):
                    tally_failed.add(attr)
                    add(f"C11/authz/tally/{SHORT[attr]}/repeated", f"{attr}: collected {vals} [{ctx}]")
            have = got.get(A_SITE, [])
            if not node_sites <= set(have):
                tally_failed.add(A_SITE)
                add("C11/authz/tally/site/missing", f"{A_SITE}: collected {have}, node sites {sorted(node_sites)} [{ctx}]")
            elif not fac_sites <= set(have):
                # "every site used": a site at which the slice only has a facility is a site used as well
                tally_failed.add(A_SITE)
                add("C11/authz/tally/site/facility-site-missing",
                    f"{A_SITE}: collected {have}, facility sites {sorted(fac_sites)} [{ctx}]")
            if not set(have) <= (node_sites | fac_sites) or len(have) != len(set(have)):
                tally_failed.add(A_SITE)
                add("C11/authz/tally/site/spurious", f"{A_SITE}: collected {have}, sites of the slice "
                    f"{sorted(node_sites | fac_sites)} [{ctx}]")
            # ---- clause 4: PDP request
            _check_pdp(az, got, add)

        # ---- clause 5: accounting == direct tally (topology source)
        lg = res["ltopo"]
        if lg is not None:
            for f in ("vm_count", "p4_count", "components", "services", "facilities"):
                if lg[f] != exp_log[f]:
                    tally_failed.add(f)
                    add(f"C11/log/tally/{f}", f"{f}: collected {lg[f]}, tally of the slice {exp_log[f]} [{ctx}]")
            for f in ("core_count", "nodes"):
                if lg[f] not in exp_log[f]:
                    tally_failed.add(f)
                    add(f"C11/log/tally/{f}", f"{f}: collected {lg[f]}, tally of the slice {exp_log[f][0]} "
                        f"(VMs) / {exp_log[f][1]} (VMs+containers) [{ctx}]")
            if not node_sites <= set(lg["sites"]) or not set(lg["sites"]) <= (node_sites | fac_sites):
                tally_failed.add("sites")
                add("C11/log/tally/sites", f"sites: collected {lg['sites']}, node sites {sorted(node_sites)}, "
                    f"facility sites {sorted(fac_sites)} [{ctx}]")

        # ---- clause 3: topology object vs serialised model
        if res["topo"] is not None and res["asm"] is not None:
            for attr in sorted(set(res["topo"]) | set(res["asm"])):
                if res["topo"].get(attr) != res["asm"].get(attr):
                    add(f"C11/authz/topo-vs-asm/{SHORT.get(attr, 'other')}",
                        f"{attr}: from topology {res['topo'].get(attr, 'ABSENT')}, from serialised model "
                        f"{res['asm'].get(attr, 'ABSENT')} [{ctx}]")
        if res["ltopo"] is not None and res["lasm"] is not None:
            for f in LOG_FIELDS:
                if res["ltopo"][f] != res["lasm"][f]:
                    add(f"C11/log/topo-vs-asm/{f}", f"{f}: from topology {res['ltopo'][f]}, from serialised model "
                        f"{res['lasm'][f]} [{ctx}]")

    # ---- clause 2: identical across creation orders (attributes whose tally already failed are the same root
    #      cause and are reported there; the tally itself does not depend on the order)
    for src, fields, prefix in (("topo", None, "authz"), ("ltopo", LOG_FIELDS, "log")):
        base = results[0][src]
        for oi in range(1, len(results)):
            cur = results[oi][src]
            if base is None or cur is None:
                continue
            for f in (fields or sorted(set(base) | set(cur))):
                if f in tally_failed:
                    continue
                if base.get(f) != cur.get(f):
                    add(f"C11/{prefix}/order/{SHORT.get(f, f if fields else 'other')}",
                        f"{f}: {base.get(f, 'ABSENT')} in order {names(seqs[0])} but {cur.get(f, 'ABSENT')} in order "
                        f"{names(seqs[oi])}")

    # ---- labels / non-triviality
    svcs = plan["svcs"]
    pm = [s for s in svcs if s["type"] == "PortMirror"]
    mixed = any({True, False} <= {s["inside"] for s in pm if s["site"] == site} for site in SITES)
    ext = any(s["type"] in ("FABNetv4Ext", "FABNetv6Ext") for s in svcs)
    distinct_seqs = len({tuple(s) for s in seqs})
    labels = []
    if len(node_sites) >= 2:
        labels.append("multi-site")
    if mixed:
        labels.append("mirror-mixed-site")
    if any(not s["inside"] for s in pm):
        labels.append("mirror-out")
    if any(s["inside"] for s in pm):
        labels.append("mirror-in")
    if ext:
        labels.append("ext")
    if plan["facs"]:
        labels.append("facility")
    if any(n["type"] == "Switch" for n in plan["nodes"]):
        labels.append("switch")
    if any(n["type"] == "Container" for n in plan["nodes"]):
        labels.append("container")
    if any(n["caps"] is not None and len(n["caps"]) < 3 for n in plan["nodes"]):
        labels.append("partial-caps")
    if fac_sites - node_sites:
        labels.append("facility-only-site")
    if plan["dropped"]:
        labels.append("service-not-buildable")
    if not svcs:
        labels.append("no-service")
    if distinct_seqs >= 2:
        labels.append("orders-distinct>=2")
    if distinct_seqs >= 3:
        labels.append("orders-distinct>=3")
    labels.append(f"services={min(len(svcs), 5)}")
    if early_used[0]:
        labels.append("asm-from-model-serialised-before-validation")
    nt = bool(len(node_sites) >= 2 and distinct_seqs >= 2 and (mixed or ext or plan["facs"]))
    return {"v": v, "nt": nt, "labels": labels}


# Directed probe for the known defect (DESIGN.md §C11 "expected state"): one site, an out-of-slice mirror
# service created before an in-slice one -> the in-slice exemption pops the other service's site.
PROBES = {
    SIG_MIRROR_POP: {
        "nodes": [{"site": 0, "type": "VM", "caps": {"core": 2, "ram": 8, "disk": 10},
                   "comps": ["SmartNIC_ConnectX_6", "SmartNIC_ConnectX_5"]}],
        "facs": [],
        "svcs": [{"type": "L2Bridge", "bw": None, "ifs": [0], "labels": [0], "mirror": ["out", 0]},
                 {"type": "PortMirror", "bw": None, "ifs": [0], "labels": [None], "mirror": ["out", 0]},
                 {"type": "PortMirror", "bw": None, "ifs": [0], "labels": [None], "mirror": ["in", 0]}],
        "orders": [{"units": [0], "svcs": [0, 1, 2], "early": False},
                   {"units": [0], "svcs": [0, 2, 1], "early": False}],
    },
}
