"""
C01 - model serialization round trip is lossless and re-importable (DESIGN.md §C01).

case (Domain A, raw graphs):
  {"kind": "raw", "fl": flavour, "desc": raw graph description (engines/store.py), "pre": [raw descriptions]}
case (Domain B, API-built models):
  {"kind": "topo", "flavour": "experiment"|"substrate", "prog": topology program (engines/topo.py)}
Oracle clauses (numbers as in DESIGN.md): 1 content equal, 2 GraphID stamping, 3 re-serialisation idempotent (read
by an independent lxml/json reader keyed by NodeID), 4 GraphML label markup, 5 validate_graph passes, 7 mixed
GraphIDs rejected by the direct entry points with the store unchanged; Domain B adds 6 (deep slivers equal).
"""
import json
import os
import tempfile

from hypothesis import strategies as st
from fimverif.engines import store, values

ID = "C01"
RULE = ("Domain A: Hypothesis-generated raw property graphs (1-8 nodes, 0-12 edges, distinct non-empty NodeIDs of "
        "XML-legal text, classes/relations from the FIM vocabulary or arbitrary identifiers, 0-5 extra str/int "
        "properties per node and edge with 'hard' text boosted, 0-2 other graphs already in the store, in a share of "
        "the shared-store cases joined to the model first by merge_nodes / re-homing one node, which leaves edges "
        "between the graphs) on both "
        "store flavours; each serialized to GraphML and JSON node-link and re-imported through "
        "import_graph_from_string (fresh id / None id / same id), _string_direct, _from_file, _from_file_direct. "
        "Domain B: models built by generated topology programs (experiment and substrate flavour) round-tripped "
        "through the importer entry points and Topology.serialize/load. Non-trivial: >=2 nodes, >=1 edge and >=1 hard "
        "value (contains one of <>&\"' or a non-ASCII character, leading/trailing blank, tab/newline, empty, or is "
        "an int). Distinct by hash of the case.")
ASSUMPTIONS = ["'\\r' excluded from text (XML end-of-line normalisation by the parser, not fim behaviour)",
               "property names are identifiers; values None/bool/float are outside the quantifier",
               "empty graphs are outside the domain (serialize_graph documents returning None)",
               "on the per-graph store a re-import under an existing id is a documented skip (C04's subject)"]
BUDGET = {"quick": 1100, "thorough": 12000}
MIN_LABEL_FRACTION = {"nontrivial": 0.4, "has-int": 0.25, "has-hard-text": 0.4, "disjoint": 0.15, "mixed-typing": 0.03,
                      "topo": 0.08, "raw": 0.6}

CLASSES = ["NetworkNode", "Component", "NetworkService", "ConnectionPoint", "Link", "CompositeNode", "CompositeLink",
           "MeasurementPoint"]
RELS = ["has", "connects", "depends", "adapts", "peers"]
PNAMES = ["p", "q", "Name", "Type", "Site", "Model", "x_1", "Details", "StitchNode"]

_val = st.one_of(values.xml_text(), values.xml_text(), values.big_ints)
_props = st.dictionaries(st.sampled_from(PNAMES), _val, max_size=5)
_cls = st.one_of(st.sampled_from(CLASSES), st.sampled_from(CLASSES), values.ident)
_rel = st.one_of(st.sampled_from(RELS), st.sampled_from(RELS), values.ident)


@st.composite
def raw_desc(draw, max_nodes=8, max_edges=12, simple_ids=False):
    if simple_ids:
        ids = draw(st.lists(st.sampled_from(["a", "b", "c", "d", "e"]), min_size=1, max_size=3, unique=True))
    else:
        ids = draw(st.lists(st.one_of(values.xml_text(min_size=1, max_size=8),
                                      st.sampled_from(["n1", "n2", "1", "2", "node-α"])),
                            min_size=draw(st.sampled_from([1, 2, 2, 3])), max_size=max_nodes, unique=True))
        ids = [i for i in ids if i != ""] or ["n"]
    n = len(ids)
    nodes = [{"id": i, "cls": draw(_cls), "props": draw(_props)} for i in ids]
    pairs = [(a, b) for a in range(n) for b in range(a + 1, n)]
    edges = []
    if pairs:
        chosen = draw(st.lists(st.sampled_from(pairs), min_size=draw(st.sampled_from([0, 1, 1])),
                               max_size=max_edges, unique=True))
        edges = [{"a": a, "b": b, "rel": draw(_rel), "props": draw(_props)} for a, b in chosen]
    return {"nodes": nodes, "edges": edges}


@st.composite
def _raw_case(draw):
    case = {"kind": "raw", "fl": draw(st.sampled_from(["shared", "shared", "disjoint"])),
            "desc": draw(raw_desc()),
            "pre": draw(st.lists(raw_desc(max_nodes=3, max_edges=2, simple_ids=True), max_size=2))}
    if case["fl"] == "shared" and case["pre"] and draw(st.integers(0, 2)) == 0:
        # the model under test is joined to a neighbour graph first: merge_nodes with a twin node of that graph, or
        # one of the neighbour's nodes re-homed into it - both leave edges between the two graphs in the store
        case["cross"] = draw(st.lists(st.fixed_dictionaries({
            "how": st.sampled_from(["merge", "merge", "rehome"]), "pre": st.integers(0, len(case["pre"]) - 1),
            "j": st.integers(0, 2), "i": st.integers(0, 7)}), min_size=1, max_size=2))
    return case


@st.composite
def _topo_case(draw):
    from fimverif.engines import topo
    flavour = draw(st.sampled_from(["experiment", "experiment", "substrate"]))
    w = {"validate": 0, "serialize_load": 0, "prune": 0, "connect": 8, "add_child": 5, "peer": 3, "add_link": 6}
    prog = draw(topo.program(flavour, max_ops=22, min_ops=6, weights=w))
    # free-text properties with adversarial content on some elements
    extra = draw(st.lists(st.builds(
        lambda kind, k, txt, pn: {"op": "set_prop", "kind": kind, "k": k, "pname": pn, "val": txt, "h": 1},
        st.sampled_from(["node", "component", "service", "interface", "link"]), st.integers(0, 7),
        values.xml_text(max_size=20), st.sampled_from(["details", "details", "boot_script"])), max_size=4))
    return {"kind": "topo", "flavour": flavour, "prog": prog + extra}


def enumerate_cases(tier):
    for name in ("RENCI-ad.graphml", "UKY-ad.graphml", "LBNL-ad.graphml", "Network-ad.graphml"):
        yield {"kind": "file", "name": name, "adms": True}


def strategy(tier):
    return st.one_of(_raw_case(), _raw_case(), _raw_case(), _raw_case(), _raw_case(), _topo_case())


# ------------------------------------------------------------------ independent readers
def read_graphml(text):
    """independent GraphML reader (lxml): ({NodeID: {name: typed}}, {edge key: {...}}, markup problems)"""
    from lxml import etree
    ns = {"g": "http://graphml.graphdrawing.org/xmlns"}
    tree = etree.fromstring(text.encode("utf-8"))
    keys = {}
    for k in tree.findall("./g:key", ns):
        keys[k.get("id")] = (k.get("attr.name"), k.get("attr.type"), k.get("for"))

    def data(el):
        out = {}
        for d in el.findall("g:data", ns):
            name, typ, _ = keys[d.get("key")]
            txt = d.text if d.text is not None else ""
            out[name] = ["int", str(int(txt))] if typ in ("long", "int") else ["str", txt] if typ == "string" \
                else [typ, txt]
        return out
    nodes, edges, problems, by_xml_id = {}, {}, [], {}
    for n in tree.findall("./g:graph/g:node", ns):
        d = data(n)
        nid = d.get("NodeID", ["?", n.get("id")])[1]
        by_xml_id[n.get("id")] = nid
        nodes[nid] = d
        cls = d.get("Class", [None, None])[1]
        if n.get("labels") != ":GraphNode:" + str(cls):
            problems.append(f"node {nid!r}: labels={n.get('labels')!r} Class={cls!r}")
    for e in tree.findall("./g:graph/g:edge", ns):
        d = data(e)
        key = "\x00".join(sorted([by_xml_id[e.get("source")], by_xml_id[e.get("target")]]))
        edges[key] = d
        cls = d.get("Class", [None, None])[1]
        if e.get("label") != cls:
            problems.append(f"edge {key!r}: label={e.get('label')!r} Class={cls!r}")
    return nodes, edges, problems


def read_nodelink(text):
    d = json.loads(text)
    by_key = {}
    nodes, edges = {}, {}
    for n in d["nodes"]:
        nid = n.get("NodeID")
        by_key[n["id"]] = nid
        nodes[nid] = {k: store._tv(v) for k, v in n.items() if k != "id"}
    for e in d.get("edges", d.get("links", [])):
        key = "\x00".join(sorted([by_key[e["source"]], by_key[e["target"]]]))
        edges[key] = {k: store._tv(v) for k, v in e.items() if k not in ("source", "target")}
    return nodes, edges, []


def _strip_gid(nodes):
    return {k: {p: v for p, v in d.items() if p != "GraphID"} for k, d in nodes.items()}


def tamper_second_graph_id(text, fmt):
    """give one node another GraphID (for the anchor-derived negative clause 7)"""
    if fmt == "json":
        d = json.loads(text)
        d["nodes"][0]["GraphID"] = "another-graph"
        return json.dumps(d)
    from lxml import etree
    ns = {"g": "http://graphml.graphdrawing.org/xmlns"}
    tree = etree.fromstring(text.encode("utf-8"))
    kid = [k.get("id") for k in tree.findall("./g:key", ns) if k.get("attr.name") == "GraphID" and k.get("for") == "node"]
    n = tree.find("./g:graph/g:node", ns)
    n.find(f"g:data[@key='{kid[0]}']", ns).text = "another-graph"
    return etree.tostring(tree).decode("utf-8")


# ------------------------------------------------------------------ the round trip battery (shared by A and B)
def roundtrip_battery(imp, fl, gid, viol, protect=(), deep=None):
    """Serialise graph gid of importer imp in both formats, re-import through every entry point, compare.
    viol(sig, msg) records a violation. protect = graph ids whose content must not change.
    deep: optional callable(handle) -> comparable deep-sliver structure (Domain B clause 6)."""
    from fim.graph.abc_property_graph import GraphFormat
    g = store.graph_handle(imp, gid)
    orig = store.canon(imp, gid)
    frame = {p: store.canon(imp, p) for p in protect}
    deep_orig = deep(g) if deep else None
    fresh_n = [0]

    def fresh():
        fresh_n[0] += 1
        return f"copy-{fresh_n[0]}"

    def check_copy(entry, fmtname, h, want_gid, ref_parsed, reader):
        tag = f"{entry}/{fmtname}"
        if h is None:
            viol(f"{tag}/no-handle", "import returned no graph handle")
            return
        if want_gid is not None and h.graph_id != want_gid:
            viol(f"{tag}/graph-id", f"handle has graph id {h.graph_id!r}, expected {want_gid!r}")
        c = store.canon(imp, h.graph_id, with_gid=True)
        if c is None:
            viol(f"{tag}/content", "imported copy is empty")
            return
        if any(d.get("GraphID") != h.graph_id for d in c["nodes"].values()) or "foreign-GraphID" in c["problems"]:
            viol(f"{tag}/graph-id-stamp", f"nodes of the copy carry GraphIDs "
                                          f"{sorted({str(d.get('GraphID')) for d in c['nodes'].values()})}")
        for d in c["nodes"].values():
            d.pop("GraphID", None)
        if c != orig:
            viol(f"{tag}/content", f"copy differs from original: {store.diff_canon(c, orig)}")
        # clause 5
        try:
            h.validate_graph()
        except Exception as e:
            viol(f"{tag}/validate", f"validate_graph failed on the imported copy: {type(e).__name__}: {e}")
        # clause 3: idempotence through an independent reader
        try:
            again = h.serialize_graph(format=GraphFormat.GRAPHML if fmtname == "graphml" else GraphFormat.JSON_NODELINK)
            n2, e2, _ = reader(again)
            if (_strip_gid(n2), e2) != (_strip_gid(ref_parsed[0]), ref_parsed[1]):
                viol(f"{tag}/reserialize", "serializing the copy again gives different content")
        except Exception as e:
            viol(f"{tag}/reserialize-raised", f"{type(e).__name__}: {e}")
        if deep and deep_orig is not None:
            try:
                dc = deep(h)
                if dc != deep_orig:
                    viol(f"{tag}/deep-slivers", "deep slivers of the copy differ from the original's")
            except Exception as e:
                viol(f"{tag}/deep-slivers-raised", f"{type(e).__name__}: {e}")

    for fmtname, fmt, reader in (("graphml", GraphFormat.GRAPHML, read_graphml),
                                 ("json", GraphFormat.JSON_NODELINK, read_nodelink)):
        try:
            text = g.serialize_graph(format=fmt)
        except Exception as e:
            viol(f"serialize/{fmtname}/raised", f"{type(e).__name__}: {e}")
            continue
        if not isinstance(text, str) or not text:
            viol(f"serialize/{fmtname}/empty", f"serialize_graph returned {text!r}")
            continue
        try:
            ref = reader(text)
        except Exception as e:
            viol(f"serialize/{fmtname}/unreadable", f"independent reader failed: {type(e).__name__}: {e}")
            continue
        # the text itself must carry the original content (clause 1, seen from outside) and markup (clause 4)
        want_nodes = {k: dict(d["props"], Class=["str", d["Class"]], NodeID=["str", k]) for k, d in orig["nodes"].items()}
        want_edges = {k: dict(d["props"], Class=["str", d["Class"]]) for k, d in orig["edges"].items()}
        if _strip_gid(ref[0]) != want_nodes or ref[1] != want_edges:
            viol(f"serialize/{fmtname}/text-content", "the serialized text does not carry the graph's content")
        for pr in ref[2][:1]:
            viol(f"serialize/{fmtname}/label-markup", pr)

        def file_with(t):
            fd, path = tempfile.mkstemp(prefix="c01-", suffix=".txt")
            with os.fdopen(fd, "w", encoding="utf-8") as f:
                f.write(t)
            return path

        entries = [
            ("string-fresh", lambda: (lambda i: (imp.import_graph_from_string(graph_string=text, graph_id=i), i))(fresh())),
            ("string-none", lambda: (imp.import_graph_from_string(graph_string=text, graph_id=None), None)),
            ("file-fresh", None),
            ("negative", None),
            ("string-direct", lambda: (imp.import_graph_from_string_direct(graph_string=text), gid)),
            ("file-direct", None),
        ]
        if fl == "shared":
            entries.insert(3, ("string-same", lambda: (imp.import_graph_from_string(graph_string=text, graph_id=gid), gid)))
        else:
            # per-graph store: keeping the id means deleting the stored graph first (a re-import onto a live id is the
            # documented skip) - the deleted id must be importable again and give the same content
            def same_after_delete():
                store.graph_handle(imp, gid).delete_graph()
                return imp.import_graph_from_string(graph_string=text, graph_id=gid), gid
            entries.insert(3, ("string-same-after-delete", same_after_delete))
        for entry, fn in entries:
            path = None
            try:
                if entry == "file-fresh":
                    path = file_with(text)
                    i = fresh()
                    h, want = imp.import_graph_from_file(graph_file=path, graph_id=i), i
                elif entry == "file-direct":
                    path = file_with(text)
                    h, want = imp.import_graph_from_file_direct(graph_file=path), gid
                elif entry == "negative":
                    # clause 7: two different GraphIDs in one text -> the direct entry points must refuse
                    if len(orig["nodes"]) >= 2:
                        bad_text = tamper_second_graph_id(text, fmtname)
                        before = {x: store.canon(imp, x) for x in list(protect) + [gid]}
                        for how in ("string", "file"):
                            try:
                                if how == "string":
                                    imp.import_graph_from_string_direct(graph_string=bad_text)
                                else:
                                    path = file_with(bad_text)
                                    imp.import_graph_from_file_direct(graph_file=path)
                                viol(f"{how}-direct/{fmtname}/mixed-graph-ids-accepted",
                                     "text whose nodes carry two GraphIDs was imported")
                            except Exception:
                                pass
                            finally:
                                if path:
                                    os.unlink(path)
                                    path = None
                        after = {x: store.canon(imp, x) for x in list(protect) + [gid]}
                        if after != before or store.canon(imp, "another-graph") is not None:
                            viol(f"direct/{fmtname}/rejected-import-changed-store", "store changed by a refused import")
                    continue
                else:
                    h, want = fn()
                check_copy(entry, fmtname, h, want, ref, reader)
            except Exception as e:
                viol(f"{entry}/{fmtname}/raised", f"{type(e).__name__}: {e}")
            finally:
                if path:
                    os.unlink(path)
    for p in protect:
        if store.canon(imp, p) != frame[p]:
            viol("frame", f"unrelated graph {p} changed during the round trips")


def run_case(case):
    if case.get("kind") in ("topo", "file"):
        from fimverif.props import c01_topo
        return c01_topo.run_topo_case(case)
    store.reset_stores()
    v, seen = [], set()
    fl = case["fl"]

    def viol(sig, msg):
        if sig not in seen:
            seen.add(sig)
            v.append((f"C01/raw/{sig}", f"{msg} | fl={fl} desc={case['desc']}"))

    imp = store.make_importer(fl)
    protect = []
    desc = case["desc"]
    pre = [json.loads(json.dumps(d)) for d in case["pre"]]
    gids = [n["id"] for n in desc["nodes"]]
    cross = []
    for c in case.get("cross", []) if fl == "shared" else []:
        d = pre[c["pre"] % len(pre)]
        j, i = c["j"] % len(d["nodes"]), c["i"] % len(gids)
        if c["how"] == "merge":
            # the neighbour's node j becomes the twin (same NodeID) of the model's node i
            if all(n["id"] != gids[i] for k, n in enumerate(d["nodes"]) if k != j) and \
                    not any(x[0] == "merge" and x[2] == gids[i] for x in cross):
                d["nodes"][j]["id"] = gids[i]
                cross.append(("merge", c["pre"] % len(pre), gids[i]))
        elif d["nodes"][j]["id"] not in gids and len(d["nodes"]) >= 2 and \
                not any(x[0] == "rehome" and x[2] == d["nodes"][j]["id"] for x in cross):
            # (one node per id: two neighbours' nodes with one NodeID would make the model itself ill-formed)
            cross.append(("rehome", c["pre"] % len(pre), d["nodes"][j]["id"]))
    for k, d in enumerate(pre):
        store.load_raw(store.graph_handle(imp, f"pre{k}"), d)
        protect.append(f"pre{k}")
    g = store.graph_handle(imp, "G")
    store.load_raw(g, desc)
    if store.canon(imp, "G") != store.canon_desc(desc):
        raise RuntimeError("harness: loaded graph differs from its description")
    done = set()
    for how, k, nid in cross:
        if (k, nid) in done or store.canon(imp, f"pre{k}") is None or nid not in store.canon(imp, f"pre{k}")["nodes"]:
            continue
        done.add((k, nid))
        if how == "merge":
            g.merge_nodes(node_id=nid, other_graph=store.graph_handle(imp, f"pre{k}"))
        else:
            store.graph_handle(imp, f"pre{k}").update_node_property(node_id=nid, prop_name=store.GRAPH_ID, prop_val="G")
            gids.append(nid)
    protect = [p for p in protect if store.canon(imp, p) is not None]
    roundtrip_battery(imp, fl, "G", viol, protect=protect)

    allvals = [x for n in desc["nodes"] for x in n["props"].values()] + \
              [x for e in desc["edges"] for x in e["props"].values()] + [n["id"] for n in desc["nodes"]]
    has_int = any(isinstance(x, int) for x in allvals)
    has_hard = any(isinstance(x, str) and values.is_hard_text(x) for x in allvals)
    typing = {}
    for n in desc["nodes"]:
        for k, x in n["props"].items():
            typing.setdefault(("n", k), set()).add(type(x).__name__)
    for e in desc["edges"]:
        for k, x in e["props"].items():
            typing.setdefault(("e", k), set()).add(type(x).__name__)
    labels = ["raw", fl]
    if has_int:
        labels.append("has-int")
    if has_hard:
        labels.append("has-hard-text")
    if any(len(t) > 1 for t in typing.values()):
        labels.append("mixed-typing")
    if case["pre"]:
        labels.append("pre-stored")
    if done:
        labels.append("joined-to-neighbour-graph")
    nt = len(desc["nodes"]) >= 2 and len(desc["edges"]) >= 1 and (has_int or has_hard)
    if nt:
        labels.append("nontrivial")
    return {"v": v, "nt": nt, "labels": labels}
