"""
C17 - sliver comparison reports exactly the differences between two slivers (DESIGN.md §3 "C17").

case = {"mode": "node"|"service"|"interface", "base": <E5 sliver description>, "edits": [edit, ...]}

The interpreter builds sliver A from `base`, applies the edit script to a copy of the *description*, builds an
independent sliver B from the edited description and compares `A.diff(B)` / `B.diff(A)` with the TopologyDiff
computed from the two descriptions by a reference comparison written independently of `fim` (`_ref_*`).
Edits address their target as "the k-th live element of level L" (k modulo the live list), so every script is
executable and stays meaningful when Hypothesis deletes items.

edit ops:  set(lvl,k,prop,value|None)  reformat_ud(lvl,k)
           add_comp(new) rm_comp(k) add_nsvc(new) rm_nsvc(k) add_iface(k,new) rm_iface(k) add_sub(k,new) rm_sub(k)
levels:    node | comp | nsvc (node-level service) | csvc (the service of a SmartNIC, or the root service) |
           ciface (interface of a csvc, or the root interface) | csub (sub-interface of a DedicatedPort ciface)
"""
import copy
import json

from hypothesis import strategies as st

from fimverif.engines import slivers as E

ID = "C17"
RULE = ("Hypothesis-generated E5 sliver trees (node with SmartNIC/SharedNIC/FPGA/other components, node-level "
        "services, DedicatedPort interfaces with sub-interfaces; or a bare service / DedicatedPort interface) plus an "
        "edit script of 0-5 index-resolved edits (add/remove component, node-level service, interface, sub-interface; "
        "set/unset labels, capacities, user data or an untracked property at any level; re-encode equal user data; "
        "re-create an element under its name with a new node id). "
        "B is built independently from the edited description; oracle = reference diff of the two descriptions. "
        "Non-trivial: >= 2 applied edits of different kinds. Distinct by hash of the case.")
ASSUMPTIONS = [
    "two slivers are 'the same element' when they have the same name under the same parent (the dictionaries the "
    "library keeps are keyed by name); added elements always get a fresh name and node id",
    "labels/capacities/user data 'changed' means changed by value; user data values are JSON objects without "
    "bool/float/0/1 so that value equality is unambiguous; an all-default Capacities/Labels object is not generated",
    "edits below a component are only made (and asserted) below SmartNIC components, which carry exactly one service "
    "(what NodeSliver.diff documents it inspects); interface edits of node-level services are exercised through the "
    "direct NetworkServiceSliver.diff mode",
    "InterfaceSliver.diff files the interface's own modification under 'services'; the oracle accepts it under "
    "services or interfaces (the statement does not name the list)",
]
BUDGET = {"quick": 12000, "thorough": 120000}
MIN_LABEL_FRACTION = {"mode:node": 0.4, "mode:service": 0.1, "mode:interface": 0.05, "op:set-tracked": 0.3,
                      "op:add_nsvc|rm_nsvc": 0.06, "op:add_comp|rm_comp": 0.06, "below-smartnic-edit": 0.03,
                      "equal-user-data-both-sides": 0.15, "edits:0": 0.02, "op:set-untracked": 0.05,
                      "op:add_sub|rm_sub": 0.04, "op:add_iface|rm_iface": 0.05, "expected-no-diff": 0.1}

SIG_NS = "C17/NodeSliver.diff/added-removed/node-level-services-never-reported"
SIG_UD = "C17/prop_diff/modified/equal-user-data-reported"
SIG_DP = "C17/NetworkServiceSliver.diff/modified/sub-interfaces-flag-on-own-property-change"
_TOGGLE_SIG = {"ns": SIG_NS, "ud": SIG_UD, "dp": SIG_DP}
_TOGGLE_SETS = [("ud",), ("ns",), ("dp",), ("ud", "ns"), ("ud", "dp"), ("ns", "dp"), ("ud", "ns", "dp")]

TRACKED = (("labels", "LABELS"), ("capacities", "CAPACITIES"), ("user_data", "USER_DATA"))
UNTRACKED = ("details", "tags", "label_allocations", "capacity_allocations", "model", "flags", "layout_data",
             "mf_data", "capacity_hints", "stitch_node")
_BOOST = ("labels", "capacities", "user_data")
_KW = dict(max_props=5, child_props=3, boost=_BOOST, simple_json=True)
_LEVELS = {"node": ["node", "comp", "nsvc", "csvc", "ciface", "csub"],
           "service": ["csvc", "ciface", "csub"], "interface": ["ciface", "csub"]}
_OPS = {"node": ["set", "set", "set", "reformat_ud", "add_comp", "rm_comp", "add_nsvc", "rm_nsvc", "add_iface",
                 "rm_iface", "add_sub", "rm_sub", "recreate"],
        "service": ["set", "set", "reformat_ud", "add_iface", "rm_iface", "add_sub", "rm_sub", "recreate"],
        "interface": ["set", "set", "reformat_ud", "add_sub", "rm_sub", "recreate"]}
_IFTYPES = ["DedicatedPort", "DedicatedPort", "SharedPort", "AccessPort", "TrunkPort", "vInt", "FacilityPort"]


_NEEDS = {"rm_comp": "comp", "rm_nsvc": "nsvc", "add_iface": "csvc", "rm_iface": "ciface", "add_sub": "dport",
          "rm_sub": "csub"}


@st.composite
def _edit(draw, mode, avail):
    """avail: the levels that are non-empty in the base (only steers the distribution; targets are still resolved
    modulo the live list when the script runs, so a script stays executable under shrinking)"""
    ops = [o for o in _OPS[mode] if _NEEDS.get(o, "node") in avail or o in ("set", "reformat_ud", "add_comp",
                                                                             "add_nsvc")]
    if mode == "interface":
        ops = [o for o in ops if o != "rm_iface"]
    op = draw(st.sampled_from(ops))
    k = draw(st.integers(0, 7))
    nid = "e"           # the interpreter re-prefixes the ids of an added subtree with the edit's position
    levels = [x for x in _LEVELS[mode] if x in avail]
    if op == "set":
        lvl = draw(st.sampled_from(levels))
        # (explicit tables: Hypothesis favours the first entries, which are the common choices here)
        prop = draw(st.sampled_from(["labels", "capacities", "user_data"] * 4 + list(UNTRACKED)))
        unset = draw(st.sampled_from([False, False, False, True, False]))
        val = None if unset and prop != "stitch_node" else draw(E.value_desc("interface", prop, simple_json=True))
        return {"op": op, "lvl": lvl, "k": k, "prop": prop, "value": val}
    if op == "reformat_ud":
        return {"op": op, "lvl": draw(st.sampled_from(levels)), "k": k}
    if op == "recreate":
        # the element was removed and created again under its name: same name, new node id (the comparison goes by
        # name - see ASSUMPTIONS - so whatever else differs on or below it must still be reported)
        return {"op": op, "lvl": draw(st.sampled_from([x for x in levels if x != "node"] or levels)), "k": k}
    if op == "add_comp":
        t = draw(st.sampled_from(["SmartNIC", "SmartNIC", "SharedNIC", "FPGA", "GPU", "NVME"]))
        return {"op": op, "new": draw(E.sliver_desc("component", nid=nid, force_type=t, **_KW))}
    if op == "add_nsvc":
        return {"op": op, "new": draw(E.sliver_desc("service", nid=nid, **_KW))}
    if op == "add_iface":
        return {"op": op, "k": k, "new": draw(E.sliver_desc("interface", nid=nid,
                                                             force_type=draw(st.sampled_from(_IFTYPES)), **_KW))}
    if op == "add_sub":
        return {"op": op, "k": k, "new": draw(E.sliver_desc("interface", nid=nid, force_type="SubInterface",
                                                             allow_children=False, **_KW))}
    return {"op": op, "k": k}       # rm_*


@st.composite
def _case(draw):
    mode = draw(st.sampled_from(["node"] * 6 + ["service"] * 3 + ["interface"] * 2))
    # the number of edits is drawn before the (large) base so that it is not starved by Hypothesis' size control
    n = draw(st.sampled_from([0, 1, 2, 3, 1, 2, 3, 2, 4, 5, 2, 3]))
    if mode == "node":
        base = draw(E.sliver_desc("node", **_KW))
    elif mode == "service":
        base = draw(E.sliver_desc("service", **_KW))
    else:
        base = draw(E.sliver_desc("interface", force_type="DedicatedPort", **_KW))
    lv = _live(base, mode)
    avail = {k for k, x in lv.items() if x}
    if any(i["type"] == "DedicatedPort" for i in lv["ciface"]):
        avail.add("dport")
    return {"mode": mode, "base": base, "edits": [draw(_edit(mode, avail)) for _ in range(n)]}


def strategy(tier):
    return _case()


# ----------------------------------------------------------------------------------------------------------------
# edit interpreter (on descriptions)
# ----------------------------------------------------------------------------------------------------------------
def _live(root, mode):
    lv = {k: [] for k in ("node", "comp", "nsvc", "csvc", "ciface", "csub")}
    if mode == "node":
        lv["node"] = [root]
        lv["comp"] = list(root["components"])
        lv["nsvc"] = list(root["services"])
        lv["csvc"] = [c["services"][0] for c in root["components"] if c["type"] == "SmartNIC"]
    elif mode == "service":
        lv["csvc"] = [root]
    if mode == "interface":
        lv["ciface"] = [root]
    else:
        lv["ciface"] = [i for s in lv["csvc"] for i in s["interfaces"]]
    lv["csub"] = [u for i in lv["ciface"] if i["type"] == "DedicatedPort" for u in i["interfaces"]]
    return lv


def _fresh(new, j, siblings):
    new = copy.deepcopy(new)
    new["name"] = new["name"][:200] + f"_e{j}"
    for x in E.walk(new):
        x["node_id"] = f"e{j}" + x["node_id"][1:]
    assert new["name"] not in {s["name"] for s in siblings}
    return new


def apply_edits(base, mode, edits):
    """returns (edited description, [applied op kinds], n_skipped)"""
    b = copy.deepcopy(base)
    applied, skipped = [], 0
    for j, e in enumerate(edits):
        lv = _live(b, mode)
        op = e["op"]

        def pick(lst):
            return lst[e["k"] % len(lst)] if lst else None
        if op == "set":
            t = pick(lv[e["lvl"]])
            if t is None:
                skipped += 1
                continue
            if e["value"] is None:
                t["props"].pop(e["prop"], None)
            else:
                t["props"][e["prop"]] = copy.deepcopy(e["value"])
            applied.append("set-tracked" if e["prop"] in _BOOST else "set-untracked")
        elif op == "reformat_ud":
            t = pick([x for x in lv[e["lvl"]] if "user_data" in x["props"]])
            if t is None:
                skipped += 1
                continue
            ud = t["props"]["user_data"]
            t["props"]["user_data"] = {"form": "text" if ud["form"] == "obj" else "obj", "v": ud["v"],
                                       "fmt": (ud.get("fmt", 0) + 1) % 3}
            applied.append(op)
        elif op == "recreate":
            t = pick(lv[e["lvl"]])
            if t is None or (e["lvl"] == "node") or t is b:
                skipped += 1
                continue
            t["node_id"] = f"r{j}-" + str(t["node_id"])
            applied.append(op)
        elif op in ("add_comp", "add_nsvc"):
            if mode != "node":
                skipped += 1
                continue
            key = "components" if op == "add_comp" else "services"
            # the base siblings count too: a removed element's name is never reused
            b[key].append(_fresh(e["new"], j, b[key] + base[key]))
            applied.append(op)
        elif op in ("rm_comp", "rm_nsvc"):
            key, lvl = ("components", "comp") if op == "rm_comp" else ("services", "nsvc")
            t = pick(lv[lvl])
            if t is None:
                skipped += 1
                continue
            b[key].remove(t)
            applied.append(op)
        elif op == "add_iface":
            t = pick(lv["csvc"])
            if t is None:
                skipped += 1
                continue
            t["interfaces"].append(_fresh(e["new"], j, t["interfaces"]))
            applied.append(op)
        elif op == "add_sub":
            t = pick([i for i in lv["ciface"] if i["type"] == "DedicatedPort"])
            if t is None:
                skipped += 1
                continue
            t["interfaces"].append(_fresh(e["new"], j, t["interfaces"]))
            applied.append(op)
        elif op == "rm_iface":
            t = pick(lv["ciface"]) if mode != "interface" else None
            if t is None:
                skipped += 1
                continue
            for s in lv["csvc"]:
                if any(t is x for x in s["interfaces"]):
                    s["interfaces"] = [x for x in s["interfaces"] if x is not t]
            applied.append(op)
        elif op == "rm_sub":
            t = pick(lv["csub"])
            if t is None:
                skipped += 1
                continue
            for i in lv["ciface"]:
                if any(t is x for x in i["interfaces"]):
                    i["interfaces"] = [x for x in i["interfaces"] if x is not t]
            applied.append(op)
        else:
            raise RuntimeError(f"C17: unknown edit op {op}")
    return b, applied, skipped


# ----------------------------------------------------------------------------------------------------------------
# reference comparison of two descriptions.  T = set of known-defect models, used ONLY to name a violation
# (one root cause <-> one signature); a case passes only if the actual diff equals the model with T = {}.
# ----------------------------------------------------------------------------------------------------------------
def _tracked_value(d, prop):
    v = d["props"].get(prop)
    if v is None:
        return None
    if prop == "capacities":
        return {k: x for k, x in v.items() if x != 0}
    if prop == "user_data":
        return json.dumps(v["v"], sort_keys=True)
    return v


def _pflags(a, b, T):
    fl = set()
    for prop, flag in TRACKED:
        va, vb = _tracked_value(a, prop), _tracked_value(b, prop)
        if va != vb:
            fl.add(flag)
        elif prop == "user_data" and "ud" in T and va is not None:
            fl.add(flag)        # defect model: JSONData compares by identity
    return fl


def _ident(d):
    return [d["name"], d["node_id"]]


def _empty():
    cats = ("nodes", "components", "services", "interfaces")
    return {"added": {c: [] for c in cats}, "removed": {c: [] for c in cats}, "modified": {c: [] for c in cats}}


def _finish(r):
    if not any(r[s][c] for s in r for c in r[s]):
        return None
    for s in r:
        for c in r[s]:
            r[s][c] = sorted(r[s][c])
    return r


def _mod(d, fl):
    return _ident(d) + [sorted(fl)]


def _split(la, lb):
    an, bn = {x["name"]: x for x in la}, {x["name"]: x for x in lb}
    return ([bn[n] for n in bn if n not in an], [an[n] for n in an if n not in bn],
            [(an[n], bn[n]) for n in an if n in bn])


def _ref_iface(a, b, T, as_root=True):
    """InterfaceSliver.diff: own flags, sub-interfaces added/removed/modified"""
    r = _empty()
    fl = _pflags(a, b, T)
    if fl:
        r["modified"]["interfaces"].append(_mod(a, fl))
    added, removed, common = _split(a["interfaces"], b["interfaces"])
    r["added"]["interfaces"] = [_ident(x) for x in added]
    r["removed"]["interfaces"] = [_ident(x) for x in removed]
    for ua, ub in common:
        f = _pflags(ua, ub, T)
        if f:
            r["modified"]["interfaces"].append(_mod(ua, f))
    return _finish(r)


def _subs_changed(a, b, T):
    added, removed, common = _split(a["interfaces"], b["interfaces"])
    return bool(added or removed or any(_pflags(ua, ub, T) for ua, ub in common))


def _ref_service(a, b, T):
    """NetworkServiceSliver.diff: own flags, interfaces added/removed, common interfaces' flags (+SUB_INTERFACES)"""
    r = _empty()
    fl = _pflags(a, b, T)
    if fl:
        r["modified"]["services"].append(_mod(a, fl))
    added, removed, common = _split(a["interfaces"], b["interfaces"])
    r["added"]["interfaces"] = [_ident(x) for x in added]
    r["removed"]["interfaces"] = [_ident(x) for x in removed]
    for ia, ib in common:
        f = _pflags(ia, ib, T)
        if ia["type"] == "DedicatedPort":
            if _subs_changed(ia, ib, T) or ("dp" in T and f):
                f = f | {"SUB_INTERFACES"}
        if f:
            r["modified"]["interfaces"].append(_mod(ia, f))
    return _finish(r)


def _ref_node(a, b, T):
    r = _empty()
    fl = _pflags(a, b, T)
    if fl:
        r["modified"]["nodes"].append(_mod(a, fl))
    added, removed, common = _split(a["components"], b["components"])
    r["added"]["components"] = [_ident(x) for x in added]
    r["removed"]["components"] = [_ident(x) for x in removed]
    for ca, cb in common:
        f = _pflags(ca, cb, T)
        # clause 3: a (SmartNIC) component gets SUB_INTERFACES iff something below it changed
        if ca["type"] == "SmartNIC" and _ref_service(ca["services"][0], cb["services"][0], T) is not None:
            f = f | {"SUB_INTERFACES"}
        if f:
            r["modified"]["components"].append(_mod(ca, f))
    added, removed, common = _split(a["services"], b["services"])
    if not ("ns" in T and a["services"] and b["services"]):     # defect model: other compared with itself
        r["added"]["services"] = [_ident(x) for x in added]
        r["removed"]["services"] = [_ident(x) for x in removed]
    for sa, sb in common:
        f = _pflags(sa, sb, T)
        if f:
            r["modified"]["services"].append(_mod(sa, f))
    return _finish(r)


_REF = {"node": _ref_node, "service": _ref_service, "interface": _ref_iface}
_CLASSNAME = {"node": "NodeSliver", "service": "NetworkServiceSliver", "interface": "InterfaceSliver"}


def canon_diff(d, mode):
    """TopologyDiff -> the same shape the reference produces"""
    from fim.slivers.topology_diff import WhatsModifiedFlag
    if d is None:
        return None
    r = _empty()
    for side in ("added", "removed"):
        t = getattr(d, side)
        for c in r[side]:
            r[side][c] = [[x.resource_name, x.node_id] for x in getattr(t, c)]
    for c in r["modified"]:
        for x, fl in getattr(d.modified, c):
            names = sorted(f.name for f in WhatsModifiedFlag if f.value != 0 and f in fl)
            r["modified"][c].append([x.resource_name, x.node_id, names])
    if mode == "interface":     # the interface's own entry may be filed under services (see ASSUMPTIONS)
        r["modified"]["interfaces"] += r["modified"]["services"]
        r["modified"]["services"] = []
    return _finish(r)           # a TopologyDiff object with nothing in it also "reports no difference"


def _delta(exp, act):
    """compact text of the differing parts only"""
    if exp is None or act is None:
        return f"expected {json.dumps(exp)} got {json.dumps(act)}"
    return "; ".join(f"{s}.{c}: expected {json.dumps(exp[s][c])} got {json.dumps(act[s][c])}"
                     for s in exp for c in exp[s] if exp[s][c] != act[s][c])


def _explain(exp, act):
    if exp is None or act is None:
        return [("no-diff-expected" if exp is None else "diff-missing", "all")] if exp != act else []
    out = []
    for side in ("added", "removed", "modified"):
        for c in exp[side]:
            if exp[side][c] != act[side][c]:
                out.append((side, c))
    return out


def run_case(case):
    v = []
    mode = case["mode"]
    cname = _CLASSNAME[mode]
    a_desc = case["base"]
    b_desc, applied, skipped = apply_edits(a_desc, mode, case["edits"])
    A, B = E.build(a_desc), E.build(b_desc)
    ref = _REF[mode]
    snap_a, snap_b = E.canon_sliver(A), E.canon_sliver(B)

    def call(x, y, what):
        try:
            return True, x.diff(y)
        except Exception as ex:         # diff must produce a report, never fail
            v.append((f"C17/{cname}.diff/raised", f"{what}: {type(ex).__name__}: {ex} edits={case['edits']!r:.600}"))
            return False, None

    def judge(da, db, actual, what, distinct=True):
        """clauses 1-3: actual (canonical) must equal the reference diff of the two descriptions"""
        exp = ref(da, db, frozenset())
        if actual == exp:
            return
        if distinct:
            for T in _TOGGLE_SETS:
                if actual == ref(da, db, frozenset(T)):
                    for t in T:
                        v.append((_TOGGLE_SIG[t], f"{what}: {_delta(exp, actual)}"))
                    return
        for clause, cat in _explain(exp, actual):
            v.append((f"C17/{cname}.diff/{clause}/{cat}",
                      f"{what}: {_delta(exp, actual)} applied={applied}"))

    # clause 1: a sliver compared with itself
    ok, d = call(A, A, "A.diff(A)")
    if ok and d is not None:
        v.append((f"C17/{cname}.diff/self-diff", f"A.diff(A) = {json.dumps(canon_diff(d, mode))}"))
    # clause 1: an identical, independently built copy (deep copy of the object tree)
    ok, d = call(A, copy.deepcopy(A), "A.diff(deepcopy(A))")
    if ok:
        judge(a_desc, a_desc, canon_diff(d, mode), "A.diff(deepcopy(A))")
    # clauses 1-3 on old -> new and new -> old
    ok_f, d_f = call(A, B, "A.diff(B)")
    ok_r, d_r = call(B, A, "B.diff(A)")
    fwd = canon_diff(d_f, mode) if ok_f else None
    rev = canon_diff(d_r, mode) if ok_r else None
    if ok_f:
        judge(a_desc, b_desc, fwd, "A.diff(B)")
    if ok_r:
        judge(b_desc, a_desc, rev, "B.diff(A)")
    # clause 4: antisymmetry of the two reports
    if ok_f and ok_r:
        f, r = fwd or _empty(), rev or _empty()
        for c in f["added"]:
            if f["added"][c] != r["removed"][c] or f["removed"][c] != r["added"][c]:
                v.append((f"C17/{cname}.diff/antisymmetry/added-removed",
                          f"{c}: A->B {json.dumps(f)} B->A {json.dumps(r)}"))
            # (by name: an element re-created under its name carries a different node id on the two sides)
            if sorted(x[:1] for x in f["modified"][c]) != sorted(x[:1] for x in r["modified"][c]):
                v.append((f"C17/{cname}.diff/antisymmetry/modified",
                          f"{c}: A->B {json.dumps(f)} B->A {json.dumps(r)}"))
    # clause 5: operands untouched
    if E.canon_sliver(A) != snap_a or E.canon_sliver(B) != snap_b:
        v.append((f"C17/{cname}.diff/operands-modified", f"edits={case['edits']!r:.600}"))

    kinds = set(applied)
    labels = [f"mode:{mode}", f"edits:{min(len(applied), 3)}" if applied else "edits:0"]
    labels += [f"op:{k}" for k in sorted(kinds) if k.startswith("set") or k == "reformat_ud"]
    for pair in (("add_comp", "rm_comp"), ("add_nsvc", "rm_nsvc"), ("add_iface", "rm_iface"), ("add_sub", "rm_sub")):
        if kinds & set(pair):
            labels.append("op:" + "|".join(pair))
    if skipped:
        labels.append("skipped-edit")
    if mode == "node":
        for ca, cb in _split(a_desc["components"], b_desc["components"])[2]:
            if ca["type"] == "SmartNIC" and _ref_service(ca["services"][0], cb["services"][0], frozenset()):
                labels.append("below-smartnic-edit")
                break
    bn = {x["node_id"]: x for x in E.walk(b_desc)}
    if any(x["node_id"] in bn and "user_data" in x["props"] and
           _tracked_value(x, "user_data") == _tracked_value(bn[x["node_id"]], "user_data") for x in E.walk(a_desc)):
        labels.append("equal-user-data-both-sides")
    if ref(a_desc, b_desc, frozenset()) is None:
        labels.append("expected-no-diff")
    return {"v": v, "nt": len(kinds) >= 2, "labels": labels}


# directed probes (minimal reproducers of the suspected genuine defects)
def _n(name, nid, typ="VM", props=None, comps=(), svcs=()):
    return {"cls": "node", "name": name, "type": typ, "node_id": nid, "props": props or {},
            "components": list(comps), "services": list(svcs)}


def _s(name, nid, typ="L2Bridge", props=None, ifs=()):
    return {"cls": "service", "name": name, "type": typ, "node_id": nid, "props": props or {}, "interfaces": list(ifs)}


def _i(name, nid, typ="DedicatedPort", props=None, subs=()):
    return {"cls": "interface", "name": name, "type": typ, "node_id": nid, "props": props or {},
            "interfaces": list(subs)}


PROBES = {
    SIG_NS: {"mode": "node", "base": _n("n1", "n", svcs=[_s("s1", "n/s0")]),
             "edits": [{"op": "add_nsvc", "new": _s("s2", "e")}]},
    SIG_UD: {"mode": "node", "base": _n("n1", "n", props={"user_data": {"form": "obj", "v": {"k": 2}, "fmt": 0}}),
             "edits": []},
    SIG_DP: {"mode": "service", "base": _s("s1", "n", ifs=[_i("p1", "n/i0", subs=[_i("u1", "n/i0/u0", "SubInterface")])]),
             "edits": [{"op": "set", "lvl": "ciface", "k": 0, "prop": "labels", "value": {"vlan": "100"}}]},
}
