"""
C02 - sliver <-> graph / dictionary / JSON conversion preserves every settable field; element
set/get/unset (DESIGN.md §3 "C02").

Two kinds of case:

  {"kind": "sliver", "desc": <E5 sliver description of any of the five classes>, "parent": bool}
      clauses 1-4 and 7: the sliver is written into a fresh in-memory slice model (NetworkxASM) with add_*_sliver
      and rebuilt with build_deep_*_sliver; converted with sliver_to_dict / build_deep_*_sliver_from_dict; and with
      JSONSliver (node, service) or a json.dumps/loads of the dictionary (other classes). Comparison is field-wise
      (E5 canon_sliver). "parent" attaches a component/service/interface to a plain parent node in the graph.

  {"kind": "element", "flavour": "experiment"|"substrate", "ekind": "Node"|"Component"|"NetworkService"|
   "Interface"|"Link", "k": int, "prop": <settable property>, "value": <value description>, "value2": <...>,
   "unset_via": "unset"|"set_none"}
      clauses 5-6 on the k-th element of that kind of a small model built through the topology API.
      value2 is the image_type (prop image_ref) resp. image_ref (prop image_type): the pair is one graph property.

enumerate_cases: every (flavour x element kind x settable property) once with a fixed value, and per class and
property a sliver with exactly that property set (plus all-properties slivers and one fully nested tree); the
generated part draws the same table with generated values, and slivers over the full vocabulary and nesting.
"""
import json

from hypothesis import strategies as st

from fimverif.engines import slivers as E

ID = "C02"
RULE = ("(a) Hypothesis-generated E5 slivers of all five classes (every settable property independently absent/set, "
        "singles and pairs boosted; node -> components -> service -> interfaces -> sub-interfaces, node-level "
        "services) pushed through graph, dictionary and JSON paths and compared field-wise; (b) every (topology "
        "flavour x element kind x settable property) enumerated once with a fixed value and drawn uniformly with "
        "generated values for set/get/unset on elements of a small model. Non-trivial: sliver with >= 3 properties "
        "set or >= 1 nested child; element case with a set-then-unset of a generated value. Distinct by case hash.")
ASSUMPTIONS = [
    "node_id is not a settable property: it must survive the graph path; the dictionary/JSON form does not carry it",
    "image_ref/image_type are one graph property: generated and set together, without commas; unsetting image_type "
    "alone is not asserted (the mapping documents its absence), unsetting image_ref must clear both",
    "stitch_node has no absent state (boolean always written): unset is not asserted for it",
    "network_service_info (ComponentSliver setter) is structural: exercised through nesting, not through set_property",
    "values are drawn from each codec's faithful domain (non-default JSONField objects, Location lat/lon != 0.0): "
    "single-value codec fidelity is C03's subject. Plain text values include the empty string and the words "
    "'None'/'none'/'null' (the in-memory backends keep them as they are; they were excluded in the first version)",
    "sub-interfaces only below DedicatedPort interfaces (the only place the graph reader looks for them)",
    "an absent child container and an empty one are the same structure",
    "setting one property may rewrite StitchNode (set_property writes a fresh sliver's dictionary); frame effects on "
    "other properties are not part of the statement and are not asserted",
]
BUDGET = {"quick": 12000, "thorough": 120000}

SIG_GATEWAY = "C02/absent-reads-as-empty-object/gateway"
SIG_SUBIF = "C02/graph/interface/interfaces:lost"
SIG_LOCATION = "C02/unset_property/still-set/location"

EKINDS = {"Node": "node", "Component": "component", "NetworkService": "service", "Interface": "interface",
          "Link": "link"}
FLAVOURS = ("experiment", "substrate")
_NO_UNSET_ASSERT = ("stitch_node",)


def _empty_object(c):
    """canonical form of an object that carries nothing (e.g. Gateway(None)): one root cause, whichever way it is
    observed (round trip of a sliver without the property, or get_property after unset)"""
    return isinstance(c, dict) and "__t" in c and all(x is None for k, x in c.items() if k != "__t")


def element_table():
    """every (flavour, element kind, settable property); structural setters excluded (see ASSUMPTIONS)"""
    return [(fl, ek, p) for fl in FLAVOURS for ek in sorted(EKINDS) for p in sorted(E.PROP_KIND[EKINDS[ek]])
            if E.PROP_KIND[EKINDS[ek]][p] != "STRUCT"]


MIN_LABEL_FRACTION = {"kind:sliver": 0.3, "kind:element": 0.3, "sliver:node": 0.08, "sliver:component": 0.03,
                      "sliver:service": 0.05, "sliver:interface": 0.03, "sliver:link": 0.02,
                      "has-children": 0.1, "has-subinterfaces": 0.02, "props>=3": 0.08,
                      "node-level-service": 0.03}
# (vocabulary coverage - every property of every class, every table row - is guaranteed by enumerate_cases, so the
# "set:<cls>.<prop>" / "el:<kind>.<prop>" labels are reported for the histogram but carry no threshold)

# fixed values for the enumeration (one per value kind)
_FIXED = {
    "NAME": "nm-1", "TEXT": "text value", "IMG": "default_rocky_8", "CAPS": {"core": 2, "ram": 8}, "BOOL": True,
    "HINTS": {"instance_type": "fabric.c2.m8.d10"}, "LABELS": {"vlan": "100", "ipv4": "10.0.0.1"},
    "CDEL": [{"id": "del1", "format": "single", "pool": None, "details": {"unit": 1}}],
    "LDEL": [{"id": "del1", "format": "def", "pool": "pool1", "details": {"vlan_range": "100-200"}}],
    "RINFO": {"reservation_id": "r-1", "reservation_state": "Active"}, "SINFO": {"adm_graph_ids": ["g1", "g2"]},
    "NODE_MAP": ["graph-1", "node-1"], "TAGS": ["t1", "t-2"], "FLAGS": {"auto_config": True},
    "MF": {"form": "obj", "v": {"k": [1, 2]}, "fmt": 0}, "UD": {"form": "text", "v": {"k": "v"}, "fmt": 0},
    "LD": {"form": "obj", "v": {"x": 1.5}, "fmt": 0}, "IP": "192.168.1.1", "LOC": {"postal": "100 Europa Dr"},
    "MAINT": {"w1": {"state": "Maint", "deadline": "2030-01-02T03:04:05+00:00", "expected_end": None}},
    "LAYER": "L2", "ERO": {"type": "Path", "strict": True, "payload": {"a2z": ["a", "b"], "z2a": ["b", "a"]}},
    "PATHINFO": {"type": "Graph", "payload": "graph-7"},
    "GW": {"ipv4_subnet": "10.0.0.0/24", "ipv4": "10.0.0.1", "mac": "00:11:22:33:44:55"}, "MDIR": "RX_Only",
}
_FIXED_TYPE = {"node": "Server", "component": "FPGA", "service": "L2PTP", "interface": "TrunkPort", "link": "L2Path"}


def _fixed_value(cls_key, prop):
    kind = E.PROP_KIND[cls_key][prop]
    return _FIXED_TYPE[cls_key] if kind == "TYPE" else _FIXED[kind]


def _fixed_sliver(cls_key, nid, props, typ=None, **children):
    d = {"cls": cls_key, "name": "nm-" + nid.replace("/", "-"), "type": typ or _FIXED_TYPE[cls_key], "node_id": nid,
         "props": {p: _fixed_value(cls_key, p) for p in props}}
    for k in {"node": ("components", "services"), "component": ("services",), "service": ("interfaces",),
              "interface": ("interfaces",), "link": ()}[cls_key]:
        d[k] = list(children.get(k, ()))
    return d


def enumerate_cases(tier):
    """(1) every (flavour x element kind x settable property) with a fixed value; (2) per class and settable
    property a sliver with exactly that property set (image_ref/image_type as the pair); (3) per class a sliver
    with every property set; (4) one fully nested tree with every property set on every element"""
    for fl, ek, p in element_table():
        c = {"kind": "element", "flavour": fl, "ekind": ek, "k": 0, "prop": p, "value": _fixed_value(EKINDS[ek], p),
             "unset_via": "unset"}
        if p in ("image_ref", "image_type"):
            c["value2"] = "qcow2" if p == "image_ref" else "default_rocky_8"
        yield c
    for k in E.CLS_KEYS:
        for p in E.value_props(k):
            props = ["image_ref", "image_type"] if p in ("image_ref", "image_type") else [p]
            yield {"kind": "sliver", "parent": False, "desc": _fixed_sliver(k, "x", props)}
        yield {"kind": "sliver", "parent": True, "desc": _fixed_sliver(k, "x", E.value_props(k))}
    allp = E.value_props
    sub = _fixed_sliver("interface", "n/c/s/i/u", allp("interface"), typ="SubInterface")
    port = _fixed_sliver("interface", "n/c/s/i", allp("interface"), typ="DedicatedPort", interfaces=[sub])
    csvc = _fixed_sliver("service", "n/c/s", allp("service"), typ="OVS", interfaces=[port])
    comp = _fixed_sliver("component", "n/c", allp("component"), typ="SmartNIC", services=[csvc])
    nport = _fixed_sliver("interface", "n/s/i", allp("interface"), typ="TrunkPort")
    nsvc = _fixed_sliver("service", "n/s", allp("service"), typ="MPLS", interfaces=[nport])
    yield {"kind": "sliver", "parent": False,
           "desc": _fixed_sliver("node", "n", allp("node"), components=[comp], services=[nsvc])}


@st.composite
def _element_case(draw):
    fl, ek, p = draw(st.sampled_from(element_table()))
    c = {"kind": "element", "flavour": fl, "ekind": ek, "k": draw(st.integers(0, 5)), "prop": p,
         "value": draw(E.value_desc(EKINDS[ek], p)), "unset_via": draw(st.sampled_from(["unset", "set_none"]))}
    if p in ("image_ref", "image_type"):
        c["value2"] = draw(E.value_desc("node", "image_type" if p == "image_ref" else "image_ref"))
    return c


@st.composite
def _sliver_case(draw):
    cls_key = draw(st.sampled_from(["node"] * 5 + ["service"] * 3 + ["component"] * 2 + ["interface"] * 2 +
                                  ["link"] * 2))
    kw = {}
    if cls_key == "interface":
        kw["force_type"] = draw(st.sampled_from(["DedicatedPort", "TrunkPort", "DedicatedPort", "SharedPort",
                                                 "FacilityPort", "SubInterface", "AccessPort", "StitchPort"]))
    return {"kind": "sliver", "desc": draw(E.sliver_desc(cls_key, max_props=30, child_props=4, **kw)),
            "parent": draw(st.booleans())}


def strategy(tier):
    return st.one_of(_sliver_case(), _element_case())


# ----------------------------------------------------------------------------------------------------------------
# clauses 1-4, 7
# ----------------------------------------------------------------------------------------------------------------
_CHILD_DICT_KEYS = {"components": "components", "network_services": "services", "interfaces": "interfaces"}


def _dict_shape(d, out=None, path=()):
    """{path: {key: is_none}} of a sliver_to_dict result, children matched by Name (path as in E.diff_canon)"""
    out = {} if out is None else out
    out[path] = {k: (x is None) for k, x in d.items() if k not in _CHILD_DICT_KEYS}
    for k in _CHILD_DICT_KEYS:
        for c in d.get(k) or ():
            _dict_shape(c, out, path + ((_CHILD_DICT_KEYS[k], c.get('Name')),))
    return out


def _graph_key_to_prop():
    from fim.graph.abc_property_graph import ABCPropertyGraph
    m = {g: s for s, g in ABCPropertyGraph.SLIVER_PROPERTY_TO_GRAPH.items()}
    m.setdefault(ABCPropertyGraph.PROP_LOCATION, "location")
    m.setdefault(ABCPropertyGraph.PROP_STITCH_NODE, "stitch_node")
    return m


def _run_sliver(case):
    from fim.graph.networkx_property_graph import NetworkXGraphImporter
    from fim.graph.slices.networkx_asm import NetworkxASM
    from fim.graph.abc_property_graph import ABCPropertyGraph
    from fim.slivers.json import JSONSliver
    v = []
    desc = case["desc"]
    key = desc["cls"]
    s = E.build(desc)
    c_ids = E.canon_sliver(s, with_ids=True)
    c_noid = E.canon_sliver(s, with_ids=False)
    for p in desc["props"]:         # harness self-check: every described property is really set on the built sliver
        if c_ids["props"][p] is None:
            raise RuntimeError(f"C02 harness: built sliver lacks described property {p}")
    try:
        d0 = ABCPropertyGraph.sliver_to_dict(s)
    except Exception as ex:         # the conversion under test must not fail on a valid sliver
        d0 = None
        v.append(("C02/dict/sliver_to_dict/raised", f"{key}: {type(ex).__name__}: {ex}"))
    shape0 = _dict_shape(d0) if d0 is not None else {}

    def cls_at(path):
        return E.path_cls(path, key)

    found = {}          # path kind -> {(cls, what): message}; what = property name or "<container>:lost|extra"
    empties = {}        # property -> message (absent value rebuilt as an empty object)

    def record(pathkind, diffs):
        found[pathkind] = {}
        for path, w, a, b in diffs:
            msg = f"at {E.path_str(path)}: {w}: {a!r:.300} -> {b!r:.300}"
            if a is None and _empty_object(b):
                empties.setdefault(w, f"{pathkind} path: {msg}")
            found[pathkind].setdefault((cls_at(path), w), msg)

    # ---- clause 1: graph path
    g = NetworkxASM(graph_id="g-orig", importer=NetworkXGraphImporter())
    parent_id = None
    rebuilt_graph = None
    try:
        if case.get("parent") and key in ("component", "service", "interface"):
            parent_id = "parent-node"
            g.add_node(node_id=parent_id, label=ABCPropertyGraph.CLASS_NetworkNode,
                       props={ABCPropertyGraph.PROP_NAME: "parent", ABCPropertyGraph.PROP_TYPE: "Server"})
        if key == "component" and parent_id is None:
            parent_id = "parent-node"
            g.add_node(node_id=parent_id, label=ABCPropertyGraph.CLASS_NetworkNode,
                       props={ABCPropertyGraph.PROP_NAME: "parent", ABCPropertyGraph.PROP_TYPE: "Server"})
        if key == "node":
            g.add_network_node_sliver(sliver=s)
        elif key == "component":
            g.add_component_sliver(parent_node_id=parent_id, component=s)
        elif key == "service":
            g.add_network_service_sliver(parent_node_id=parent_id, network_service=s)
        elif key == "interface":
            g.add_interface_sliver(parent_node_id=parent_id, interface=s)
        else:
            g.add_network_link_sliver(lsliver=s, interfaces=[])
        written = True
    except Exception as ex:
        written = False
        v.append((f"C02/graph/add_{key}_sliver/raised", f"{type(ex).__name__}: {ex}"))
    if written:
        try:
            nid = desc["node_id"]
            rebuilt_graph = {"node": g.build_deep_node_sliver, "component": g.build_deep_component_sliver,
                             "service": g.build_deep_ns_sliver, "interface": g.build_deep_interface_sliver,
                             "link": g.build_deep_link_sliver}[key](node_id=nid)
        except Exception as ex:
            v.append((f"C02/graph/build_deep_{key}_sliver/raised", f"{type(ex).__name__}: {ex}"))
        if rebuilt_graph is not None:
            record("graph", E.diff_canon(c_ids, E.canon_sliver(rebuilt_graph, with_ids=True)))
        # ---- clause 7 (first half): what was written validates and serialises
        for nm, fn in (("validate_graph", g.validate_graph), ("serialize_graph", g.serialize_graph)):
            try:
                fn()
            except Exception as ex:
                v.append((f"C02/graph/{nm}/raised", f"after add_{key}_sliver: {type(ex).__name__}: {ex}"))

    # ---- clause 2: dictionary path
    from_dict = {"node": ABCPropertyGraph.build_deep_node_sliver_from_dict,
                 "component": ABCPropertyGraph.build_deep_component_sliver_from_dict,
                 "service": ABCPropertyGraph.build_deep_ns_sliver_from_dict,
                 "interface": ABCPropertyGraph.build_deep_interface_sliver_from_dict,
                 "link": ABCPropertyGraph.build_deep_link_sliver_from_dict}[key]
    rebuilt_dict = None
    if d0 is not None:
        try:
            rebuilt_dict = from_dict(props=d0)
        except Exception as ex:
            v.append((f"C02/dict/build_deep_{key}_sliver_from_dict/raised", f"{type(ex).__name__}: {ex}"))
    if rebuilt_dict is not None:
        record("dict", E.diff_canon(c_noid, E.canon_sliver(rebuilt_dict, with_ids=False)))
        # the dictionary in the caller's hands is still the deep dictionary form of the sliver: converting it a
        # second time must give the same sliver again (a conversion that consumes parts of its argument does not)
        try:
            again = from_dict(props=d0)
            dff = E.diff_canon(c_noid, E.canon_sliver(again, with_ids=False))
            if dff and not E.diff_canon(c_noid, E.canon_sliver(rebuilt_dict, with_ids=False)):
                v.append((f"C02/dict/build_deep_{key}_sliver_from_dict/second-conversion-of-same-dict-differs",
                          f"{dff[:3]}"))
        except Exception as ex:
            v.append((f"C02/dict/build_deep_{key}_sliver_from_dict/second-conversion-raised",
                      f"{type(ex).__name__}: {ex}"))

    # ---- clause 3: JSON path
    rebuilt_json = None
    if d0 is not None:              # (a failing sliver_to_dict is already reported above)
        try:
            js = JSONSliver.sliver_to_json(s)
            if key == "node":
                rebuilt_json = JSONSliver.node_sliver_from_json(js)
            elif key == "service":
                rebuilt_json = JSONSliver.network_service_sliver_from_json(js)
            else:
                rebuilt_json = from_dict(props=json.loads(js))
        except Exception as ex:
            v.append((f"C02/json/{key}/raised", f"{type(ex).__name__}: {ex}"))
    if rebuilt_json is not None:
        record("json", E.diff_canon(c_noid, E.canon_sliver(rebuilt_json, with_ids=False)))

    # ---- signatures for clauses 1-3: one per (element class, field); the conversion path is part of the signature
    # only when the loss is specific to it (graph and dict share the decoders; JSON = dict + json text)
    gd, dd, jd = found.get("graph", {}), found.get("dict", {}), found.get("json", {})
    for w in sorted(empties):
        v.append((f"C02/absent-reads-as-empty-object/{w}", empties[w]))
    for k2 in sorted(set(gd) | set(dd) | set(jd)):
        cls2, w = k2
        if w in empties:
            continue
        if k2 in gd and k2 in dd:
            v.append((f"C02/roundtrip/{cls2}/{w}", f"graph and dict paths: {gd[k2]}"))
        elif k2 in gd:
            v.append((f"C02/graph/{cls2}/{w}", gd[k2]))
        elif k2 in dd:
            v.append((f"C02/dict/{cls2}/{w}", dd[k2]))
        else:
            v.append((f"C02/json/{cls2}/{w}", jd[k2]))

    # ---- clause 4: fixpoint of the dictionary form (no key appears, disappears or turns into None);
    # keys whose property already differs under clauses 1-3 are the same finding and are not repeated
    g2p = _graph_key_to_prop()
    for pathkind, rb in (("graph", rebuilt_graph), ("dict", rebuilt_dict), ("json", rebuilt_json)):
        if rb is None:
            continue
        try:
            shape1 = _dict_shape(ABCPropertyGraph.sliver_to_dict(rb))
        except Exception as ex:
            v.append((f"C02/fixpoint/{pathkind}/sliver_to_dict/raised", f"{type(ex).__name__}: {ex}"))
            continue
        known = {(c2, w) for (c2, w) in found.get(pathkind, {})}
        for path in sorted(set(shape0) & set(shape1)):
            k0, k1 = shape0[path], shape1[path]
            for kk in sorted(set(k0) | set(k1)):
                prop = g2p.get(kk, kk)
                if prop in ("image_ref",) and (cls_at(path), "image_type") in known:
                    continue
                if (cls_at(path), prop) in known:
                    continue
                if kk not in k1:
                    v.append((f"C02/fixpoint/{pathkind}/{cls_at(path)}/{kk}/disappeared", f"at {E.path_str(path)}"))
                elif kk not in k0:
                    v.append((f"C02/fixpoint/{pathkind}/{cls_at(path)}/{kk}/appeared", f"at {E.path_str(path)}"))
                elif k1[kk] and not k0[kk]:
                    v.append((f"C02/fixpoint/{pathkind}/{cls_at(path)}/{kk}/became-none", f"at {E.path_str(path)}"))

    # ---- clause 7 (second half): the rebuilt sliver written again still validates and serialises. A failure that
    # comes with a clause-1 difference on the same case is that finding's observable effect, not a second one.
    if rebuilt_graph is not None and key == "node":
        g2 = NetworkxASM(graph_id="g-again", importer=NetworkXGraphImporter())
        try:
            g2.add_network_node_sliver(sliver=rebuilt_graph)
            g2.validate_graph()
            g2.serialize_graph()
        except Exception as ex:
            if not gd:
                v.append(("C02/rewrite/validate-serialize/raised", f"{type(ex).__name__}: {ex}"))

    nodes = list(E.walk(desc))
    labels = ["kind:sliver", f"sliver:{key}"]
    if len(nodes) > 1:
        labels.append("has-children")
    if any(x["cls"] == "interface" and x.get("interfaces") for x in nodes):
        labels.append("has-subinterfaces")
    if key == "node" and desc["services"]:
        labels.append("node-level-service")
    if len(desc["props"]) >= 3:
        labels.append("props>=3")
    if case.get("parent"):
        labels.append("with-parent")
    seen = set()
    for x in nodes:
        for p in x["props"]:
            seen.add(f"set:{x['cls']}.{p}")
    labels += sorted(seen)
    return {"v": v, "nt": len(desc["props"]) >= 3 or len(nodes) > 1, "labels": labels}


# ----------------------------------------------------------------------------------------------------------------
# clauses 5-6
# ----------------------------------------------------------------------------------------------------------------
def _model(flavour):
    import fim.user as f
    if flavour == "experiment":
        t = f.ExperimentTopology()
        n1 = t.add_node(name='n1', site='RENC', ntype=f.NodeType.VM)
        n2 = t.add_node(name='n2', site='UKY')
        c1 = n1.add_component(model_type=f.ComponentModelType.SmartNIC_ConnectX_6, name='nic1')
        c2 = n2.add_component(model_type=f.ComponentModelType.SharedNIC_ConnectX_6, name='nic2')
        n1.add_component(model_type=f.ComponentModelType.GPU_RTX6000, name='gpu1')
        t.add_network_service(name='s1', nstype=f.ServiceType.L2STS,
                              interfaces=[c1.interface_list[0], c2.interface_list[0]])
    else:
        t = f.SubstrateTopology()
        w = t.add_node(name='w1', model='R7525', site='RENC', node_id='W1', ntype=f.NodeType.Server,
                       capacities=f.Capacities(core=32))
        nic = w.add_component(name='w1-nic', model='ConnectX-6', node_id='NIC1', network_service_node_id='NIC1-ns',
                              interface_node_ids=['NIC1-p1', 'NIC1-p2'],
                              interface_labels=[f.Labels(bdf='0000:41:00.0', mac='04:3F:72:B7:14:EC'),
                                                f.Labels(bdf='0000:41:00.1', mac='04:3F:72:B7:14:ED')],
                              ctype=f.ComponentType.SmartNIC, capacities=f.Capacities(unit=1))
        w.add_component(name='w1-gpu', model='RTX6000', node_id='GPU1', ctype=f.ComponentType.GPU)
        sw = t.add_node(name='sw1', site='RENC', node_id='SW1', ntype=f.NodeType.Switch)
        sf = sw.add_network_service(name='sw1-ns', node_id='SW1-ns', nstype=f.ServiceType.MPLS)
        p1 = sf.add_interface(name='p1', node_id='SW1-p1', itype=f.InterfaceType.TrunkPort)
        t.add_link(name='l1', node_id='L1', ltype=f.LinkType.Patch, interfaces=[nic.interface_list[0], p1])
    return t


def _elements(t, ekind):
    if ekind == "Node":
        return [t.nodes[n] for n in sorted(t.nodes)]
    if ekind == "Component":
        return [n.components[c] for n in _elements(t, "Node") for c in sorted(n.components)]
    if ekind == "NetworkService":
        return [t.network_services[n] for n in sorted(t.network_services)]
    if ekind == "Interface":
        return sorted(t.interface_list, key=lambda i: i.name)
    return [t.links[n] for n in sorted(t.links)]


def _is_field_object(x):
    """a mutable structured value (Capacities, Labels, ReservationInfo, Location ...), not an enum member"""
    from fim.slivers.capacities_labels import JSONField
    return isinstance(x, JSONField) and bool(x.__dict__)


def _run_element(case):
    v = []
    ek, p = case["ekind"], case["prop"]
    cls_key = EKINDS[ek]
    kind = E.PROP_KIND[cls_key][p]
    t = _model(case["flavour"])     # building the fixed model is harness code: a failure here is a harness error
    els = _elements(t, ek)
    if not els:
        raise RuntimeError(f"C02 harness: model {case['flavour']} has no {ek}")
    el = els[case["k"] % len(els)]
    if p not in el.list_properties():
        raise RuntimeError(f"C02 harness: {ek} does not list property {p}")
    val = E.make_value(cls_key, p, case["value"])
    expected = E.canon_prop(p, val)
    before = None
    # ---- clause 5: set then get
    ok = True
    try:
        before = E.canon_prop(p, el.get_property(p))
        if kind == "IMG":
            other = "image_type" if p == "image_ref" else "image_ref"
            el.set_properties(**{p: val, other: case["value2"]})
        else:
            el.set_property(p, val)
    except Exception as ex:
        ok = False
        v.append((f"C02/set_property/raised/{p}", f"{ek} ({case['flavour']}): {type(ex).__name__}: {ex}"))
    if ok:
        try:
            raw = el.get_property(p)
            got = E.canon_prop(p, raw)
            if got != expected:
                v.append((f"C02/set_property/readback/{p}",
                          f"{ek} ({case['flavour']}): set {expected!r:.300} read {got!r:.300}"))
            elif _is_field_object(raw):
                # what a read hands out is the caller's own object: changing it in place (without writing it back)
                # must not change what the model reads as next time
                for k_ in list(raw.__dict__):
                    try:
                        setattr(raw, k_, None)
                    except Exception:
                        pass
                again = E.canon_prop(p, el.get_property(p))
                if again != expected:
                    v.append((f"C02/get_property/depends-on-object-read-earlier/{p}",
                              f"{ek} ({case['flavour']}): after clearing the object returned by the first read the "
                              f"property reads {again!r:.300}, stored {expected!r:.300}"))
        except Exception as ex:
            ok = False
            v.append((f"C02/get_property/raised/{p}", f"{ek} ({case['flavour']}): {type(ex).__name__}: {ex}"))
    # ---- clause 6: unset (or set to None)
    if ok and p not in _NO_UNSET_ASSERT:
        target = "image_ref" if kind == "IMG" else p      # the pair is unset through image_ref
        raised = None
        try:
            if case.get("unset_via") == "set_none":
                el.set_property(target, None)
            else:
                el.unset_property(target)
        except Exception as ex:
            raised = ex
        try:
            after = E.canon_prop(p, el.get_property(p))
        except Exception as ex:
            after = None
            v.append((f"C02/get_property/raised-after-unset/{p}", f"{ek}: {type(ex).__name__}: {ex}"))
            raised = raised or ex
        if p in E.IDENTITY_PROPS:
            if raised is None:
                v.append((f"C02/unset_property/identity-not-rejected/{p}", f"{ek} ({case['flavour']})"))
            if after != expected:
                v.append((f"C02/unset_property/identity-changed/{p}", f"{ek}: {expected!r:.200} -> {after!r:.200}"))
        else:
            if raised is not None:
                v.append((f"C02/unset_property/raised/{p}",
                          f"{ek} ({case['flavour']}): {type(raised).__name__}: {raised}"))
            elif _empty_object(after):
                v.append((f"C02/absent-reads-as-empty-object/{p}",
                          f"{ek} ({case['flavour']}) after {case.get('unset_via')}: reads {after!r:.300}"))
            elif after is not None:
                v.append((f"C02/unset_property/still-set/{p}",
                          f"{ek} ({case['flavour']}) via {case.get('unset_via')}: reads {after!r:.300}"))
    labels = ["kind:element", f"el:{ek}.{p}", f"flavour:{case['flavour']}", f"unset:{case.get('unset_via')}"]
    if before is not None:
        labels.append("overwrites-existing-value")
    return {"v": v, "nt": True, "labels": labels}


def run_case(case):
    from fim.graph.networkx_property_graph import NetworkXGraphStorage
    from fim.graph.networkx_property_graph_disjoint import NetworkXGraphStorageDisjoint
    NetworkXGraphStorage.storage_instance = None
    NetworkXGraphStorageDisjoint.storage_instance = None
    E.check_table()
    if case["kind"] == "sliver":
        return _run_sliver(case)
    return _run_element(case)


def _svc(name, nid, props=None, ifs=()):
    return {"cls": "service", "name": name, "type": "L2Bridge", "node_id": nid, "props": props or {},
            "interfaces": list(ifs)}


def _ifc(name, nid, typ, subs=()):
    return {"cls": "interface", "name": name, "type": typ, "node_id": nid, "props": {}, "interfaces": list(subs)}


PROBES = {
    SIG_GATEWAY: {"kind": "sliver", "parent": False, "desc": _svc("s1", "s")},
    SIG_SUBIF: {"kind": "sliver", "parent": False,
                "desc": _svc("s1", "s", ifs=[_ifc("p1", "s/i0", "DedicatedPort",
                                                  [_ifc("u1", "s/i0/u0", "SubInterface")])])},
    SIG_LOCATION: {"kind": "element", "flavour": "experiment", "ekind": "Node", "k": 0, "prop": "location",
                   "value": {"postal": "100 Europa Dr"}, "unset_via": "unset"},
}
