"""
C06 - neighbour and path queries return exactly what their contract describes (DESIGN.md §C06).

case = {"fl": "shared"|"disjoint", "cls": [class index per node], "edges": [[i, j, rel index], ...],
        "decoy": [[i, j, rel index], ...] | None,          # a second graph re-using the NodeIDs
        "hopq": [[a, z, [hop, ...]], ...] | None}          # None = every (a, z, hops<=2) combination
All neighbour / two-hop / shortest-path queries over every node, relation and class of the vocabulary are
run on every case; the oracle is computed from the case's node/edge lists by set comprehension / BFS /
exhaustive simple-path search written here (no networkx).
"""
import itertools
from hypothesis import strategies as st
from fimverif.engines import store

ID = "C06"
CLASSES = ["NetworkNode", "Component", "NetworkService", "ConnectionPoint", "Link"]
# (the third relation's name contains the second's: relation names are compared, never searched)
RELS = ["has", "connects", "connects_to"]
RULE = ("Typed graphs: exhaustive enumeration of all graphs with <=3 (quick) / <=4 (thorough) nodes over 2 classes "
        "x {no edge, 2 relations} per node pair, plus Hypothesis-generated graphs of 4-8 nodes over 5 FIM classes and "
        "3 relations, optionally with a decoy graph re-using the NodeIDs in the same store and (shared store) a "
        "neighbour graph whose twin nodes are merged into the queried graph so that edges lead out of it, on both "
        "store flavours. "
        "On each graph every first-neighbour, two-hop and shortest-path query (all start/end nodes, relations, "
        "classes) and path-with-hops queries (all hop multisets of size<=2 on small graphs - a hop may be named twice -, generated ones on larger) "
        "plus the derived helpers are compared with an oracle computed from the edge list. Non-trivial: the graph "
        "has edges of >=2 relations and some query's answer differs from the answer with its relation/class filter "
        "removed. Distinct by hash of the case.")
ASSUMPTIONS = ["one edge per node pair (the store is a simple undirected graph, as the interface documents)",
               "a == z is excluded from path-with-hops queries (the contract does not say what a zero-length "
               "path with hops is)",
               "any shortest / qualifying path is accepted (validity predicate), not one particular path"]
BUDGET = {"quick": 2500, "thorough": 25000}
ENUM_EXHAUSTIVE = True
EXHAUSTIVE_NOTE = ("exhaustive over graphs with n<=3 nodes in quick and n<=4 in thorough (2 classes, 2 relations); "
                   "quick additionally runs every 8th n=4 graph")
MIN_LABEL_FRACTION = {"nontrivial": 0.3, "decoy": 0.1, "disjoint": 0.15}
# directed probes for the known finding (one root cause: the second-hop relation filter is ineffective)
PROBES = {
    "C06/get_first_and_second_neighbor/rel2-filter-ignored":
        {"fl": "shared", "cls": [2, 2, 3], "edges": [[0, 2, 1], [1, 2, 0]], "decoy": None, "hopq": None},
    "C06/find_peer_connection_points/rel2-filter-ignored":
        {"fl": "shared", "cls": [3, 4, 3], "edges": [[0, 1, 1], [1, 2, 0]], "decoy": None, "hopq": None},
    "C06/get_all_node_or_component_connection_points/rel2-filter-ignored":
        {"fl": "shared", "cls": [0, 2, 3], "edges": [[0, 1, 0], [1, 2, 0]], "decoy": None, "hopq": None},
}


# ------------------------------------------------------------------ generation
def _all_graphs(n, ncls=2, nrel=2):
    pairs = list(itertools.combinations(range(n), 2))
    for cls in itertools.product(range(ncls), repeat=n):
        for es in itertools.product(range(nrel + 1), repeat=len(pairs)):
            edges = [[i, j, r - 1] for (i, j), r in zip(pairs, es) if r > 0]
            yield list(cls), edges


def enumerate_cases(tier):
    # classes 2,3 = NetworkService, ConnectionPoint; relations 0,1 = has, connects
    k = 0
    for n in (1, 2, 3, 4):
        for cls, edges in _all_graphs(n):
            k += 1
            if n == 4 and tier == "quick" and k % 8 != 0:
                continue
            fl = "disjoint" if (k % 3 == 0) else "shared"
            yield {"fl": fl, "cls": [c + 2 for c in cls], "edges": edges, "decoy": None, "hopq": None}


@st.composite
def _case(draw):
    n = draw(st.integers(4, 8))
    ncls = draw(st.sampled_from([2, 3, 5]))
    cls = [draw(st.integers(0, ncls - 1)) for _ in range(n)]
    pairs = list(itertools.combinations(range(n), 2))
    dens = draw(st.sampled_from([0.2, 0.35, 0.5, 0.8]))
    nrel = draw(st.sampled_from([2, 3]))
    edges = []
    for (i, j) in pairs:
        if draw(st.floats(0, 1)) < dens:
            edges.append([i, j, draw(st.integers(0, nrel - 1))])
    decoy = None
    if draw(st.booleans()):
        decoy = [[i, j, draw(st.integers(0, nrel - 1))] for (i, j) in pairs if draw(st.integers(0, 2)) == 0]
    hopq = None
    if n > 5 or len(edges) > 9:
        hopq = []
        for _ in range(draw(st.integers(4, 12))):
            a = draw(st.integers(0, n - 1))
            z = draw(st.integers(0, n - 2))
            z = z if z < a else z + 1
            # (a hop may be named more than once: the list is a requirement, not a route)
            hops = draw(st.lists(st.integers(0, n - 1), max_size=3, unique=draw(st.integers(0, 3)) > 0))
            hopq.append([a, z, hops])
    case = {"fl": draw(st.sampled_from(["shared", "shared", "disjoint"])), "cls": cls, "edges": edges,
            "decoy": decoy, "hopq": hopq}
    if case["fl"] == "shared" and draw(st.integers(0, 2)) == 0:
        # a neighbour graph holding twins of some nodes, each twin with a neighbour of its own; the twins are merged
        # into the queried graph (merge_nodes), which leaves edges from the queried graph into the neighbour graph
        case["bridge"] = draw(st.lists(st.tuples(st.integers(0, n - 1), st.integers(0, ncls - 1),
                                                 st.integers(0, nrel - 1)).map(list), min_size=1, max_size=3))
    return case


def strategy(tier):
    return _case()


# ------------------------------------------------------------------ oracle helpers (no networkx)
def _adj(n, edges):
    adj = {i: {} for i in range(n)}
    for i, j, r in edges:
        adj[i][j] = r
        adj[j][i] = r
    return adj


def _bfs_dist(adj, a, z, rel):
    if a == z:
        return 0
    seen, frontier, d = {a}, [a], 0
    while frontier:
        d += 1
        nxt = []
        for u in frontier:
            for w, r in adj[u].items():
                if (rel is None or r == rel) and w not in seen:
                    if w == z:
                        return d
                    seen.add(w)
                    nxt.append(w)
        frontier = nxt
    return None


def _simple_paths(adj, a, z):
    path, on = [a], {a}

    def rec(u):
        for w in sorted(adj[u]):
            if w in on:
                continue
            if w == z:
                yield path + [w]
                continue
            path.append(w)
            on.add(w)
            yield from rec(w)
            path.pop()
            on.discard(w)
    yield from rec(a)


def _chordless(adj, p):
    """the subgraph induced by the path's nodes has no cycle <=> no edge between non-consecutive path nodes"""
    pos = {u: k for k, u in enumerate(p)}
    for u in p:
        for w in adj[u]:
            if w in pos and abs(pos[w] - pos[u]) > 1:
                return False
    return True


def cls_i(case, i):
    return case["cls"][i]


# ------------------------------------------------------------------ the check
def run_case(case):
    from fim.graph.abc_property_graph import ABCPropertyGraph
    store.reset_stores()
    v = []
    seen_sig = set()

    def viol(sig, msg):
        if sig not in seen_sig:
            seen_sig.add(sig)
            v.append((f"C06/{sig}", f"{msg} | graph cls={case['cls']} edges={case['edges']} fl={case['fl']}"))

    n = len(case["cls"])
    ids = [f"n{i}" for i in range(n)]
    idx = {s: i for i, s in enumerate(ids)}
    imp = store.make_importer(case["fl"])
    desc = {"nodes": [{"id": ids[i], "cls": CLASSES[case["cls"][i]], "props": {"Name": f"name{i}"}} for i in range(n)],
            "edges": [{"a": i, "b": j, "rel": RELS[r]} for i, j, r in case["edges"]]}
    if case.get("decoy") is not None:
        d = store.graph_handle(imp, "decoy-before")
        store.load_raw(d, {"nodes": [{"id": ids[i], "cls": CLASSES[(case["cls"][i] + 1) % 5],
                                      "props": {"Name": f"name{i}"}} for i in range(n)],
                           "edges": [{"a": i, "b": j, "rel": RELS[r]} for i, j, r in case["decoy"]]})
    g = store.graph_handle(imp, "g")
    store.load_raw(g, desc)
    if case.get("decoy") is not None:
        d2 = store.graph_handle(imp, "decoy-after")
        store.load_raw(d2, {"nodes": [{"id": ids[i], "cls": CLASSES[case["cls"][i]]} for i in range(n)],
                            "edges": [{"a": i, "b": j, "rel": RELS[(r + 1) % 3]} for i, j, r in case["decoy"]]})

    bridged = set()
    if case.get("bridge") and case["fl"] == "shared":
        nb = store.graph_handle(imp, "neighbour")
        for k, (i, c, r) in enumerate(case["bridge"]):
            if i >= n or i in bridged:
                continue
            bridged.add(i)
            nb.add_node(node_id=ids[i], label=CLASSES[cls_i(case, i)], props={"Name": f"name{i}"})
            nb.add_node(node_id=f"foreign{k}", label=CLASSES[c], props={"Name": f"foreign{k}"})
            nb.add_link(node_a=ids[i], rel=RELS[r], node_b=f"foreign{k}")
        for i in sorted(bridged):
            g.merge_nodes(node_id=ids[i], other_graph=nb)

    adj = _adj(n, case["edges"])
    cls = case["cls"]
    used_rels = sorted({r for _, _, r in case["edges"]})
    rel_space = sorted(set(used_rels) | {0, 1})
    cls_space = sorted(set(cls) | {min(4, max(cls) + 1)})
    filter_mattered = False

    def call(sig, fn):
        try:
            return True, fn()
        except Exception as e:
            viol(f"{sig}/raised", f"{type(e).__name__}: {e}")
            return False, None

    # ---- clause 1: first neighbour
    for a in range(n):
        for r in rel_space:
            for L in cls_space:
                ok, res = call("get_first_neighbor", lambda: g.get_first_neighbor(
                    node_id=ids[a], rel=RELS[r], node_label=CLASSES[L]))
                if not ok:
                    continue
                exp = sorted(ids[b] for b, rr in adj[a].items() if rr == r and cls[b] == L)
                if sorted(res) != exp:
                    viol("get_first_neighbor/exact", f"a={ids[a]} rel={RELS[r]} label={CLASSES[L]} got={sorted(res)} "
                                                     f"expected={exp}")
                if exp != sorted(ids[b] for b in adj[a]):
                    filter_mattered = True

    # ---- clause 2: first and second neighbour
    for a in range(n):
        for r1 in rel_space:
            for L1 in cls_space:
                firsts = [b for b, rr in adj[a].items() if rr == r1 and cls[b] == L1]
                for r2 in rel_space:
                    for L2 in cls_space:
                        ok, res = call("get_first_and_second_neighbor", lambda: g.get_first_and_second_neighbor(
                            node_id=ids[a], rel1=RELS[r1], node1_label=CLASSES[L1], rel2=RELS[r2],
                            node2_label=CLASSES[L2]))
                        if not ok:
                            continue
                        exp = sorted([ids[b], ids[c]] for b in firsts for c, rr in adj[b].items()
                                     if rr == r2 and cls[c] == L2 and c != a)
                        got = sorted(list(x) for x in res)
                        if got != exp:
                            unf = sorted([ids[b], ids[c]] for b in firsts for c in adj[b] if cls[c] == L2 and c != a)
                            which = "rel2-filter-ignored" if got == unf else "exact"
                            viol(f"get_first_and_second_neighbor/{which}",
                                 f"a={ids[a]} rel1={RELS[r1]} L1={CLASSES[L1]} rel2={RELS[r2]} L2={CLASSES[L2]} "
                                 f"got={got} expected={exp}")

    # ---- clause 3: shortest path
    for a in range(n):
        for z in range(n):
            for r in [None] + rel_space:
                relname = None if r is None else RELS[r]
                sig = "get_nodes_on_shortest_path" + ("" if r is None else "/rel")
                ok, res = call(sig, lambda: g.get_nodes_on_shortest_path(node_a=ids[a], node_z=ids[z], rel=relname))
                if not ok:
                    continue
                dist = _bfs_dist(adj, a, z, r)
                if dist is None:
                    if list(res) != []:
                        viol(f"{sig}/nonempty-when-unreachable", f"a={ids[a]} z={ids[z]} rel={relname} got={res}")
                    continue
                if r is not None and _bfs_dist(adj, a, z, None) != dist:
                    filter_mattered = True
                p = list(res)
                good = len(p) == dist + 1 and p and p[0] == ids[a] and p[-1] == ids[z] and \
                    all(x in idx for x in p) and \
                    all(idx[p[k + 1]] in adj[idx[p[k]]] and (r is None or adj[idx[p[k]]][idx[p[k + 1]]] == r)
                        for k in range(len(p) - 1))
                if not good:
                    viol(f"{sig}/not-a-shortest-path", f"a={ids[a]} z={ids[z]} rel={relname} got={p} distance={dist}")

    # ---- clause 4: path with hops
    if case.get("hopq") is None:
        hopq = [[a, z, list(h)] for a in range(n) for z in range(n) if a != z
                for k in (0, 1, 2) for h in itertools.combinations_with_replacement(range(n), k)]
    else:
        hopq = [q for q in case["hopq"] if q[0] != q[1] and q[0] < n and q[1] < n and all(h < n for h in q[2])]
    paths_cache = {}
    for a, z, hops in hopq:
        ok, res = call("get_nodes_on_path_with_hops", lambda: g.get_nodes_on_path_with_hops(
            node_a=ids[a], node_z=ids[z], hops=[ids[h] for h in hops]))
        if not ok:
            continue
        if (a, z) not in paths_cache:
            paths_cache[(a, z)] = [p for p in _simple_paths(adj, a, z) if _chordless(adj, p)]
        qual = [p for p in paths_cache[(a, z)] if all(h in p for h in hops)]
        p = list(res)
        if not qual:
            if p != []:
                viol("get_nodes_on_path_with_hops/nonempty-when-none-qualifies",
                     f"a={ids[a]} z={ids[z]} hops={hops} got={p}")
            continue
        best = min(len(q) for q in qual)
        if p == []:
            viol("get_nodes_on_path_with_hops/empty-when-path-exists", f"a={ids[a]} z={ids[z]} hops={hops} "
                                                                        f"a qualifying path: {qual[0]}")
            continue
        pi = [idx.get(x) for x in p]
        if pi not in qual:
            viol("get_nodes_on_path_with_hops/not-qualifying", f"a={ids[a]} z={ids[z]} hops={hops} got={p}")
        elif len(pi) != best:
            viol("get_nodes_on_path_with_hops/not-shortest", f"a={ids[a]} z={ids[z]} hops={hops} got={p} "
                                                              f"shortest qualifying length={best}")

    # ---- clause 5: derived helpers (same set comprehensions)
    HAS, CON = 0, 1
    C_NN, C_COMP, C_NS, C_CP, C_LINK = 0, 1, 2, 3, 4
    for a in range(n):
        # get_parent(node, rel, parent class)
        for r in (HAS, CON):
            for L in cls_space:
                ok, res = call("get_parent", lambda: g.get_parent(node_id=ids[a], rel=RELS[r], parent=CLASSES[L]))
                if ok:
                    par = [b for b, rr in adj[a].items() if rr == r and cls[b] == L]
                    exp = (f"name{par[0]}", ids[par[0]]) if len(par) == 1 else (None, None)
                    if tuple(res) != exp:
                        viol("get_parent/exact", f"node={ids[a]} rel={RELS[r]} parent={CLASSES[L]} got={res} exp={exp}")
        if cls[a] == C_CP:
            ok, res = call("find_peer_connection_points", lambda: g.find_peer_connection_points(node_id=ids[a]))
            if ok:
                exp = sorted(ids[c] for b, rr in adj[a].items() if rr == CON and cls[b] == C_LINK
                             for c, r2 in adj[b].items() if r2 == CON and cls[c] == C_CP and c != a)
                got = None if res is None else sorted(res)
                if got != (exp if exp else None):
                    unf = sorted(ids[c] for b, rr in adj[a].items() if rr == CON and cls[b] == C_LINK
                                 for c in adj[b] if cls[c] == C_CP and c != a)
                    which = "rel2-filter-ignored" if got == (unf or None) else "exact"
                    viol(f"find_peer_connection_points/{which}", f"cp={ids[a]} got={got} expected={exp or None}")
            ok, res = call("get_all_child_connection_points", lambda: g.get_all_child_connection_points(ids[a]))
            if ok:
                exp = sorted(ids[b] for b, rr in adj[a].items() if rr == CON and cls[b] == C_CP)
                if sorted(res) != exp:
                    viol("get_all_child_connection_points/exact", f"cp={ids[a]} got={sorted(res)} expected={exp}")
        if cls[a] in (C_NN, C_COMP):
            ok, res = call("get_all_node_or_component_connection_points",
                           lambda: g.get_all_node_or_component_connection_points(ids[a]))
            if ok:
                exp = sorted(ids[c] for b, rr in adj[a].items() if rr == HAS and cls[b] == C_NS
                             for c, r2 in adj[b].items() if r2 == CON and cls[c] == C_CP and c != a)
                if sorted(res) != exp:
                    unf = sorted(ids[c] for b, rr in adj[a].items() if rr == HAS and cls[b] == C_NS
                                 for c in adj[b] if cls[c] == C_CP and c != a)
                    which = "rel2-filter-ignored" if sorted(res) == unf else "exact"
                    viol(f"get_all_node_or_component_connection_points/{which}",
                         f"parent={ids[a]} got={sorted(res)} expected={exp}")
        if cls[a] in (C_LINK, C_NS):
            ok, res = call("get_all_ns_or_link_connection_points",
                           lambda: g.get_all_ns_or_link_connection_points(ids[a]))
            if ok:
                exp = sorted(ids[b] for b, rr in adj[a].items() if rr == CON and cls[b] == C_CP)
                if sorted(res) != exp:
                    viol("get_all_ns_or_link_connection_points/exact", f"node={ids[a]} got={sorted(res)} exp={exp}")

    # queries must not have changed the graph
    if store.canon(imp, "g") != store.canon_desc(desc):
        viol("queries-mutated-graph", "graph content differs after read-only queries")

    labels = [case["fl"]]
    if case.get("decoy") is not None:
        labels.append("decoy")
    nt = len(used_rels) >= 2 and filter_mattered
    if nt:
        labels.append("nontrivial")
    if bridged:
        labels.append("edges-into-neighbour-graph")
    labels.append(f"n={n}")
    return {"v": v, "nt": nt, "labels": labels}
