"""
C01 Domain B: models reachable through the topology-building API, aggregate models with delegations, the
delegation models generate_adms derives from them and the advertisements shipped in the repository, pushed through
the same round-trip battery as raw graphs (c01.roundtrip_battery) plus Topology.serialize / Topology.load and
the deep-sliver comparison (clause 6).

case {"kind": "topo", "flavour": ..., "prog": [...]}    model built by a topology program (engines/topo.py)
case {"kind": "file", "name": "RENCI-ad.graphml", "adms": bool}   shipped advertisement (and its delegation models)
"""
import os
import tempfile

from fimverif.engines import store, topo, values


def deep_slivers(h):
    """comparable deep slivers of every element of graph handle h (clause 6)"""
    from fimverif.engines import slivers as sl
    out = {}
    snap_ids = h.list_all_node_ids()
    for nid in sorted(snap_ids):
        labels, props = h.get_node_properties(node_id=nid)
        c = labels[0]
        if c in ("NetworkNode", "CompositeNode"):
            s = h.build_deep_node_sliver(node_id=nid)
        elif c == "Component":
            s = h.build_deep_component_sliver(node_id=nid)
        elif c == "NetworkService":
            s = h.build_deep_ns_sliver(node_id=nid)
        elif c == "ConnectionPoint":
            s = h.build_deep_interface_sliver(node_id=nid)
        elif c == "Link":
            s = h.build_deep_link_sliver(node_id=nid)
        else:
            continue
        out[nid] = sl.canon_sliver(s)
    return out


def _asm_handle(imp, gid):
    from fim.graph.slices.networkx_asm import NetworkxASM
    return NetworkxASM(graph_id=gid, importer=imp)


def run_topo_case(case):
    if case["kind"] == "file":
        return run_file_case(case)
    from fim.graph.abc_property_graph import GraphFormat
    from fim.user.topology import ExperimentTopology, SubstrateTopology
    v, seen = [], set()
    labels = {"topo", case["flavour"]}

    def viol(sig, msg):
        if sig not in seen:
            seen.add(sig)
            v.append((f"C01/topo/{sig}", f"{msg} | flavour={case['flavour']} prog={_short(case['prog'])}"))

    it = topo.Interp(case["flavour"], exclude=("rename-collide", "dangling-sp", "artefact-name"))
    nt = False
    try:
        for op in case["prog"]:
            it.apply(op)
        s0 = it.snap()
        if not s0.nodes:
            return {"v": [], "nt": False, "labels": sorted(labels | {"empty-model"})}
        gm = it.topo.graph_model
        imp, gid = gm.importer, gm.graph_id
        before = s0.canon()

        def deep(h):
            return deep_slivers(_asm_handle(imp, h.graph_id))
        from fimverif.props.c01 import roundtrip_battery
        roundtrip_battery(imp, "shared", gid, viol, protect=(), deep=deep)
        # the battery re-imports under the same id (string-same, direct): the model must still be what it was
        if it.snap().canon() != before:
            viol("model-changed-by-round-trips", f"{topo.diff_snap(s0, it.snap())}")
        # Topology.serialize / Topology.load
        cls = ExperimentTopology if case["flavour"] == "experiment" else SubstrateTopology
        for fmtname, fmt in (("graphml", GraphFormat.GRAPHML), ("json", GraphFormat.JSON_NODELINK)):
            try:
                text = it.topo.serialize(fmt=fmt)
                fd, path = tempfile.mkstemp(prefix="c01t-", suffix=".txt")
                os.close(fd)
                try:
                    it.topo.serialize(file_name=path, fmt=fmt)
                    with open(path, encoding="utf-8") as f:
                        if f.read() != text:
                            viol(f"topology-serialize/{fmtname}/file-differs-from-string", "file and string output differ")
                    for how in ("graph_string", "file_name", "new_graph_id"):
                        t2 = cls(importer=imp)
                        if how == "graph_string":
                            t2.load(graph_string=text)
                            want_gid = gid
                        elif how == "file_name":
                            t2.load(file_name=path)
                            want_gid = gid
                        else:
                            t2.load(graph_string=text, new_graph_id="reloaded-" + fmtname)
                            want_gid = "reloaded-" + fmtname
                        if t2.graph_model.graph_id != want_gid:
                            viol(f"topology-load/{fmtname}/{how}/graph-id", f"{t2.graph_model.graph_id!r} != {want_gid!r}")
                        c2 = topo.Snap(t2.graph_model).canon()
                        if c2 != before:
                            viol(f"topology-load/{fmtname}/{how}/content", "loaded topology differs from the original")
                        names = sorted(n.name for n in t2.nodes.values())
                        if names != sorted(s0.name(n) for n in s0.ids("NetworkNode") if s0.typ(n) != "Facility"):
                            viol(f"topology-load/{fmtname}/{how}/nodes-view", f"nodes view {names}")
                finally:
                    os.unlink(path)
            except Exception as e:
                viol(f"topology-serialize-load/{fmtname}/raised", f"{type(e).__name__}: {e}")
        hard = any(isinstance(x, str) and values.is_hard_text(x) for d in s0.nodes.values() for x in d.values())
        nt = len(s0.nodes) >= 2 and bool(s0.edge_props) and hard
        labels.add(f"size>={min(40, 10 * (len(s0.nodes) // 10))}")
        if s0.ids("Link"):
            labels.add("has-links")
        if any(s0.is_sub(c) for c in s0.ids("ConnectionPoint")):
            labels.add("has-sub-interfaces")
    finally:
        it.close()
    if nt:
        labels.add("nontrivial")
    return {"v": v, "nt": nt, "labels": sorted(labels)}


def run_file_case(case):
    from fim.graph.resources.networkx_arm import NetworkXARMGraph
    from fimverif.props.c01 import roundtrip_battery
    store.reset_stores()
    topo.install_uuid()
    v, seen = [], set()

    def viol(sig, msg):
        if sig not in seen:
            seen.add(sig)
            v.append((f"C01/file/{sig}", f"{msg} | file={case['name']}"))
    try:
        imp = store.make_importer("shared")
        path = os.path.join(os.environ.get("VERIF_REPO", "/repo"), case["name"])
        g = imp.import_graph_from_file(graph_file=path, graph_id="shipped")

        def deep(h):
            return deep_slivers(_asm_handle(imp, h.graph_id))
        roundtrip_battery(imp, "shared", "shipped", viol, deep=deep)
        if case.get("adms"):
            arm = NetworkXARMGraph(graph=g)
            try:
                adms = arm.generate_adms()
            except Exception as e:
                viol("generate_adms/raised", f"{type(e).__name__}: {e}")
                adms = {}
            for k in sorted(adms):
                roundtrip_battery(imp, "shared", adms[k].graph_id,
                                  lambda sig, msg: viol("adm/" + sig, msg), protect=("shipped",), deep=deep)
    finally:
        topo.restore_uuid()
    return {"v": v, "nt": True, "labels": ["file", "nontrivial"] + (["with-adms"] if case.get("adms") else [])}


def _short(x):
    import json
    s = json.dumps(x, default=str)
    return s if len(s) < 2000 else s[:2000] + "..."
