"""
C05 - the two in-memory backends agree with each other and with the documented interface (DESIGN.md §C05).

case = {"base": "empty"|"populated", "ops": [[opname, args...], ...]}
Lock-step execution on the shared-store backend, the per-graph backend and the reference model (E3).
"""
import itertools
from hypothesis import strategies as st
from fimverif.engines import store
from fimverif.engines.refmodel import RefStore, ModelRaise, UNSPEC

ID = "C05"
RULE = ("Operation sequences over a small alphabet (graphs g,h; node ids a,b,c; classes X,Y; relations r,s; property "
        "names p,q,Name,Type + identity names; values 1,'v','w'), executed in lock-step on the shared-store backend, "
        "the per-graph backend and an executable reference model: exhaustively over a 54-operation reduced alphabet "
        "from an empty, a populated and a 'twins' base state (both graphs hold the same two linked nodes) (quick: "
        "depth<=2 complete and every 9th depth-3 sequence; thorough: "
        "depth<=3 complete), and Hypothesis-generated sequences of up to 40 operations over the full alphabet. After "
        "every step the call's result / raised-or-not and the canonical content of both graphs (and merge-created "
        "cross-graph edges) are compared three ways. Non-trivial: the sequence contains a mutation followed by an "
        "observation of the mutated element, or an error-path call. Distinct by hash of the case.")
ASSUMPTIONS = ["reference model = my reading of the ABCPropertyGraph docstrings (DESIGN.md Appendix A)",
               "self-links and updates of NodeID/GraphID are outside the generated alphabet",
               "merge policies 'overwrite'/'combine' for a property missing on the other node are unspecified",
               "raised/not-raised is compared, not exception classes"]
BUDGET = {"quick": 4000, "thorough": 60000}
ENUM_EXHAUSTIVE = False   # quick samples depth 3; see EXHAUSTIVE_NOTE
EXHAUSTIVE_NOTE = "depth<=2 over the reduced alphabet is complete in quick; depth<=3 complete in thorough"
MIN_LABEL_FRACTION = {"nontrivial": 0.5, "has-error-path": 0.3}

GRAPHS = ["g", "h"]
IDS = ["a", "b", "c"]
CLS = ["X", "Y"]
RELS = ["r", "s"]
PNAMES = ["p", "q", "Name", "Type"]
IDENT = ["Class", "NodeID", "GraphID", "Type", "Name"]
VALS = [1, "v", "w"]

MUTATORS = {"add_node", "delete_node", "add_link", "upd_node", "unset_node", "upd_node_props", "upd_nodes",
            "upd_link", "unset_link", "upd_link_props", "merge", "delete_graph"}
OBSERVERS = {"get_node", "get_link", "list_ids", "by_class", "by_class_type", "node_exists", "unique",
             "graph_exists", "matching"}

BASE_POPULATED = [
    ["add_node", "g", "a", "X", {"p": 1, "Name": "v"}],
    ["add_node", "g", "b", "Y", {"Type": "v"}],
    ["add_link", "g", "a", "r", "b", {"p": "v"}],
    ["add_node", "h", "a", "X", {"p": "w", "q": 1}],
    ["add_node", "h", "c", "Y", {"Name": "v"}],
    ["add_link", "h", "a", "s", "c", None],
]

# both graphs hold nodes a and b joined by a link (different relation and properties): merging b and then a makes
# the second merge meet a neighbour both nodes are linked to ("common relationships are merged")
BASE_TWINS = [
    ["add_node", "g", "a", "X", {"p": 1, "Name": "v"}],
    ["add_node", "g", "b", "Y", {"Type": "v"}],
    ["add_link", "g", "a", "r", "b", {"p": "v"}],
    ["add_node", "h", "a", "X", {"p": "w", "q": 1}],
    ["add_node", "h", "b", "Y", {"Name": "v"}],
    ["add_link", "h", "a", "s", "b", {"q": "w"}],
    ["add_node", "h", "c", "Y", None],
    ["add_link", "h", "b", "s", "c", None],
]
BASES = {"populated": BASE_POPULATED, "twins": BASE_TWINS}

REDUCED = [
    ["add_node", "g", "a", "X", None], ["add_node", "g", "a", "Y", None], ["add_node", "g", "c", "X", {"p": 1}],
    ["add_node", "h", "a", "X", {"p": "v"}],
    ["delete_node", "g", "a"], ["delete_node", "g", "c"],
    ["add_link", "g", "a", "r", "b", None], ["add_link", "g", "a", "s", "b", None],
    ["add_link", "g", "a", "r", "c", {"q": "v"}],
    ["upd_node", "g", "a", "p", "v"], ["upd_node", "g", "a", "Class", "Y"], ["upd_node", "g", "a", "Name", "w"],
    ["upd_node", "g", "c", "p", 1],
    ["unset_node", "g", "a", "p"], ["unset_node", "g", "a", "Name"], ["unset_node", "g", "a", "Class"],
    ["unset_node", "g", "a", "NodeID"], ["unset_node", "g", "a", "GraphID"], ["unset_node", "g", "b", "Type"],
    ["unset_node", "g", "a", "q"],
    ["upd_node_props", "g", "a", {"p": "w", "q": 1}], ["upd_node_props", "g", "a", {"Class": "Y", "p": 1}],
    ["upd_node_props", "g", "a", {"Class": "", "p": 1}],
    ["upd_nodes", "g", "q", "v"], ["upd_nodes", "g", "Class", "Y"],
    ["upd_link", "g", "a", "b", "r", "p", 1], ["upd_link", "g", "a", "b", "s", "p", 1],
    ["upd_link", "g", "a", "b", "r", "Class", "s"],
    ["unset_link", "g", "a", "b", "r", "p"], ["unset_link", "g", "a", "b", "r", "Class"],
    ["upd_link_props", "g", "b", "a", "r", {"p": "w"}], ["upd_link_props", "g", "a", "b", "r", {"Class": "s"}],
    ["upd_link_props", "g", "a", "b", "r", {"Class": "s", "q": 1}],
    ["get_node", "g", "a"], ["get_link", "g", "a", "b"], ["list_ids", "g"], ["by_class", "g", "X"],
    ["by_class_type", "g", "Y", "v"], ["node_exists", "g", "a", "X"], ["node_exists", "g", "a", "Y"],
    ["unique", "g", "X", "v"], ["graph_exists", "g"], ["matching", "g", "h"],
    ["merge", "g", "a", "h", None], ["merge", "g", "b", "h", None], ["merge", "g", "a", "h", {"p": "combine"}],
    ["merge", "g", "a", "h", {"p": "overwrite", "Name": "discard"}],
    ["delete_graph", "g"], ["delete_graph", "h"], ["get_node", "h", "a"], ["get_link", "h", "a", "c"],
    ["list_ids", "h"],
]


def enumerate_cases(tier):
    k = 0
    for base in ("populated", "twins", "empty"):
        for depth in (1, 2, 3):
            for seq in itertools.product(range(len(REDUCED)), repeat=depth):
                k += 1
                if depth == 3 and tier == "quick" and k % 9 != 0:
                    continue
                yield {"base": base, "ops": [REDUCED[i] for i in seq]}


# ------------------------------------------------------------------ random sequences
_g = st.sampled_from(GRAPHS)
_i = st.sampled_from(IDS)
_c = st.sampled_from(CLS)
_r = st.sampled_from(RELS)
_pn = st.sampled_from(PNAMES)
_pn_any = st.sampled_from(PNAMES + PNAMES + IDENT)
_pn_upd = st.sampled_from(PNAMES + PNAMES + ["Class"])
_v = st.sampled_from(VALS)
_props = st.one_of(st.none(), st.dictionaries(_pn, _v, max_size=3))
# (values for the protected name include "nothing-like" ones: the guard is about the NAME being offered, not about
# the value looking like a class)
_v_or_falsy = st.one_of(_v, _v, st.sampled_from(["", 0]))
_props_cls = st.dictionaries(st.sampled_from(PNAMES + ["Class"]), _v_or_falsy, min_size=1, max_size=3)
_policy = st.one_of(st.none(), st.dictionaries(_pn, st.sampled_from(["discard", "overwrite", "combine"]), max_size=3))


@st.composite
def _pair(draw):
    a = draw(_i)
    b = draw(st.sampled_from([x for x in IDS if x != a]))
    return a, b


@st.composite
def _op(draw):
    k = draw(st.sampled_from(
        ["add_node"] * 6 + ["add_link"] * 5 + ["delete_node", "upd_node", "upd_node", "unset_node", "unset_node",
                                               "upd_node_props", "upd_nodes", "upd_link", "upd_link", "unset_link",
                                               "upd_link_props", "get_node", "get_node", "get_link", "get_link",
                                               "list_ids", "by_class", "by_class_type", "node_exists", "unique",
                                               "graph_exists", "matching", "merge", "merge", "delete_graph"]))
    g = draw(_g)
    if k == "add_node":
        return [k, g, draw(_i), draw(_c), draw(_props)]
    if k == "delete_node":
        return [k, g, draw(_i)]
    if k == "add_link":
        a, b = draw(_pair())
        return [k, g, a, draw(_r), b, draw(_props)]
    if k == "upd_node":
        return [k, g, draw(_i), draw(_pn_upd), draw(_v)]
    if k == "unset_node":
        return [k, g, draw(_i), draw(_pn_any)]
    if k == "upd_node_props":
        return [k, g, draw(_i), draw(_props_cls)]
    if k == "upd_nodes":
        return [k, g, draw(_pn_upd), draw(_v)]
    if k == "upd_link":
        a, b = draw(_pair())
        return [k, g, a, b, draw(_r), draw(_pn_upd), draw(_v)]
    if k == "unset_link":
        a, b = draw(_pair())
        return [k, g, a, b, draw(_r), draw(_pn_upd)]
    if k == "upd_link_props":
        a, b = draw(_pair())
        return [k, g, a, b, draw(_r), draw(_props_cls)]
    if k == "get_node":
        return [k, g, draw(_i)]
    if k == "get_link":
        a, b = draw(_pair())
        return [k, g, a, b]
    if k in ("list_ids", "graph_exists", "delete_graph"):
        return [k, g]
    if k == "by_class":
        return [k, g, draw(_c)]
    if k == "by_class_type":
        return [k, g, draw(_c), draw(st.sampled_from(["v", "w"]))]
    if k == "node_exists":
        return [k, g, draw(_i), draw(_c)]
    if k == "unique":
        return [k, g, draw(_c), draw(st.sampled_from(["v", "w"]))]
    if k == "matching":
        return [k, g, "h" if g == "g" else "g"]
    if k == "merge":
        return [k, g, draw(_i), "h" if g == "g" else "g", draw(_policy)]
    raise AssertionError(k)


def strategy(tier):
    return st.fixed_dictionaries({"base": st.sampled_from(["empty", "populated", "populated", "twins"]),
                                  "ops": st.lists(_op(), min_size=1, max_size=40 if tier == "thorough" else 25)})


# ------------------------------------------------------------------ execution
def _norm(x):
    if isinstance(x, (set, frozenset)):
        return sorted((_norm(i) for i in x), key=repr)
    if isinstance(x, tuple):
        return [_norm(i) for i in x]
    if isinstance(x, list):
        return [_norm(i) for i in x]
    if isinstance(x, dict):
        return {k: _norm(v) for k, v in x.items()}
    return x


def _sorted_list(x):
    return sorted(x, key=repr)


def _real(handles, op):
    k, gid = op[0], op[1]
    G = handles[gid]
    if k == "add_node":
        return G.add_node(node_id=op[2], label=op[3], props=None if op[4] is None else dict(op[4]))
    if k == "delete_node":
        return G.delete_node(node_id=op[2])
    if k == "add_link":
        return G.add_link(node_a=op[2], rel=op[3], node_b=op[4], props=None if op[5] is None else dict(op[5]))
    if k == "upd_node":
        return G.update_node_property(node_id=op[2], prop_name=op[3], prop_val=op[4])
    if k == "unset_node":
        return G.unset_node_property(node_id=op[2], prop_name=op[3])
    if k == "upd_node_props":
        return G.update_node_properties(node_id=op[2], props=dict(op[3]))
    if k == "upd_nodes":
        return G.update_nodes_property(prop_name=op[2], prop_val=op[3])
    if k == "upd_link":
        return G.update_link_property(node_a=op[2], node_b=op[3], kind=op[4], prop_name=op[5], prop_val=op[6])
    if k == "unset_link":
        return G.unset_link_property(node_a=op[2], node_b=op[3], kind=op[4], prop_name=op[5])
    if k == "upd_link_props":
        return G.update_link_properties(node_a=op[2], node_b=op[3], kind=op[4], props=dict(op[5]))
    if k == "get_node":
        labels, props = G.get_node_properties(node_id=op[2])
        return [list(labels), dict(props)]
    if k == "get_link":
        kind, props = G.get_link_properties(node_a=op[2], node_b=op[3])
        return [kind, dict(props)]
    if k == "list_ids":
        return _sorted_list(G.list_all_node_ids())
    if k == "by_class":
        return _sorted_list(G.get_all_nodes_by_class(label=op[2]))
    if k == "by_class_type":
        return _sorted_list(G.get_all_nodes_by_class_and_type(label=op[2], ntype=op[3]))
    if k == "node_exists":
        return bool(G.node_exists(node_id=op[2], label=op[3]))
    if k == "unique":
        return bool(G.check_node_unique(label=op[2], name=op[3]))
    if k == "graph_exists":
        return bool(G.graph_exists())
    if k == "matching":
        return _sorted_list(G.find_matching_nodes(other_graph=handles[op[2]]))
    if k == "merge":
        return G.merge_nodes(node_id=op[2], other_graph=handles[op[3]],
                             merge_properties=None if op[4] is None else dict(op[4]))
    if k == "delete_graph":
        return G.delete_graph()
    raise AssertionError(k)


def _model(M, op):
    k, gid = op[0], op[1]
    if k == "add_node":
        return M.add_node(gid, op[2], op[3], op[4])
    if k == "delete_node":
        return M.delete_node(gid, op[2])
    if k == "add_link":
        return M.add_link(gid, op[2], op[3], op[4], op[5])
    if k == "upd_node":
        return M.update_node_property(gid, op[2], op[3], op[4])
    if k == "unset_node":
        return M.unset_node_property(gid, op[2], op[3])
    if k == "upd_node_props":
        return M.update_node_properties(gid, op[2], op[3])
    if k == "upd_nodes":
        return M.update_nodes_property(gid, op[2], op[3])
    if k == "upd_link":
        return M.update_link_property(gid, op[2], op[3], op[4], op[5], op[6])
    if k == "unset_link":
        return M.unset_link_property(gid, op[2], op[3], op[4], op[5])
    if k == "upd_link_props":
        return M.update_link_properties(gid, op[2], op[3], op[4], op[5])
    if k == "get_node":
        return M.get_node_properties(gid, op[2])
    if k == "get_link":
        return M.get_link_properties(gid, op[2], op[3])
    if k == "list_ids":
        return M.list_all_node_ids(gid)
    if k == "by_class":
        return M.get_all_nodes_by_class(gid, op[2])
    if k == "by_class_type":
        return M.get_all_nodes_by_class_and_type(gid, op[2], op[3])
    if k == "node_exists":
        return M.node_exists(gid, op[2], op[3])
    if k == "unique":
        return M.check_node_unique(gid, op[2], op[3])
    if k == "graph_exists":
        return M.graph_exists(gid)
    if k == "matching":
        return M.find_matching_nodes(gid, op[2])
    if k == "merge":
        return M.merge_nodes(gid, op[2], op[3], op[4])
    if k == "delete_graph":
        return M.delete_graph(gid)
    raise AssertionError(k)


def _strip_contraction(c):
    """nx.contracted_nodes leaves a 'contraction' attribute on an edge both nodes already had in common;
    'common relationships are merged' says nothing about it, so it is not compared."""
    if c is None:
        return None
    for e in c["edges"].values():
        e["props"].pop("contraction", None)
    return c


def _real_cross(imp):
    """cross-graph edges in the shared store as {frozenset{(gid,id),(gid2,id2)}: Class}"""
    out = {}
    G = imp.storage.graphs
    for a, b, d in G.edges(data=True):
        ga, gb = G.nodes[a].get("GraphID"), G.nodes[b].get("GraphID")
        if ga != gb:
            out[frozenset(((ga, G.nodes[a].get("NodeID")), (gb, G.nodes[b].get("NodeID"))))] = d.get("Class")
    return out


def run_case(case):
    store.reset_stores()
    v = []
    systems = {}
    for fl in ("shared", "disjoint"):
        imp = store.make_importer(fl)
        systems[fl] = {"imp": imp, "h": {g: store.graph_handle(imp, g) for g in GRAPHS}}
    M = RefStore()
    if case["base"] in BASES:
        for op in BASES[case["base"]]:
            for fl in systems:
                _real(systems[fl]["h"], op)
            _model(M, op)
    disjoint_live = True
    diverged = False        # the sequence was cut at an unspecified mutation: the model no longer mirrors the stores
    saw_mut, nt_obs, err_path = set(), False, False
    labels = set()
    labels.add("base-" + case["base"])

    for step, op in enumerate(case["ops"]):
        kind = op[0]
        labels.add("op-" + kind)
        # model first (on a copy of nothing: the model only mutates on success)
        try:
            mres = ("ok", _model(M, op))
        except ModelRaise as e:
            mres = ("raise", str(e))
        unspec = mres[0] == "ok" and mres[1] is UNSPEC
        real = {}
        for fl in ("shared", "disjoint"):
            if fl == "disjoint" and not disjoint_live:
                continue
            try:
                real[fl] = ("ok", _norm(_real(systems[fl]["h"], op)))
            except Exception as e:
                real[fl] = ("raise", type(e).__name__)

        def bad(clause, msg):
            v.append((f"C05/{kind}/{clause}", f"step {step} op={op}: {msg} | base={case['base']} "
                                              f"ops={case['ops'][:step + 1]}"))

        if kind == "merge":
            # per-graph backend: documented RuntimeError, always
            if "disjoint" in real:
                if real["disjoint"] != ("raise", "RuntimeError"):
                    bad("disjoint-must-raise-RuntimeError", f"per-graph backend gave {real['disjoint']}")
                if mres[0] == "ok" and not unspec and real["shared"][0] == "ok":
                    disjoint_live = False       # it cannot follow a successful merge
                real.pop("disjoint", None)
        if mres[0] == "raise":
            err_path = True
        if unspec:
            # interface silent (operation addressed to a graph without nodes - which the shared store cannot tell
            # from a graph that does not exist - or an unspecified merge policy): nothing is asserted
            labels.add("unspecified-call")
            if kind in MUTATORS:
                # cannot mirror a mutation we have no specification for: stop the sequence here
                diverged = True
                break
        else:
            for fl, r in real.items():
                if mres[0] == "raise" and r[0] == "ok":
                    bad("should-raise", f"{fl} backend accepted a call the interface says must fail ({mres[1]})")
                elif mres[0] == "ok" and r[0] == "raise":
                    bad("should-not-raise", f"{fl} backend raised {r[1]}")
                elif mres[0] == "ok" and kind in OBSERVERS and r[1] != _norm(mres[1]):
                    bad("result", f"{fl} backend returned {r[1]!r}, model {_norm(mres[1])!r}")
        # state comparison after every step
        for gid in GRAPHS:
            mc = M.canon(gid)
            for fl in real if real else ():
                rc = _strip_contraction(store.canon(systems[fl]["imp"], gid))
                if rc != mc:
                    bad("state", f"{fl} backend graph {gid} differs from model: {store.diff_canon(rc, mc)}")
        if "shared" in real and (M.cross or kind == "merge"):
            rc = _real_cross(systems["shared"]["imp"])
            mcx = {k: p.get("Class") for k, p in M.cross.items()}
            if rc != mcx:
                def _fmt(d):
                    return sorted((sorted(map(repr, k)), c) for k, c in d.items())
                bad("cross-edges", f"edges of the merged nodes: store has {_fmt(rc)}, model {_fmt(mcx)}")
        if v:
            break
        # non-triviality bookkeeping
        if kind in MUTATORS and mres[0] == "ok":
            saw_mut.add(op[1])
            if kind in ("merge",):
                saw_mut.add(op[3])
        if kind in OBSERVERS and op[1] in saw_mut:
            nt_obs = True
    # ---- a node id that is NOT unique is never silently resolved: if (through a deliberate rewrite of NodeID, the
    # only way the interface offers) two nodes of one graph carry the same id, every call addressing that id must
    # refuse rather than act on one of them
    if not v and not diverged:
        for fl in ("shared", "disjoint"):
            if fl == "disjoint" and not disjoint_live:
                continue
            for gid in GRAPHS:
                ids_ = sorted(M.g(gid)["nodes"])
                held = store.canon(systems[fl]["imp"], gid)
                if len(ids_) < 2 or held is None or sorted(held["nodes"]) != ids_:
                    continue
                G = systems[fl]["h"][gid]
                x, y = ids_[0], ids_[1]
                try:
                    G.update_node_property(node_id=x, prop_name="NodeID", prop_val=y)
                except Exception:
                    continue                      # the backend refuses the rewrite itself: nothing to probe
                labels.add("ambiguous-id-probe")
                for name, fn in (("get_node_properties", lambda: G.get_node_properties(node_id=y)),
                                 ("update_node_property", lambda: G.update_node_property(node_id=y, prop_name="p",
                                                                                        prop_val="zz")),
                                 ("unset_node_property", lambda: G.unset_node_property(node_id=y, prop_name="p")),
                                 ("delete_node", lambda: G.delete_node(node_id=y))):
                    try:
                        fn()
                        v.append((f"C05/ambiguous-node-id/silently-resolved/{name}",
                                  f"{fl} backend: two nodes of graph {gid} carry NodeID {y!r}, {name} acted on one of "
                                  f"them instead of refusing | base={case['base']} ops={case['ops']}"))
                        break
                    except Exception:
                        pass
                break
    nt = nt_obs or err_path
    if nt:
        labels.add("nontrivial")
    if err_path:
        labels.add("has-error-path")
    if not disjoint_live:
        labels.add("merged-ok")
    return {"v": v, "nt": nt, "labels": sorted(labels)}
