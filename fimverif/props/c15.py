"""
C15 - capacity arithmetic and comparison obey their algebraic laws (DESIGN.md §C15).

case = {"a": {field: int}, "b": {...}, "c": {...}, "F": [field, ...]}
Oracle: plain integer arithmetic on the field dictionaries.
"""
from hypothesis import strategies as st

ID = "C15"
FIELDS = ['cpu', 'core', 'ram', 'disk', 'bw', 'burst_size', 'unit', 'mtu']
RULE = ("Hypothesis-generated triples of Capacities over all 8 fields (values 0..2^62, with 0/1/equal-fields/"
        "one-field-differs boosted); oracle = integer arithmetic on field dictionaries. Non-trivial: a and b differ "
        "in >= 2 fields with mixed order (some field a<b and some a>b). Distinct by hash of the case.")
ASSUMPTIONS = ["Capacities fields are the 8 documented ones; values are non-negative ints as the setter demands"]
BUDGET = {"quick": 30000, "thorough": 400000}
MIN_LABEL_FRACTION = {"mixed-order": 0.15, "has-zero-field": 0.3, "a-fits-b": 0.03, "negative-vs-zero-field": 0.1}

_val = st.one_of(st.sampled_from([0, 0, 1, 2, 7, 2 ** 31, 2 ** 62]), st.integers(0, 16), st.integers(0, 2 ** 62))


@st.composite
def _caps(draw):
    return {f: draw(_val) for f in draw(st.lists(st.sampled_from(FIELDS), unique=True, max_size=8))}


@st.composite
def _case(draw):
    a = draw(_caps())
    mode = draw(st.integers(0, 5))
    if mode == 0:       # b is a with one field changed
        b = dict(a)
        f = draw(st.sampled_from(FIELDS))
        b[f] = draw(_val)
    elif mode == 1:     # b dominates a (fits-within holds)
        b = {f: a.get(f, 0) + draw(st.integers(0, 5)) for f in FIELDS}
    elif mode == 2:
        b = dict(a)
    else:
        b = draw(_caps())
    c = draw(_caps())
    F = draw(st.lists(st.sampled_from(FIELDS), unique=True, min_size=1, max_size=3))
    return {"a": a, "b": b, "c": c, "F": F}


def strategy(tier):
    return _case()


def _full(d):
    return {f: d.get(f, 0) for f in FIELDS}


def run_case(case):
    from fim.slivers.capacities_labels import Capacities, FreeCapacity
    v = []
    da, db, dc = _full(case["a"]), _full(case["b"]), _full(case["c"])
    a, b, c = Capacities(**case["a"]), Capacities(**case["b"]), Capacities(**case["c"])

    def fd(x):
        return {f: x.__dict__.get(f) for f in FIELDS}

    def chk(name, cond, msg=""):
        if not cond:
            v.append((f"C15/{name}", f"{msg} a={case['a']} b={case['b']} c={case['c']}"))

    def guarded(name, fn):
        try:
            return fn()
        except Exception as e:   # an operator raising is a violation of "representable, not an error"
            v.append((f"C15/{name}/raised", f"{type(e).__name__}: {e} a={case['a']} b={case['b']}"))
            return None

    s = guarded("add", lambda: a + b)
    if s is not None:
        chk("add/fieldwise", fd(s) == {f: da[f] + db[f] for f in FIELDS}, f"a+b={fd(s)}")
        r = guarded("sub", lambda: s - b)
        if r is not None:
            chk("add-sub-inverse", fd(r) == da and r == a, f"(a+b)-b={fd(r)}")
        s2 = guarded("add", lambda: b + a)
        if s2 is not None:
            chk("add/commutative", fd(s2) == fd(s) and s2 == s)
        l = guarded("add", lambda: (a + b) + c)
        rr = guarded("add", lambda: a + (b + c))
        if l is not None and rr is not None:
            chk("add/associative", fd(l) == fd(rr))
    d = guarded("sub", lambda: b - a)
    if d is not None:
        exp = {f: db[f] - da[f] for f in FIELDS}
        chk("sub/fieldwise", fd(d) == exp, f"b-a={fd(d)}")
        neg = guarded("negative_fields", lambda: d.negative_fields())
        if neg is not None:
            chk("negative_fields/exact", sorted(neg) == sorted(f for f in FIELDS if exp[f] < 0) and
                len(neg) == len(set(neg)), f"negative_fields={neg} expected={[f for f in FIELDS if exp[f] < 0]}")
            lt = guarded("lt", lambda: a < b)
            gt = guarded("gt", lambda: b > a)
            fits = all(exp[f] >= 0 for f in FIELDS)
            if lt is not None:
                chk("lt/agrees-with-sub", bool(lt) == fits and bool(lt) == (len(neg) == 0), f"a<b={lt} fits={fits}")
            if gt is not None:
                chk("gt/agrees-with-sub", bool(gt) == fits, f"b>a={gt} fits={fits}")
        # printable with negative fields
        txt = guarded("str", lambda: (str(d), d.to_json(), repr(d)))
        if txt is not None:
            import json
            js = txt[1]
            parsed = json.loads(js) if js else {}
            chk("negative/printable", parsed == {f: x for f, x in exp.items() if x != 0}, f"to_json={js}")
            for f, x in exp.items():
                if x < 0:
                    chk("negative/str-shows-sign", f"{f}: -" in txt[0], f"str={txt[0]}")
        pf = guarded("positive_fields", lambda: d.positive_fields(case["F"]))
        if pf is not None:
            chk("positive_fields", bool(pf) == all(exp[f] > 0 for f in case["F"]), f"F={case['F']} got={pf}")
        if len(case["F"]) >= 1:
            pf1 = guarded("positive_fields", lambda: d.positive_fields(case["F"][0]))
            if pf1 is not None:
                chk("positive_fields/str-arg", bool(pf1) == (exp[case["F"][0]] > 0))
        # capacities with negative fields (only reachable as results of a subtraction) are capacity values too:
        # the fits-within comparisons must agree with subtraction for them as well, on either side
        for name, x, y, dx, dy in (("neg-right", c, d, dc, exp), ("neg-left", d, c, exp, dc)):
            lt2 = guarded("lt", lambda: x < y)
            gt2 = guarded("gt", lambda: y > x)
            diff2 = guarded("sub", lambda: y - x)
            if lt2 is not None and gt2 is not None and diff2 is not None:
                fits2 = all(dy[f] - dx[f] >= 0 for f in FIELDS)
                chk(f"lt/agrees-with-sub/{name}", bool(lt2) == fits2 and
                    bool(lt2) == (guarded("negative_fields", lambda: diff2.negative_fields()) == []),
                    f"x<y={lt2} fits={fits2} x={dx} y={dy}")
                chk(f"gt/agrees-with-sub/{name}", bool(gt2) == fits2, f"y>x={gt2} fits={fits2} x={dx} y={dy}")
        back = guarded("add", lambda: d + a)
        if back is not None:
            chk("sub-add-inverse", fd(back) == db, f"(b-a)+a={fd(back)}")
        # sums whose fields stay negative are representable too (over-subscription carried forward)
        for name, other, dother in (("neg+neg", d, exp), ("neg+c", c, dc)):
            sm = guarded(f"add/{name}", lambda: d + other)
            if sm is not None:
                chk(f"add/fieldwise/{name}", fd(sm) == {f: exp[f] + dother[f] for f in FIELDS}, f"sum={fd(sm)}")
                sm2 = guarded(f"add/{name}", lambda: other + d)
                if sm2 is not None:
                    chk(f"add/commutative/{name}", fd(sm2) == fd(sm))
                guarded(f"str/{name}", lambda: (str(sm), sm.to_json()))
    z = guarded("sub", lambda: a - a)
    if z is not None:
        chk("sub/self-zero", all(x == 0 for x in fd(z).values()) and
            guarded("negative_fields", lambda: z.negative_fields()) == [])
    # equality
    eq_ab = guarded("eq", lambda: a == b)
    eq_ba = guarded("eq", lambda: b == a)
    if eq_ab is not None and eq_ba is not None:
        chk("eq/symmetric", bool(eq_ab) == bool(eq_ba))
        chk("eq/dict", bool(eq_ab) == (da == db), f"a==b -> {eq_ab}")
    chk("eq/reflexive", guarded("eq", lambda: a == a) is True)
    # FreeCapacity: total = a+b, allocated = b
    if s is not None:
        fc = guarded("free", lambda: FreeCapacity(total=s, allocated=b))
        if fc is not None:
            chk("free/sum", all(fc.free.__dict__[f] + db[f] == da[f] + db[f] for f in FIELDS))
            chk("free/getattr", all(getattr(fc, f) == da[f] for f in FIELDS))
            chk("free/total-kept", fd(fc.total) == {f: da[f] + db[f] for f in FIELDS})
        fc2 = guarded("free", lambda: FreeCapacity(total=a, allocated=None))
        if fc2 is not None:
            chk("free/none-allocated", all(getattr(fc2, f) == da[f] for f in FIELDS))
        # over-allocation is representable
        fc3 = guarded("free", lambda: FreeCapacity(total=a, allocated=b))
        if fc3 is not None:
            chk("free/fieldwise", all(getattr(fc3, f) == da[f] - db[f] for f in FIELDS))
            guarded("free-str", lambda: str(fc3))
    # the augmented forms are the same operations: same result, and the object the running total STARTED from (still
    # referenced elsewhere) is an operand like any other - never modified
    def aug(op):
        acc = a
        if op == "+":
            acc += b
        else:
            acc -= b
        return acc
    for op, want in (("+", {f: da[f] + db[f] for f in FIELDS}), ("-", {f: da[f] - db[f] for f in FIELDS})):
        acc = guarded("augmented" + op, lambda: aug(op))
        if acc is not None:
            chk(f"augmented{op}=/fieldwise", fd(acc) == want, f"acc=a; acc {op}= b -> {fd(acc)}")
            chk(f"augmented{op}=/operand-modified", fd(a) == da and fd(b) == db, f"after acc {op}= b: a={fd(a)} b={fd(b)}")
            a.__dict__.update(da)      # (restore, so that the remaining clauses see the generated operand)
    # operands untouched
    chk("operands-unchanged", fd(a) == da and fd(b) == db and fd(c) == dc,
        f"after: a={fd(a)} b={fd(b)} c={fd(c)}")

    lower = [f for f in FIELDS if da[f] < db[f]]
    higher = [f for f in FIELDS if da[f] > db[f]]
    labels = []
    if lower and higher:
        labels.append("mixed-order")
    if any(x == 0 for x in da.values()) or any(x == 0 for x in db.values()):
        labels.append("has-zero-field")
    if not higher:
        labels.append("a-fits-b")
    if da == db:
        labels.append("equal")
    if any(x >= 2 ** 31 for x in list(da.values()) + list(db.values())):
        labels.append("large")
    if any(db[f] - da[f] < 0 and dc[f] == 0 for f in FIELDS):
        labels.append("negative-vs-zero-field")
    nt = bool(lower and higher and len(lower) + len(higher) >= 2)
    return {"v": v, "nt": nt, "labels": labels}
