"""
C07 - every model the topology API builds satisfies the published graph rules (DESIGN.md §C07).

case = {"flavour": "experiment"|"substrate", "prog": [op, ...]}   (ops: engines/topo.py)
After every call (also a failing one) the model is extracted and checked against an independent transliteration of
graph_validation_rules.json (rules 1-10, 13), the containment structure, name scopes and the read-only views.
The signature names the clause and the operation after which the invariant first failed.
"""
from hypothesis import strategies as st
from fimverif.engines import topo

ID = "C07"
RULE = ("Hypothesis-generated programs of 8-40 calls (thorough: up to 60) on ExperimentTopology and SubstrateTopology "
        "over the whole building alphabet (add/remove node, component, storage, facility, switch, service, port-mirror "
        "service, node-level service + interface, link; connect/disconnect; peer/unpeer; add/remove sub-interface; "
        "rename; set/unset property; validate; serialize+load; prune), names fresh or colliding, ids library-generated "
        "or caller-supplied, handles stored or freshly looked up. Invariants (published rules 1-10 and 13, "
        "containment, name scopes, views) are evaluated on the extracted model after every call. Non-trivial: the "
        "program has >=1 removal or rename after >=3 additions and >=1 connected interface. Distinct by hash.")
ASSUMPTIONS = ["rules 11-12 (interface counts of L2PTP / PortMirror) are slice-validation cardinalities checked in C10",
               "remove_link is only applied to links created by add_link",
               "name-keyed views (dicts) are required to contain every element name and only existing elements"]
BUDGET = {"quick": 1400, "thorough": 12000}
MIN_LABEL_FRACTION = {"nontrivial": 0.08, "substrate": 0.12, "has-connected": 0.15, "has-removal": 0.15}

_VOCAB = None


def published_vocabulary():
    """Class / Type vocabularies of published rules 3-8, read from the repository's graph_validation_rules.json
    (the rules are the library's published ones; the structural rules 1, 2, 9, 10, 13 are transliterated below)."""
    global _VOCAB
    if _VOCAB is None:
        import json
        import os
        import re
        import fim.graph.data as d
        path = os.path.join(os.path.dirname(d.__file__), "graph_validation_rules.json")
        rules = json.load(open(path, encoding="utf-8"))
        vocab = {}
        for r in rules:
            m = re.search(r"MATCH \(n:(\w+) \{GraphID: \$graphId\}\) RETURN ALL\(r IN collect\(n\) WHERE r\.(Class|Type) IN "
                          r"\[(.*?)\]\)", r["rule"])
            if m:
                vals = set(re.findall(r'"([^"]+)"', m.group(3)))
                vocab[("Class" if m.group(2) == "Class" else m.group(1))] = vals
        for need in ("Class", "NetworkNode", "Component", "ConnectionPoint", "NetworkService", "Link"):
            if need not in vocab or not vocab[need]:
                raise RuntimeError(f"could not read the vocabulary for {need} from {path}")
        _VOCAB = vocab
    return _VOCAB


# exclusion by construction behind known findings (DESIGN.md §1.7): regions switched off in the generated programs
# because a recorded finding makes every program that enters them stop there. Probes (PROBES) run with no exclusion.
def _exclusions():
    from fimverif.runner import load_known
    keys = load_known(ID)[0]
    ex = set()
    if any(k.startswith("C07/names/") and k.endswith("/rename") for k in keys):
        ex.add("rename-collide")
    if any(k.startswith("C07/rule13-serviceport-peer/") for k in keys):
        ex.add("dangling-sp")
    if any(k.startswith("C07/names/link-artefact") or k.startswith("C07/names/serviceport-artefact") for k in keys):
        ex.add("artefact-name")
    return tuple(sorted(ex))


EXCLUDE = _exclusions()


@st.composite
def _case(draw, tier):
    flavour = draw(st.sampled_from(["experiment", "experiment", "substrate"]))
    names = st.one_of(st.just(["fresh"]), st.just(["fresh"]), st.just(["fresh"]), topo.name_fresh_or_long,
                      st.builds(lambda k: ["dup", k], st.integers(0, 7)))
    ids = st.one_of(st.none(), st.none(), st.none(), st.just(["fresh"]), st.builds(lambda k: ["dup", k], st.integers(0, 9)))
    prog = draw(topo.program(flavour, max_ops=60 if tier == "thorough" else 40, names=names, ids=ids, min_ops=8))
    return {"flavour": flavour, "prog": prog}


def strategy(tier):
    return _case(tier)


# ------------------------------------------------------------------ invariants on a snapshot
def structural_violations(s):
    """clauses 1-3 evaluated on a Snap; returns [(clause, message)]"""
    out = []
    for p in s.problems:
        out.append(("rule2-distinct-node-ids", p))
    for i, d in s.nodes.items():
        for k in ("Class", "Type", "Name", "NodeID"):
            if d.get(k) is None:
                out.append(("rule1-mandatory-properties", f"node {i} lacks {k}"))
        c, t = d.get("Class"), d.get("Type")
        vocab = published_vocabulary()
        if c not in vocab["Class"]:
            out.append(("rule3-class-vocabulary", f"node {i} has Class {c!r}"))
        elif c in vocab and t not in vocab[c]:
            out.append((f"rule-type-vocabulary/{c}/{t}", f"node {i} [{c}] has Type {t!r}, which the published rule "
                                                         f"does not list"))
    for a, nb in s.adj.items():
        for b, r in nb.items():
            if r not in ("has", "connects"):
                out.append(("containment/edge-relation", f"edge {a}-{b} has relation {r!r}"))
    for c in s.ids("Component"):
        o = s.owner_of_component(c)
        if len(o) != 1:
            out.append(("rule9-component-owner", f"component {c} {s.name(c)!r} has {len(o)} owner nodes"))
    for l in s.ids("Link"):
        bad = [j for j in s.nbrs(l) if s.cls(j) != "ConnectionPoint"]
        if bad:
            out.append(("rule10-links-join-interfaces", f"link {l} is joined to {[(j, s.cls(j)) for j in bad]}"))
        # "links join ... interfaces": a link with fewer than two ends joins nothing (the building calls take at
        # least two interfaces, removals take a link along when fewer than two ends would remain - C08)
        ends = [j for j in s.nbrs(l) if s.cls(j) == "ConnectionPoint"]
        if len(ends) < 2:
            out.append(("links-join-interfaces/fewer-than-two-ends", f"link {l} {s.name(l)!r} has ends {ends}"))
    for cp in s.ids("ConnectionPoint"):
        if s.typ(cp) == "ServicePort":
            npeers = sum(1 for l in s.links_of_cp(cp) for e in s.ends_of_link(l) if e != cp)
            if npeers != 1:
                out.append(("rule13-serviceport-peer", f"service port <{cp}> {s.name(cp)!r} has {npeers} peers"))
        if s.is_sub(cp):
            ps, sv = s.parent_cp(cp), s.service_of_cp(cp)
            if len(ps) != 1 or sv:
                out.append(("containment/sub-interface-owner", f"sub-interface {cp} has parents {ps} services {sv}"))
        else:
            sv = s.service_of_cp(cp)
            if len(sv) != 1:
                out.append(("containment/interface-owner", f"interface {cp} {s.name(cp)!r} [{s.typ(cp)}] belongs to "
                                                           f"{len(sv)} services"))
    for sv in s.ids("NetworkService"):
        if len(s.owner_of_service(sv)) > 1:
            out.append(("containment/service-owner", f"service {sv} has owners {s.owner_of_service(sv)}"))

    def dup(ids):
        seen, d = set(), []
        for i in ids:
            n = s.name(i)
            if n in seen:
                d.append(n)
            seen.add(n)
        return d
    if dup(s.ids("NetworkNode")):
        out.append(("names/node", f"node names not unique: {dup(s.ids('NetworkNode'))}"))
    if dup(s.ids("Link")):
        # peering artefacts (ServicePort + Link made by connect/peer) are named by the library
        made = getattr(s, "made_links", set())
        dn = set(dup(s.ids("Link")))
        if all(l not in made for l in s.ids("Link") if s.name(l) in dn):
            out.append(("names/link-artefact", f"library-generated peering link names collide: {sorted(dn)}"))
        else:
            out.append(("names/link", f"link names not unique: {sorted(dn)}"))
    if dup(s.top_services()):
        out.append(("names/top-level-service", f"service names not unique: {dup(s.top_services())}"))
    for n in s.ids("NetworkNode"):
        if dup(s.components_of(n)):
            out.append(("names/component-in-node", f"node {s.name(n)!r}: {dup(s.components_of(n))}"))
        if dup(s.services_of(n)):
            out.append(("names/service-in-node", f"node {s.name(n)!r}: {dup(s.services_of(n))}"))
    for c in s.ids("Component"):
        if dup(s.services_of(c)):
            out.append(("names/service-in-component", f"component {s.name(c)!r}: {dup(s.services_of(c))}"))
    for sv in s.ids("NetworkService"):
        if dup(s.cps_of_service(sv)):
            dn = set(dup(s.cps_of_service(sv)))
            if all(s.typ(cp) == "ServicePort" for cp in s.cps_of_service(sv) if s.name(cp) in dn):
                out.append(("names/serviceport-artefact", f"library-generated service port names collide in "
                                                          f"service {s.name(sv)!r}: {sorted(dn)}"))
            else:
                out.append(("names/interface-in-service", f"service {s.name(sv)!r}: {sorted(dn)}"))
    for cp in s.ids("ConnectionPoint"):
        if dup(s.children_cp(cp)):
            out.append(("names/sub-interface-in-parent", f"interface {s.name(cp)!r}: {dup(s.children_cp(cp))}"))
    return out


def view_violations(t, s):
    """clause 4: the read-only views list exactly the elements present (fresh handles)"""
    out = []

    def cmp_dict(what, view, ids):
        got_ids = sorted(v.node_id for v in view.values())
        if not set(got_ids) <= set(ids):
            out.append((f"views/{what}", f"view lists ids not of that kind: {sorted(set(got_ids) - set(ids))}"))
        names = {s.name(i) for i in ids}
        if set(view.keys()) != names:
            out.append((f"views/{what}", f"view keys {sorted(view.keys())} != element names {sorted(names)}"))
        if len(names) == len(ids) and got_ids != sorted(ids):
            out.append((f"views/{what}", f"view ids {got_ids} != element ids {sorted(ids)}"))

    def cmp_list(what, lst, ids):
        got = sorted(v.node_id for v in lst)
        if got != sorted(ids):
            out.append((f"views/{what}", f"view ids {got} != expected {sorted(ids)}"))

    nodes = [n for n in s.ids("NetworkNode") if s.typ(n) != "Facility"]
    cmp_dict("topology.nodes", t.nodes, nodes)
    cmp_dict("topology.facilities", t.facilities, s.ids("NetworkNode", "Facility"))
    cmp_dict("topology.links", t.links, s.ids("Link"))
    cmp_dict("topology.network_services", t.network_services, s.ids("NetworkService"))

    def node_ifs(n):
        direct = [cp for sv in s.services_of(n) for cp in s.cps_of_service(sv)]
        comp = [cp for c in s.components_of(n) for sv in s.services_of(c) for cp in s.cps_of_service(sv)]
        return direct, comp
    all_ifs = []
    for n in nodes:
        d, c = node_ifs(n)
        all_ifs += d + c
    cmp_list("topology.interface_list", t.interface_list, all_ifs)
    from fim.user.node import Node
    from fim.user.network_service import NetworkService
    from fim.user.link import Link
    for n in s.ids("NetworkNode"):
        h = Node(name=s.name(n), node_id=n, topo=t)
        d, c = node_ifs(n)
        cmp_dict("node.components", h.components, s.components_of(n))
        cmp_dict("node.network_services", h.network_services, s.services_of(n))
        cmp_list("node.interface_list", h.interface_list, d + c)
        cmp_dict("node.interfaces", h.interfaces, d + c)
    for sv in s.ids("NetworkService"):
        cmp_list("service.interface_list", NetworkService(name=s.name(sv), node_id=sv, topo=t).interface_list,
                 s.cps_of_service(sv))
    for l in s.ids("Link"):
        cmp_list("link.interface_list", Link(name=s.name(l), node_id=l, topo=t).interface_list, s.ends_of_link(l))
    return out


def readonly_violations(t, s):
    """clause 5: the views cannot be used to modify the model"""
    out = []
    before = s.canon()
    views = [("topology.nodes", t.nodes), ("topology.links", t.links), ("topology.network_services", t.network_services),
             ("topology.facilities", t.facilities)]
    for n in s.ids("NetworkNode")[:2]:
        from fim.user.node import Node
        h = Node(name=s.name(n), node_id=n, topo=t)
        views += [("node.components", h.components), ("node.interfaces", h.interfaces),
                  ("node.network_services", h.network_services)]
    for what, view in views:
        for attempt, fn in (("setitem", lambda v: v.__setitem__("zz", 1)), ("delitem", lambda v: v.__delitem__("zz")),
                            ("update", lambda v: v.update({"zz": 1})), ("pop", lambda v: v.pop("zz", None)),
                            ("clear", lambda v: v.clear()), ("setdefault", lambda v: v.setdefault("zz", 1))):
            try:
                fn(view)
                out.append((f"views-read-only/{what}/{attempt}", "mutating call on a view did not raise"))
            except (TypeError, AttributeError, KeyError):
                pass
    il = t.interface_list
    if not isinstance(il, tuple):
        out.append(("views-read-only/topology.interface_list", f"is a {type(il).__name__}, not an immutable tuple"))
    for l in s.ids("Link")[:2]:
        from fim.user.link import Link
        h = Link(name=s.name(l), node_id=l, topo=t)
        lst = h.interface_list
        try:
            lst.append("x")
        except AttributeError:
            pass
        if len(h.interface_list) != len(s.ends_of_link(l)):
            out.append(("views-read-only/link.interface_list", "appending to the returned list changed the link"))
    if topo.Snap(t.graph_model).canon() != before:
        out.append(("views-read-only/model-changed", "the model changed while poking at its views"))
    return out


def run_case(case):
    it = topo.Interp(case["flavour"], exclude=case.get("exclude", EXCLUDE))
    v = []
    labels = {case["flavour"]}
    n_add = 0
    nt = False
    connected_seen = False
    prev = None
    try:
        for step, op in enumerate(case["prog"]):
            r = it.apply(op)
            kind = op["op"]
            if r["skipped"]:
                labels.add("skipped-some")
                continue
            labels.add("op-" + kind)
            if r["raised"] is not None:
                labels.add("has-failing-call")
            s = it.snap()
            s.made_links = it.made_links
            viols = structural_violations(s)
            # narrow rule-13 signatures to the root cause: what was the peerless ServicePort peered with before?
            viols = [((c + "/" + _sp_kind(prev, m)) if c == "rule13-serviceport-peer" and prev is not None else c, m)
                     for c, m in viols]
            prev = s
            if not viols:
                try:
                    viols = view_violations(it.topo, s)
                except Exception as e:
                    viols = [("views/raised", f"{type(e).__name__}: {e}")]
            if viols:
                outcome = "after-failed-call" if r["raised"] is not None else "after-call"
                seen = set()
                for clause, msg in viols:
                    if clause in seen:
                        continue
                    seen.add(clause)
                    if "artefact" in clause:
                        sig = f"C07/{clause}"
                    elif clause.startswith("rule13-serviceport-peer/"):
                        sig = f"C07/rule13-serviceport-peer/{kind}/{clause.split('/', 1)[1]}"
                    else:
                        sig = f"C07/{clause}/{kind}" + ("/raised" if r["raised"] is not None else "")
                    v.append((sig,
                              f"step {step} {outcome} {op}: {msg} | flavour={case['flavour']} "
                              f"prog={json_short(case['prog'][:step + 1])}"))
                break
            if kind.startswith("add_") or kind in ("node_service", "ns_add_interface", "connect", "peer"):
                if r["raised"] is None:
                    n_add += 1
            if it.connected_cps(s):
                connected_seen = True
                labels.add("has-connected")
            if (kind in topo.REMOVALS or kind == "rename") and r["raised"] is None:
                labels.add("has-removal")
                if n_add >= 3 and connected_seen:
                    nt = True
        if not v:
            s = it.snap()
            for clause, msg in readonly_violations(it.topo, s):
                v.append((f"C07/{clause}", f"{msg} | flavour={case['flavour']}"))
    finally:
        it.close()
    if nt:
        labels.add("nontrivial")
    for k in it.excluded:
        labels.add("excluded-known:" + k)
    return {"v": v, "nt": nt, "labels": sorted(labels)}


def _sp_kind(prev, msg):
    import re
    m = re.search(r"service port <(.*?)>", msg)
    if not m or m.group(1) not in prev.nodes:
        return "new-port"
    peers = prev.peers_of_cp(m.group(1))
    if any(prev.is_sub(p) for p in peers):
        return "peer-was-sub-interface"
    if any(prev.typ(p) == "ServicePort" for p in peers):
        return "peer-was-service"
    return "peer-was-interface" if peers else "no-peer-before"


def json_short(x):
    import json
    s = json.dumps(x, default=str)
    return s if len(s) < 2500 else s[:2500] + "..."
