"""
C18 - instance sizing is sufficient and minimal; components match the catalogue (DESIGN.md §C18).

Cases (plain JSON):
  {"kind": "grid", "core": c, "ram": r, "disk": [d, ...], "extra": {field: int}}   one request per disk value
  {"kind": "catalog"}                                                              clause 2 + clause 4, whole files
  {"kind": "comp", "via": "model_type"|"ctype_model", "ctype": str|None, "model": str|None, "mt": int|None,
   "name": str, "parent": str|None, "ns_id": str|None, "ids": [str]|None,
   "labels": [{field: str|[str]}]|None}

Oracle: the two JSON resource files are read by the checker itself (json.load, never through the classes
under test); sizing = brute-force Pareto over all 869 sizes; components = field-by-field comparison with the
catalogue entry selected by an independent lookup (Type equal and Model equal or listed in AlsoModels).
"""
import json
import os
import re

from hypothesis import strategies as st

ID = "C18"
RULE = ("Exhaustive enumeration: every (core, ram, disk) request on the product grid of {0} + catalogue values +/-1 "
        "+ beyond-maximum values (one case per (core, ram) pair carrying all disk values), one whole-catalogue case, "
        "and every catalogue entry x {model_type, ctype+model, each AlsoModels alias} x 11 id/label argument shapes x "
        "parent name present/absent, plus every (type, model-or-alias) pair as lookup positives/negatives. On top a "
        "Hypothesis strategy draws random requests (0..2^20, extra capacity fields set) and random component argument "
        "vectors (names, ids, label fields, list-valued bdf of length 1..8, wrong counts, unknown models). Non-trivial: "
        "a sizing request with >= 2 Pareto-minimal satisfying sizes or none at all; a component case whose entry has "
        "interfaces and that supplies ids or labels, or a lookup that must be rejected. Distinct by hash of the case.")
ASSUMPTIONS = [
    "the catalogue files under fim/slivers/data are the ones shipped with the tree under test (VERIF_REPO)",
    "requests are Capacities with non-negative integer fields (the setter rejects anything else)",
    "component/parent names are drawn from ^[A-Za-z0-9_.-]{2,40}$, the alphabet all three sliver classes involved "
    "accept (a component name with a space is legal for ComponentSliver but not for the derived service name)",
    "each interface gets its own Labels object (a Labels object shared by two interfaces is caller aliasing)",
    "interface ids without interface labels, labels of a wrong count without ids, and ids/labels for a model "
    "without interfaces are unspecified: the call may raise; if it returns, the result is checked",
    "interfaces are named <component>-<port> (the separator the shipped tests and models use; the docstring's "
    "'_' is stale)",
]
BUDGET = {"quick": 40000, "thorough": 400000}
ENUM_EXHAUSTIVE = True
EXHAUSTIVE_NOTE = ("exhaustive over the request grid (catalogue values +/-1, 0, beyond maximum) and over catalogue "
                   "entry x naming x id/label shape; the Hypothesis part samples beyond the grid")
MIN_LABEL_FRACTION = {"size:multi-min": 0.004, "size:none-fits": 0.01, "comp:ids+labels": 0.005, "comp:reject": 0.005}

CAP_FIELDS = ['cpu', 'core', 'ram', 'disk', 'bw', 'burst_size', 'unit', 'mtu']
TYPES = ["GPU", "SmartNIC", "SharedNIC", "FPGA", "NVME", "Storage"]

_cache = {}


def _data():
    """Independent read of the two resource files of the tree under test."""
    if "d" not in _cache:
        repo = os.path.abspath(os.environ.get("VERIF_REPO", "/repo"))
        base = os.path.join(repo, "fim", "slivers", "data")
        with open(os.path.join(base, "instance_sizes.json"), encoding="utf-8") as f:
            sizes = json.load(f)
        with open(os.path.join(base, "component_catalog.json"), encoding="utf-8") as f:
            comps = json.load(f)
        ent = [(k, int(v["core"]), int(v["ram"]), int(v["disk"])) for k, v in sizes.items()]
        _cache["d"] = (ent, comps)
    return _cache["d"]


def _axis(vals, beyond):
    s = {0}
    for x in vals:
        s |= {x - 1, x, x + 1}
    s |= set(beyond)
    return sorted(x for x in s if x >= 0)


def _axes():
    ent, _ = _data()
    C = _axis({e[1] for e in ent}, [max(e[1] for e in ent) * 2, 2 ** 31])
    R = _axis({e[2] for e in ent}, [max(e[2] for e in ent) * 4, 2 ** 31])
    D = _axis({e[3] for e in ent}, [max(e[3] for e in ent) * 5, 2 ** 40])
    return C, R, D


# ------------------------------------------------------------------ enumeration

_MAC = ["00:11:22:33:44:55", "0C:42:A1:BE:8F:D4", "04:3f:72:b7:15:74"]


def _bdf(i, j):
    return "0000:%02x:%02x.%x" % (0x21 + i, j // 8, j % 8)


def _label_shape(shape, n):
    """n label dicts of a given shape (k-th differs from the others so that a swap is visible)"""
    out = []
    for k in range(n):
        if shape == "mac":
            out.append({"mac": _MAC[k % 3], "vlan": str(100 + k)})
        elif shape == "scalar-bdf":
            out.append({"bdf": _bdf(k, 0), "mac": _MAC[k % 3]})
        elif shape == "list-bdf-1":
            out.append({"bdf": [_bdf(k, 0)], "mac": [_MAC[k % 3]]})
        elif shape == "list-bdf-n":
            m = 2 + 2 * k
            out.append({"bdf": [_bdf(k, j) for j in range(m)], "mac": [_MAC[(k + j) % 3] for j in range(m)],
                        "vlan": [str(10 * k + j + 1) for j in range(m)]})
        elif shape == "local-name":      # caller sets a local_name: the catalogue port name must win
            out.append({"local_name": "eth%d" % k, "mac": _MAC[k % 3]})
        else:
            raise ValueError(shape)
    return out


def _arg_shapes(nif):
    """id/label argument shapes for an entry with nif interfaces"""
    n = max(nif, 1)
    ids = ["if-%d" % k for k in range(n)]
    shapes = [
        ("none", None, None, None),
        ("ns-only", "ns-id-1", None, None),
        ("ids+mac", "ns-id-1", ids, _label_shape("mac", n)),
        ("ids+scalar-bdf", "ns-id-1", ids, _label_shape("scalar-bdf", n)),
        ("ids+list-bdf-1", "ns-id-1", ids, _label_shape("list-bdf-1", n)),
        ("ids+list-bdf-n", None, ids, _label_shape("list-bdf-n", n)),
        ("ids+local-name", None, ids, _label_shape("local-name", n)),
        ("labels-only", None, None, _label_shape("list-bdf-n", n)),
        ("ids-short", "ns-id-1", ids[:-1], _label_shape("mac", n)[:-1]),
        ("ids-long", "ns-id-1", ids + ["if-x"], _label_shape("mac", n + 1)),
        ("labels-miscount", "ns-id-1", ids, _label_shape("mac", n + 1)),
        ("ids-no-labels", "ns-id-1", ids, None),
    ]
    return shapes


def enumerate_cases(tier):
    ent, comps = _data()
    C, R, D = _axes()
    yield {"kind": "catalog"}
    for c in C:
        for r in R:
            yield {"kind": "grid", "core": c, "ram": r, "disk": D, "extra": {}}
    for idx, e in enumerate(comps):
        nif = len(e.get("Interfaces", {}))
        vias = [("model_type", None, None, idx), ("ctype_model", e["Type"], e["Model"], None)]
        vias += [("ctype_model", e["Type"], a, None) for a in e.get("AlsoModels", [])]
        for via, ctype, model, mt in vias:
            for _, ns_id, ids, labels in _arg_shapes(nif):
                for parent in (None, "node-1"):
                    yield {"kind": "comp", "via": via, "ctype": ctype, "model": model, "mt": mt, "name": "nic1",
                           "parent": parent, "ns_id": ns_id, "ids": ids, "labels": labels}
    # every (type, model-or-alias) pair: positives and negatives of the lookup
    models = []
    for e in comps:
        for m in [e["Model"]] + list(e.get("AlsoModels", [])):
            if m not in models:
                models.append(m)
    models += ["", "connectx-6", "ConnectX-6 ", "NoSuchModel"]
    for t in TYPES:
        for m in models:
            yield {"kind": "comp", "via": "ctype_model", "ctype": t, "model": m, "mt": None, "name": "c-" + t,
                   "parent": None, "ns_id": None, "ids": None, "labels": None}
    for t, m in ((None, "A40"), ("GPU", None), (None, None)):
        yield {"kind": "comp", "via": "ctype_model", "ctype": t, "model": m, "mt": None, "name": "cx",
               "parent": "p1", "ns_id": None, "ids": None, "labels": None}


# ------------------------------------------------------------------ random part

_NAME = st.text("abcXYZ019_.-", min_size=2, max_size=40)
_IDS = st.text("abcdef0123456789-", min_size=1, max_size=36)
_HEX2 = st.text("0123456789abcdefABCDEF", min_size=2, max_size=2)


@st.composite
def _mac(draw):
    return ":".join(draw(_HEX2) for _ in range(6))


@st.composite
def _bdf_s(draw):
    return "%s:%s:%s.%s" % (draw(st.text("0123456789abcdef", min_size=1, max_size=4)), draw(_HEX2), draw(_HEX2),
                            draw(st.text("0123456789abcdef", min_size=1, max_size=2)))


@st.composite
def _labels(draw):
    d = {}
    mode = draw(st.integers(0, 4))
    if mode == 0:
        d["bdf"] = draw(_bdf_s())
    elif mode in (1, 2):
        m = draw(st.integers(1, 8))
        d["bdf"] = [draw(_bdf_s()) for _ in range(m)]
        if draw(st.booleans()):
            d["mac"] = [draw(_mac()) for _ in range(m)]
    if "mac" not in d and draw(st.booleans()):
        d["mac"] = draw(_mac())
    if draw(st.integers(0, 3)) == 0:
        d["vlan"] = str(draw(st.integers(0, 4096)))
    if draw(st.integers(0, 5)) == 0:
        d["local_name"] = draw(st.sampled_from(["eth0", "p1", "p2", "HundredGigE0/0/0/1"]))
    if draw(st.integers(0, 5)) == 0:
        d["device_name"] = draw(st.sampled_from(["dev0", "renc-data-sw"]))
    if not d:
        d["mac"] = draw(_mac())
    return d


@st.composite
def _comp_case(draw):
    ent, comps = _data()
    idx = draw(st.integers(0, len(comps) - 1))
    e = comps[idx]
    mode = draw(st.integers(0, 9))
    if mode <= 2:
        via, ctype, model, mt = "model_type", None, None, idx
        if draw(st.integers(0, 3)) == 0:    # ctype/model given as well: model_type wins (documented precedence)
            ctype, model = draw(st.sampled_from(TYPES)), draw(st.sampled_from([c["Model"] for c in comps]))
    elif mode <= 6:
        names = [e["Model"]] + list(e.get("AlsoModels", []))
        via, ctype, model, mt = "ctype_model", e["Type"], draw(st.sampled_from(names)), None
    elif mode <= 8:     # mismatched type/model
        allm = [m for c in comps for m in [c["Model"]] + list(c.get("AlsoModels", []))]
        via, ctype, model, mt = "ctype_model", draw(st.sampled_from(TYPES)), draw(st.sampled_from(allm)), None
    else:
        via, ctype, mt = "ctype_model", draw(st.sampled_from(TYPES)), None
        model = draw(st.one_of(st.text(max_size=12), st.sampled_from([e["Model"].lower(), e["Model"] + " ",
                                                                      e["Details"]])))
    nif = len(e.get("Interfaces", {})) if mode <= 6 else draw(st.integers(0, 2))
    amode = draw(st.integers(0, 9))
    ns_id = draw(st.one_of(st.none(), _IDS))
    ids = labels = None
    if amode <= 4:
        n = max(nif, 1)
        ids = draw(st.lists(_IDS, min_size=n, max_size=n, unique=True))
        labels = [draw(_labels()) for _ in range(n)]
    elif amode == 5:
        labels = [draw(_labels()) for _ in range(max(nif, 1))]
    elif amode == 6:
        n1, n2 = draw(st.integers(0, 3)), draw(st.integers(0, 3))
        ids = draw(st.lists(_IDS, min_size=n1, max_size=n1, unique=True))
        labels = [draw(_labels()) for _ in range(n2)]
    elif amode == 7:
        ids = draw(st.lists(_IDS, min_size=nif, max_size=nif, unique=True))
    return {"kind": "comp", "via": via, "ctype": ctype, "model": model, "mt": mt, "name": draw(_NAME),
            "parent": draw(st.one_of(st.none(), _NAME)), "ns_id": ns_id, "ids": ids, "labels": labels}


@st.composite
def _grid_case(draw):
    ent, _ = _data()
    big = st.one_of(st.integers(0, 2 ** 20), st.integers(0, 1200))
    mode = draw(st.integers(0, 4))
    if mode == 0:       # around a catalogue entry
        e = draw(st.sampled_from(ent))
        c = max(0, e[1] + draw(st.integers(-3, 3)))
        r = max(0, e[2] + draw(st.integers(-3, 3)))
        ds = sorted({max(0, e[3] + draw(st.integers(-60, 60))) for _ in range(3)})
    elif mode == 1:
        # small requests: the only region of the shipped catalogue where several sizes are Pareto-minimal
        c, r = draw(st.integers(0, 5)), draw(st.integers(0, 70))
        ds = draw(st.lists(st.integers(0, 1100), min_size=1, max_size=4, unique=True))
    elif mode == 2:
        c, r = draw(st.integers(0, 70)), draw(st.integers(0, 300))
        ds = draw(st.lists(st.integers(0, 1100), min_size=1, max_size=4, unique=True))
    else:
        c, r = draw(big), draw(big)
        ds = draw(st.lists(big, min_size=1, max_size=4, unique=True))
    extra = {}
    if draw(st.booleans()):
        for f in draw(st.lists(st.sampled_from(['cpu', 'bw', 'burst_size', 'unit', 'mtu']), unique=True, max_size=3)):
            extra[f] = draw(st.integers(0, 2 ** 40))
    return {"kind": "grid", "core": c, "ram": r, "disk": sorted(ds), "extra": extra}


def strategy(tier):
    return st.one_of(_grid_case(), _comp_case())


# ------------------------------------------------------------------ interpreter

def _largest(ent):
    """the size that is >= every other size in all three dimensions (harness error if the file has none)"""
    big = max(ent, key=lambda e: (e[1], e[2], e[3]))
    if not all(big[i] >= e[i] for e in ent for i in (1, 2, 3)):
        raise RuntimeError("instance_sizes.json has no largest size; 'the largest size' is ambiguous")
    return big


def _pareto(ent, c, r, d):
    sat = [e for e in ent if e[1] >= c and e[2] >= r and e[3] >= d]
    mins = [e for e in sat if not any(o[1] <= e[1] and o[2] <= e[2] and o[3] <= e[3] and o[1:] != e[1:] for o in sat)]
    return sat, mins


def _run_grid(case):
    from fim.slivers.instance_catalog import InstanceCatalog
    from fim.slivers.capacities_labels import Capacities
    ent, _ = _data()
    byname = {e[0]: e for e in ent}
    v, labels = [], set()
    nt = False
    cat = InstanceCatalog()
    c, r = case["core"], case["ram"]
    # every other case asks through ONE request object that is edited in place between the look-ups (the answer is a
    # function of the request's value at the time of the call, whichever object carries it)
    reuse = (c + r) % 2 == 0
    shared = None
    for d in case["disk"]:
        req = f"request core={c} ram={r} disk={d} extra={case.get('extra')}" + (" [request object re-used]" if reuse else "")
        if reuse and shared is not None:
            cap = shared
            cap.disk = d
        else:
            cap = Capacities(core=c, ram=r, disk=d, **case.get("extra", {}))
            shared = cap
        before = dict(cap.__dict__)
        try:
            name = cat.map_capacities_to_instance(cap=cap)
        except Exception as e:      # clause 1: a name is always returned
            v.append(("C18/map_capacities_to_instance/raised", f"{type(e).__name__}: {e}; {req}"))
            continue
        if cap.__dict__ != before:
            v.append(("C18/map_capacities_to_instance/request-mutated", f"{req} -> {cap.__dict__}"))
        sat, mins = _pareto(ent, c, r, d)
        if name not in byname:
            v.append(("C18/map_capacities_to_instance/unknown-name", f"{req} -> {name!r}"))
            continue
        g = byname[name]
        if not sat:
            labels.add("size:none-fits")
            nt = True
            # clause 1c: nothing satisfies -> the largest (last) size
            big = _largest(ent)
            if name != big[0]:
                v.append(("C18/map_capacities_to_instance/largest-otherwise", f"{req} -> {name}, largest is {big[0]}"))
        else:
            if len(mins) > 1:
                labels.add("size:multi-min")
                nt = True
            elif (c, r, d) == mins[0][1:]:
                labels.add("size:exact-entry")
            else:
                labels.add("size:unique-min")
            if not (g[1] >= c and g[2] >= r and g[3] >= d):
                # clause 1a: sufficiency
                v.append(("C18/map_capacities_to_instance/sufficient",
                          f"{req} -> {name} does not satisfy it although {len(sat)} sizes do (e.g. {mins[0][0]})"))
            elif g not in mins:
                # clause 1b: minimality
                o = [m for m in mins if m[1] <= g[1] and m[2] <= g[2] and m[3] <= g[3]][0]
                v.append(("C18/map_capacities_to_instance/minimal", f"{req} -> {name} but {o[0]} also satisfies it"))
        # clause 2 (per answer): name and capacities agree
        got = cat.get_instance_capacities(instance_type=name)
        if got is None or (got.core, got.ram, got.disk) != g[1:]:
            v.append(("C18/get_instance_capacities/name-agrees", f"{name} -> {got}"))
    if c == 0 or r == 0 or 0 in case["disk"]:
        labels.add("size:zero-field")
    if case.get("extra"):
        labels.add("size:extra-fields")
    return {"v": v, "nt": nt, "labels": sorted(labels)}


def _massage(s):
    return re.sub(r'[ -]', '_', s)


def _run_catalog(case):
    from fim.slivers.instance_catalog import InstanceCatalog
    import fim.slivers  # noqa: F401  (populates ComponentModelType)
    import fim.slivers.component_catalog as cc
    ent, comps = _data()
    v = []
    cat = InstanceCatalog()
    # ---- clause 2
    lst = cat.list_instances()
    names = list(lst.keys())
    if names != [e[0] for e in ent]:
        v.append(("C18/list_instances/complete", f"{len(names)} names listed, {len(ent)} in the file (or order differs)"))
    for e in ent:
        m = re.fullmatch(r"fabric\.c(\d+)\.m(\d+)\.d(\d+)", e[0])
        enc = tuple(int(x) for x in m.groups()) if m else None
        got = cat.get_instance_capacities(instance_type=e[0])
        tup = None if got is None else (got.core, got.ram, got.disk)
        if tup != e[1:] or enc != tup:
            v.append(("C18/get_instance_capacities/name-agrees", f"{e[0]}: capacities {tup}, file {e[1:]}, name {enc}"))
            break
        l = lst.get(e[0])
        if l is None or (l.core, l.ram, l.disk) != e[1:] or \
                any(l.__dict__[f] != 0 for f in CAP_FIELDS if f not in ("core", "ram", "disk")):
            v.append(("C18/list_instances/values", f"{e[0]}: listed {l}"))
            break
    if cat.get_instance_capacities(instance_type="fabric.c3.m3.d3") is not None:
        v.append(("C18/get_instance_capacities/unknown-name", "unknown name does not give None"))
    # read-only view
    for what, fn in (("setitem", lambda: lst.__setitem__("fabric.c1.m1.d1", None)),
                     ("delitem", lambda: lst.__delitem__(ent[0][0])),
                     ("pop", lambda: lst.pop(ent[0][0])),
                     ("clear", lambda: lst.clear()),
                     ("update", lambda: lst.update({"x": None}))):
        try:
            fn()
            v.append(("C18/list_instances/read-only", f"{what} on the listed view succeeded"))
        except (TypeError, AttributeError, NotImplementedError):
            pass
    if list(InstanceCatalog().list_instances().keys()) != [e[0] for e in ent]:
        v.append(("C18/list_instances/read-only", "catalogue changed through the view"))
    # ---- clause 4
    members = list(cc.ComponentModelType)
    if len(members) != len(comps) or len(cc.ComponentModelTypeMap) != len(comps):
        v.append(("C18/ComponentModelType/one-to-one", f"{len(members)} members, {len(cc.ComponentModelTypeMap)} "
                                                       f"map entries, {len(comps)} catalogue entries"))
    want = {_massage(e["Type"]) + "_" + _massage(e["Model"]): e for e in comps}
    if len(want) == len(comps):
        if sorted(m.name for m in members) != sorted(want):
            v.append(("C18/ComponentModelType/one-to-one", f"members {sorted(m.name for m in members)}"))
        for m in members:
            got = cc.ComponentModelTypeMap.get(m)
            if m.name in want and got != want[m.name]:
                v.append(("C18/ComponentModelType/maps-to-own-entry", f"{m.name} -> {got}"))
    import fim.user
    if fim.user.ComponentModelType is not cc.ComponentModelType:
        v.append(("C18/ComponentModelType/exported", "fim.user.ComponentModelType is a different enumeration"))
    return {"v": v, "nt": True, "labels": ["catalog"]}


def _lookup(comps, ctype, model):
    for e in comps:
        if e["Type"] == ctype and (e["Model"] == model or model in e.get("AlsoModels", [])):
            return e
    return None


def _run_comp(case):
    import fim.slivers  # noqa: F401
    import fim.slivers.component_catalog as cc
    from fim.slivers.attached_components import ComponentType
    from fim.slivers.capacities_labels import Labels
    from fim.slivers.interface_info import InterfaceType
    from fim.slivers.network_service import ServiceType
    ent, comps = _data()
    v, labels = [], []
    name, parent = case["name"], case["parent"]
    ids, labs, ns_id = case["ids"], case["labels"], case["ns_id"]
    ctx = json.dumps(case, sort_keys=True)

    kwargs = {"name": name, "ns_node_id": ns_id, "parent_name": parent}
    if case["ctype"] is not None:
        kwargs["ctype"] = ComponentType[case["ctype"]]
    if case["model"] is not None:
        kwargs["model"] = case["model"]
    if case["via"] == "model_type":
        mt = [m for m in cc.ComponentModelType if m.value == case["mt"] + 1]
        if len(mt) != 1:
            return {"v": [("C18/ComponentModelType/one-to-one", f"no member with value {case['mt'] + 1}")],
                    "nt": False, "labels": ["comp:no-member"]}
        kwargs["model_type"] = mt[0]
        entry = comps[case["mt"]]
        labels.append("comp:via-model_type")
        missing_args = False
    else:
        missing_args = case["ctype"] is None or case["model"] is None
        entry = None if missing_args else _lookup(comps, case["ctype"], case["model"])
        if entry is not None:
            labels.append("comp:via-alias" if case["model"] != entry["Model"] else "comp:via-ctype+model")
    if ids is not None:
        kwargs["interface_node_ids"] = list(ids)
    label_objs = None
    if labs is not None:
        label_objs = [Labels(**{k: (list(x) if isinstance(x, list) else x) for k, x in d.items()}) for d in labs]
        kwargs["interface_labels"] = label_objs

    ports = list(entry.get("Interfaces", {}).items()) if entry is not None else []
    nif = len(ports)
    # classification of the call
    must_raise = None
    unspecified = False
    if missing_args:
        must_raise = "missing-type-or-model"
    elif entry is None:
        must_raise = "unknown-model"
    elif nif > 0 and ids is not None and labs is not None and (len(ids) != nif or len(labs) != nif):
        must_raise = "wrong-count"
    elif nif > 0 and ids is not None and labs is None:
        unspecified = True
    elif nif > 0 and ids is None and labs is not None and len(labs) != nif:
        unspecified = True
    if must_raise:
        labels.append("comp:reject")
    if nif:
        labels.append("comp:with-interfaces")
    if nif and ids is not None and labs is not None and not must_raise:
        labels.append("comp:ids+labels")
    if labs and any(isinstance(d.get("bdf"), list) for d in labs):
        labels.append("comp:list-bdf")
    if labs and any(isinstance(d.get("bdf"), str) for d in labs):
        labels.append("comp:scalar-bdf")
    if parent is not None:
        labels.append("comp:parent")
    nt = bool(must_raise) or (nif > 0 and (ids is not None or labs is not None))

    try:
        cs = cc.ComponentCatalog().generate_component(**kwargs)
    except cc.CatalogException as e:
        if must_raise is None and not unspecified:
            v.append(("C18/generate_component/catalogued-model-rejected", f"CatalogException: {e}; case={ctx}"))
        return {"v": v, "nt": nt, "labels": labels}
    except Exception as e:
        if must_raise == "unknown-model":
            # clause 3: unknown model => CatalogException (the docstring names the class)
            v.append(("C18/generate_component/unknown-model-exception-class", f"{type(e).__name__}: {e}; case={ctx}"))
        elif must_raise is None and not unspecified:
            v.append(("C18/generate_component/raised", f"{type(e).__name__}: {e}; case={ctx}"))
        return {"v": v, "nt": nt, "labels": labels}
    if must_raise:
        v.append((f"C18/generate_component/accepted/{must_raise}", f"returned {cs.get_model()}; case={ctx}"))
        return {"v": v, "nt": nt, "labels": labels}

    def chk(clause, cond, msg):
        if not cond:
            v.append((f"C18/generate_component/{clause}", f"{msg}; case={ctx}"))

    # ---- clause 3: type, canonical model, details, name
    chk("name", cs.get_name() == name, f"name {cs.get_name()!r}")
    chk("type", cs.get_type() is not None and str(cs.get_type()) == entry["Type"], f"type {cs.get_type()}")
    chk("model", cs.get_model() == entry["Model"], f"model {cs.get_model()!r} expected {entry['Model']!r}")
    chk("details", cs.get_details() == entry["Details"], f"details {cs.get_details()!r}")
    nsi = cs.network_service_info
    if nif == 0:
        chk("no-interfaces", nsi is None or len(nsi.list_services()) == 0,
            "a model without catalogued interfaces got a network service")
        return {"v": v, "nt": nt, "labels": labels}
    svcs = nsi.list_services() if nsi is not None else []
    chk("one-service", len(svcs) == 1, f"{len(svcs)} network services")
    if len(svcs) != 1:
        return {"v": v, "nt": nt, "labels": labels}
    ns = svcs[0]
    chk("service-type", ns.get_type() == (ServiceType.P4 if entry["Type"] == "FPGA" else ServiceType.OVS),
        f"service type {ns.get_type()}")
    if ns_id is not None:
        chk("service-id", ns.node_id == ns_id, f"service id {ns.node_id!r} expected {ns_id!r}")
    else:
        chk("service-id", isinstance(ns.node_id, str) and len(ns.node_id) > 0, f"service id {ns.node_id!r}")
    nsname = ns.get_name() or ""
    chk("service-name", name in nsname and (parent is None or nsname.startswith(parent)) and
        nsi.get_network_service(nsname) is ns, f"service name {nsname!r}")
    ifs = ns.interface_info.list_interfaces() if ns.interface_info is not None else []
    got_names = [i.get_name() for i in ifs]
    exp_names = [f"{name}-{p}" for p, _ in ports]
    chk("interfaces-exact", sorted(got_names) == sorted(exp_names), f"interfaces {got_names} expected {exp_names}")
    if sorted(got_names) != sorted(exp_names):
        return {"v": v, "nt": nt, "labels": labels}
    seen_ids = set()
    for k, (port, speed) in enumerate(ports):
        isl = ns.interface_info.get_interface(f"{name}-{port}")
        want_kind = InterfaceType.SharedPort if entry["Type"] == "SharedNIC" else InterfaceType.DedicatedPort
        chk("kind", isl.get_type() == want_kind, f"{port}: kind {isl.get_type()}")
        cap = isl.get_capacities()
        want_bw = 0 if entry["Type"] == "SharedNIC" else int(speed)
        chk("speed", cap is not None and cap.bw == want_bw, f"{port}: bw {getattr(cap, 'bw', None)} expected {want_bw}")
        lab = isl.get_labels()
        given = labs[k] if labs is not None and k < len(labs) else None
        bdf = given.get("bdf") if given else None
        want_unit = len(bdf) if isinstance(bdf, list) else 1
        disc = "list-bdf" if isinstance(bdf, list) else ("scalar-bdf" if isinstance(bdf, str) else "no-bdf")
        chk(f"unit/{disc}", cap is not None and cap.unit == want_unit,
            f"{port}: unit {getattr(cap, 'unit', None)} expected {want_unit} (bdf={bdf!r})")
        want_local = [port] * len(bdf) if isinstance(bdf, list) else port
        chk("local_name", lab is not None and lab.local_name == want_local,
            f"{port}: local_name {getattr(lab, 'local_name', None)!r} expected {want_local!r}")
        # k-th supplied id / labels on the k-th interface
        if ids is not None:
            chk("id-position", isl.node_id == ids[k], f"{port}: id {isl.node_id!r} expected {ids[k]!r}")
        else:
            chk("id-generated", isinstance(isl.node_id, str) and len(isl.node_id) > 0 and isl.node_id not in seen_ids
                and isl.node_id != ns.node_id, f"{port}: generated id {isl.node_id!r}")
        seen_ids.add(isl.node_id)
        if given is not None and lab is not None:
            got = {f: x for f, x in lab.__dict__.items() if x is not None and f != "local_name"}
            want = {f: x for f, x in given.items() if f != "local_name"}
            chk("labels-position", got == want, f"{port}: labels {got} expected {want}")
        elif lab is not None:
            got = {f: x for f, x in lab.__dict__.items() if x is not None and f != "local_name"}
            chk("labels-position", got == {}, f"{port}: labels {got} although none were supplied")
    return {"v": v, "nt": nt, "labels": labels}


def run_case(case):
    kind = case["kind"]
    if kind == "grid":
        return _run_grid(case)
    if kind == "catalog":
        return _run_catalog(case)
    if kind == "comp":
        return _run_comp(case)
    raise ValueError(f"unknown case kind {kind!r}")


PROBES = {
    "C18/generate_component/unit/scalar-bdf": {
        "kind": "comp", "via": "ctype_model", "ctype": "SmartNIC", "model": "ConnectX-5", "mt": None, "name": "nic1",
        "parent": None, "ns_id": "ns1", "ids": ["i1", "i2"],
        "labels": [{"bdf": "0000:21:00.0"}, {"bdf": "0000:21:00.1"}]},
}
