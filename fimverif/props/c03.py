"""
C03 - attribute value codecs are lossless, canonical and never mutate their input (DESIGN.md §3 "C03").

case = {"kind": <class under test>, ...value description...}; one strategy per kind, `st.one_of` over kinds.

  JSONField family (Capacities, CapacityHints, Labels, ReservationInfo, StructuralInfo, Location, Flags):
      {"kind", "via": "ctor"|"update", "val": {field: value}, "extras": [[key, json value], ...],
       "extras_first": bool, "upd": {field: value}, "bad": {"field": name, "value": v}}
  Tags:            {"kind", "tags": [str], "form": "list"|"tuple"|"args"|"mixed"}
  Measurement/User/LayoutData:
                   {"kind", "form": "obj"|"text"|"none", "obj": json value, "fmt": 0..3, "fill": "none"|"max"|"max-1"}
  Gateway:         {"kind", "fam": "v4"|"v6"|"both"|"none", "v4": [subnet, gw], "v6": [subnet, gw], "mac": str|None,
                    "other": {label field: value} (fields the Gateway constructor ignores), "extras", "extras_first"}
  PathInfo / ERO:  {"kind", "ptype": "Path"|"Graph", "a2z": [str]|None, "z2a": [str]|None, "sym": bool,
                    "graph": str, "strict": bool, "extras", "extras_first"}
  MaintenanceInfo: {"kind", "entries": [{"name", "state", "state_str": bool, "deadline": dt|None, "end": dt|None,
                    "dt_str": bool}], "via_sliver": bool, "probe": name}      dt = [y, mo, d, h, mi, s, us, tz-min|None]
  TLabel / TCapacity / TLocation / TConstraint (legacy typed tuples):
                   {"kind", "type": str, "val": str|int, "via": "kw"|"fromstring", "bad_type": str}

Oracle clauses are numbered as in DESIGN.md (1 round trip equal, 2 re-encode identical, 3 empty <-> absent,
4 unknown keys tolerated, 5 update() is copy-with-changes, 6 finalized MaintenanceInfo, 7 legacy tuples).
The oracle never re-implements an encoder: it compares the library's decode(encode(x)) with the generated value.
"""
import copy
import json

from hypothesis import strategies as st

ID = "C03"

JSONFIELD_KINDS = ["Capacities", "CapacityHints", "Labels", "ReservationInfo", "StructuralInfo", "Location", "Flags"]
JSONDATA_KINDS = ["MeasurementData", "UserData", "LayoutData"]
TUPLE_KINDS = ["TLabel", "TCapacity", "TLocation", "TConstraint"]
KINDS = JSONFIELD_KINDS + ["Tags"] + JSONDATA_KINDS + ["Gateway", "PathInfo", "ERO", "MaintenanceInfo"] + TUPLE_KINDS

RULE = ("Hypothesis one_of over 19 kinds (7 JSONField classes, Tags, 3 JSONData classes, Gateway, PathInfo, ERO, "
        "MaintenanceInfo, 4 legacy typed tuples); each case carries the kind and a plain-data description of a value "
        "built through the public constructor / update(): every field, scalar and list forms, 0 / 0.0 / -0.0 / False / "
        "'' / [] and boundary values boosted, plus 0-3 unknown keys injected into the encoded text. Oracle: the "
        "library's decode(encode(x)) against the generated description, text identity of the re-encoding, "
        "absent<->empty, update() as copy-with-changes, finalize lock, legacy tuple string round trip. "
        "Non-trivial: the value has >= 1 field that is falsy-but-legitimate, list-valued or at a boundary, or the "
        "text carries unknown keys. Distinct by hash of the case.")
ASSUMPTIONS = [
    "Capacities values are non-negative ints (0 == unset by design); None is not passed as a field value",
    "floats are finite (NaN/inf are not coordinates and NaN != NaN would make 'equal' meaningless)",
    "unknown keys injected for clause 4 are not names of existing attributes/methods of the class "
    "(e.g. 'to_json'), which from_json would overwrite on the instance; such names are not forward-compatible fields",
    "an unknown key whose value has a type the class would not accept for any of its own fields is reported under one "
    "separate signature (C03/JSONField.from_json/unknown-keys/foreign-typed-value-raises)",
    "JSONData: a top-level Python str is the JSON-text form, so Python-object payloads are non-str at top level; "
    "objects are JSON-pure (str keys, lists, no tuples)",
    "legacy tuple values have no trailing whitespace, types no leading whitespace (fromstring strips the whole string); "
    "Capacity tuple values compare as str",
    "PathInfo/ERO always carry a payload (to_json needs one); ERO.strict is a bool",
    "MaintenanceEntry: unknown keys are not injected (no tolerance documented); aware datetimes use whole-minute offsets",
]
BUDGET = {"quick": 60000, "thorough": 600000}
MIN_LABEL_FRACTION = dict({f"kind:{k}": 0.015 for k in KINDS},
                          **{"falsy-field": 0.15, "list-field": 0.05, "boundary": 0.03, "extras": 0.1,
                             "nothing-set": 0.005, "update-kw": 0.05, "bad-kw": 0.1})

SIG_ZERO = "zero-value-dropped"
SIG_FOREIGN = "C03/JSONField.from_json/unknown-keys/foreign-typed-value-raises"

# ---------------------------------------------------------------------------------------------- generators

_HEX = "0123456789abcdefABCDEF"
_hex = lambda lo, hi: st.text(_HEX, min_size=lo, max_size=hi)
_octet = st.one_of(st.sampled_from([0, 9, 10, 99, 100, 199, 200, 249, 250, 255]), st.integers(0, 255)).map(str)
_ipv4 = st.lists(_octet, min_size=4, max_size=4).map(".".join)
_pfx = st.integers(0, 99).map(str)
_ipv6 = st.one_of(st.sampled_from(["::", "::1", "2001:db8::", "fe80::1:2", "2001:0db8:85a3:0000:0000:8a2e:0370:7334"]),
                  st.lists(_hex(1, 4), min_size=8, max_size=8).map(":".join),
                  st.lists(_hex(0, 4), min_size=1, max_size=8).map(":".join))
_mac = st.lists(_hex(2, 2), min_size=6, max_size=6).map(":".join)
_vlan = st.one_of(st.sampled_from([0, 1, 4095, 4096]), st.integers(0, 4096)).map(str)
_word = "abcdefghijklmnopqrstuvwxyzABCDEFGHIJKLMNOPQRSTUVWXYZ0123456789_"


def _sized(alphabet, lo, hi):
    return st.one_of(st.text(alphabet, min_size=lo, max_size=min(hi, lo + 20)),
                     st.sampled_from([lo, hi]).flatmap(lambda n: st.text(alphabet, min_size=n, max_size=n)))


_free_text = st.one_of(st.sampled_from(["", "0", " ", "None", "a:b", "node-1", "{}", "é中"]), st.text(max_size=12))

LABEL_MEMBERS = {
    "bdf": st.builds(lambda a, b, c, sep, d: f"{a}:{b}:{c}{sep}{d}", _hex(1, 4), _hex(2, 2), _hex(2, 2),
                     st.sampled_from([".", ".", ":", "x"]), _hex(1, 3)),
    "mac": _mac,
    "ipv4": _ipv4,
    "ipv4_range": st.builds(lambda a, b: f"{a}-{b}", _ipv4, _ipv4),
    "ipv4_subnet": st.builds(lambda a, p: f"{a}/{p}", _ipv4, _pfx),
    "ipv6": _ipv6,
    "ipv6_range": st.builds(lambda a, b: f"{a}-{b}", _ipv6, _ipv6),
    "ipv6_subnet": st.builds(lambda a, p: f"{a}/{p}", _ipv6, _pfx),
    "asn": st.one_of(st.sampled_from([1, 2 ** 32 - 1]), st.integers(1, 2 ** 32 - 1)).map(str),
    "vlan": _vlan,
    "vlan_range": st.tuples(st.integers(0, 4096), st.integers(0, 4096)).map(lambda t: f"{min(t)}-{max(t)}"),
    "inner_vlan": _vlan,
    "instance": _free_text, "instance_parent": _free_text, "local_name": _free_text, "local_type": _free_text,
    "device_name": _free_text,
    "bgp_key": _sized(_word + "-+/.:", 6, 150),
    "account_id": _sized(_word + "-/.", 3, 100),
    "region": _sized(_word + "-.", 3, 100),
    "usb_id": st.builds(lambda a, b: f"{a}:{b}", st.text("0123456789abcdef", min_size=4, max_size=4),
                        st.text("0123456789abcdef", min_size=4, max_size=4)),
    "numa": st.integers(-1, 7).map(str),
}
LABEL_FIELDS = list(LABEL_MEMBERS)
# clearly invalid members for clause 5 ("invalid kw raise without changing x")
LABEL_NONMEMBERS = {"vlan": "4097", "inner_vlan": "-1", "mac": "00:11:22:33:44", "ipv4": "256.1.1.1", "asn": "0",
                    "vlan_range": "20-10", "numa": "8", "usb_id": "12G4:abcd", "bdf": "00:00.0", "region": "a b"}

CAP_FIELDS = ['cpu', 'core', 'ram', 'disk', 'bw', 'burst_size', 'unit', 'mtu']
_cap_val = st.one_of(st.sampled_from([0, 0, 1, 2 ** 31, 2 ** 40]), st.integers(0, 64), st.integers(0, 2 ** 40))
_str_or_list = st.one_of(_free_text, st.lists(_free_text, max_size=4))
_finite = st.floats(allow_nan=False, allow_infinity=False)
_coord = st.one_of(st.sampled_from([0.0, 0.0, -0.0, 90.0, -90.0, 180.0, -180.0, 35.9132, 5e-324, 1.7976931348623157e308]),
                   st.floats(-180, 180), _finite)
FLAG_FIELDS = ["auto_config", "auto_mount", "ipv4_management", "ptp"]


def _label_value(field):
    m = LABEL_MEMBERS[field]
    return st.one_of(m, m, st.lists(m, max_size=4))


FIELD_VALUES = {
    "Capacities": {f: _cap_val for f in CAP_FIELDS},
    "CapacityHints": {"instance_type": st.one_of(st.sampled_from(["", "fabric.c1.m4.d10"]), st.text(max_size=20))},
    "Labels": {f: _label_value(f) for f in LABEL_FIELDS},
    "ReservationInfo": {f: _str_or_list for f in ["reservation_id", "reservation_state", "error_message"]},
    "StructuralInfo": {"sub_graph_id": _str_or_list, "parent_graph_id": _str_or_list,
                       "adm_graph_ids": st.one_of(st.lists(_free_text, max_size=4), _free_text)},
    "Location": {"postal": _free_text, "lat": st.one_of(_coord, _coord, _coord, st.sampled_from(["35.9", "0", ""])),
                 "lon": st.one_of(_coord, _coord, _coord, st.sampled_from(["-79.0", "0"]))},
    "Flags": {f: st.booleans() for f in FLAG_FIELDS},
}

_json_leaf = st.one_of(st.none(), st.booleans(), st.integers(-2 ** 63, 2 ** 63), _finite, st.text(max_size=8),
                       st.sampled_from([0, 0.0, "", False]))
_json_val = st.recursive(_json_leaf, lambda ch: st.one_of(st.lists(ch, max_size=3),
                                                          st.dictionaries(st.text(max_size=4), ch, max_size=3)),
                         max_leaves=6)
_unknown_key = st.one_of(st.sampled_from(["x_new", "future_field", "CPU", "Vlan", "vlan2", "ipv4 ", "", "lat_", "a.b",
                                          "postal-code", "ключ", "strict2", "Type"]),
                         st.text(_word, min_size=1, max_size=8).map(lambda s: "u_" + s))
# values an unknown key may carry: values of the class's own field type ("conformant") are boosted
_CONFORMANT = {
    "Capacities": st.integers(0, 2 ** 40), "CapacityHints": st.text(max_size=6),
    "Labels": _str_or_list, "ReservationInfo": _str_or_list, "StructuralInfo": _str_or_list, "Gateway": _str_or_list,
    "Location": st.one_of(st.text(max_size=6), _finite), "Flags": st.booleans(),
    "PathInfo": _json_val, "ERO": _json_val,
}


def _extras(kind):
    val = st.one_of(_CONFORMANT[kind], _CONFORMANT[kind], _CONFORMANT[kind], _json_val)
    return st.one_of(st.just([]), st.lists(st.tuples(_unknown_key, val).map(list), min_size=1, max_size=3,
                                           unique_by=lambda kv: kv[0]))


def _subset_dict(fields, max_size=None):
    """dict over a random subset of the fields (possibly empty), each with its own value strategy"""
    names = st.lists(st.sampled_from(list(fields)), unique=True, max_size=max_size or len(fields))

    @st.composite
    def sub(draw):
        return {k: draw(fields[k]) for k in draw(names)}
    return sub()


def _jsonfield_case(kind):
    fields = FIELD_VALUES[kind]
    if kind == "Labels":
        bad = st.one_of(
            st.fixed_dictionaries({"field": _unknown_key, "value": st.just("1")}),
            st.sampled_from(sorted(LABEL_NONMEMBERS)).map(lambda f: {"field": f, "value": LABEL_NONMEMBERS[f]}),
            st.sampled_from(sorted(LABEL_NONMEMBERS)).map(lambda f: {"field": f, "value": ["1", LABEL_NONMEMBERS[f]]}))
    else:
        bad = st.fixed_dictionaries({"field": _unknown_key, "value": _CONFORMANT[kind]})
    return st.fixed_dictionaries({
        "kind": st.just(kind), "via": st.sampled_from(["ctor", "ctor", "update"]),
        "val": _subset_dict(fields, max_size=6), "extras": _extras(kind), "extras_first": st.booleans(),
        "upd": st.one_of(st.just({}), _subset_dict(fields, max_size=3)),
        "bad": st.one_of(st.none(), bad)})


_tag_alpha = _word + "-" + "éß中٣"
_tag = st.one_of(st.text(_tag_alpha, min_size=1, max_size=12), st.sampled_from(["0", "-", "_", "None"]),
                 st.sampled_from([254, 255]).flatmap(lambda n: st.text(_tag_alpha, min_size=n, max_size=n)))
_tags_case = st.fixed_dictionaries({"kind": st.just("Tags"), "tags": st.lists(_tag, max_size=6),
                                    "form": st.sampled_from(["list", "tuple", "args", "mixed"])})


def _jsondata_case(kind):
    top = st.one_of(st.sampled_from([0, False, 0.0, [], {}]), st.integers(-2 ** 63, 2 ** 63), st.booleans(), _finite,
                    st.lists(_json_val, max_size=3), st.dictionaries(st.text(max_size=6), _json_val, max_size=3))
    return st.fixed_dictionaries({"kind": st.just(kind), "form": st.sampled_from(["obj", "obj", "text", "text", "none"]),
                                  "obj": top, "fmt": st.integers(0, 3),
                                  "fill": st.sampled_from(["none", "none", "none", "max", "max-1"])})


_gateway_case = st.fixed_dictionaries({
    "kind": st.just("Gateway"), "fam": st.sampled_from(["v4", "v4", "v6", "v6", "both", "none"]),
    "v4": st.tuples(LABEL_MEMBERS["ipv4_subnet"], _ipv4).map(list),
    "v6": st.tuples(LABEL_MEMBERS["ipv6_subnet"], _ipv6).map(list),
    "mac": st.one_of(st.none(), _mac),
    "other": _subset_dict({f: LABEL_MEMBERS[f] for f in ["vlan", "local_name", "bdf", "asn"]}),
    "extras": _extras("Gateway"), "extras_first": st.booleans()})

_hop = st.one_of(st.sampled_from(["", "node-1", "a:b"]), st.text(max_size=8))
_hops = st.lists(_hop, max_size=5)


def _path_case(kind):
    return st.fixed_dictionaries({
        "kind": st.just(kind), "ptype": st.sampled_from(["Path", "Path", "Graph"]),
        "a2z": st.one_of(_hops, _hops, st.none()), "z2a": st.one_of(_hops, _hops, st.none()), "sym": st.booleans(),
        "graph": st.one_of(st.sampled_from(["", "None", "graph-1"]), st.text(max_size=12)),
        "strict": st.booleans(), "extras": _extras(kind), "extras_first": st.booleans()})


_dt = st.one_of(
    st.sampled_from([[1, 1, 1, 0, 0, 0, 0, None], [9999, 12, 28, 23, 59, 59, 999999, None],
                     [2024, 2, 28, 0, 0, 0, 0, 0], [2024, 2, 28, 0, 0, 0, 0, None]]),
    st.tuples(st.integers(2, 9998), st.integers(1, 12), st.integers(1, 28), st.integers(0, 23), st.integers(0, 59),
              st.integers(0, 59), st.one_of(st.just(0), st.integers(0, 999999)),
              st.one_of(st.none(), st.none(), st.sampled_from([0, -300, 330, 1439, -1439]), st.integers(-1439, 1439))
              ).map(list))
STATES = ["Active", "PreMaint", "Maint", "Unknown"]
_entry = st.fixed_dictionaries({"name": st.one_of(st.sampled_from(["", "ALL", "site-w1"]), st.text(max_size=8)),
                                "state": st.sampled_from(STATES), "state_str": st.booleans(),
                                "deadline": st.one_of(st.none(), _dt), "end": st.one_of(st.none(), _dt),
                                "dt_str": st.booleans()})
_maint_case = st.fixed_dictionaries({"kind": st.just("MaintenanceInfo"), "entries": st.lists(_entry, max_size=4),
                                     "via_sliver": st.booleans(), "probe": st.text(max_size=4)})

TUPLE_TYPES = {   # the four type files under fim/graph/data (pinned tree); cross-checked against the library at run time
    "TLabel": ['bdf', 'mac', 'ipv4', 'ipv4-subnet', 'ipv6', 'ipv6-subnet', 'asn', 'vlan', 'vlan-range', 'node', 'pool',
               'label_pool'],
    "TCapacity": ['cpu', 'core', 'ram', 'disk', 'bw', 'unit', 'pool', 'capacity_pool'],
    "TLocation": ['postal', 'latlon'],
    "TConstraint": ['numa', 'vcpu'],
}
_tuple_text = st.one_of(st.sampled_from(["", "0", ":", "::", "a:b", " 71.2345, 85.231", "00:00:12:12:12:12", " x", "x\ty"]),
                        st.text(max_size=12)).filter(lambda s: s == s.rstrip())
_bad_type = st.one_of(st.sampled_from(["", "CPU", "cpu ", "ipv4_subnet", "vlan_range", "Postal", "numa0", "lat", "x"]),
                      st.text(_word + "-", min_size=1, max_size=8))


def _tuple_case(kind):
    val = st.one_of(_tuple_text, _tuple_text, st.integers(0, 2 ** 40)) if kind == "TCapacity" else _tuple_text
    return st.fixed_dictionaries({"kind": st.just(kind), "type": st.sampled_from(TUPLE_TYPES[kind]), "val": val,
                                  "via": st.sampled_from(["kw", "fromstring"]),
                                  "bad_type": _bad_type.filter(lambda t: t not in TUPLE_TYPES[kind])})


_BY_KIND = ([_jsonfield_case(k) for k in JSONFIELD_KINDS] + [_tags_case] + [_jsondata_case(k) for k in JSONDATA_KINDS] +
            [_gateway_case, _path_case("PathInfo"), _path_case("ERO"), _maint_case] +
            [_tuple_case(k) for k in TUPLE_KINDS])
assert len(_BY_KIND) == len(KINDS)


def strategy(tier):
    return st.one_of(*_BY_KIND)


# ---------------------------------------------------------------------------------------------- oracle helpers

class _Ctx:
    def __init__(self, case):
        self.case = case
        self.kind = case["kind"]
        self.v = []
        self.labels = {f"kind:{self.kind}"}
        self.nt = False

    def viol(self, clause, msg):
        sig = clause if clause.startswith("C03/") else f"C03/{self.kind}/{clause}"
        self.v.append((sig, f"{msg} case={json.dumps(self.case, sort_keys=True, default=str)[:1500]}"))

    def chk(self, clause, cond, msg=""):
        if not cond:
            self.viol(clause, msg)

    def call(self, clause, fn):
        """run a library call that the property says cannot fail; a raise is a violation under <clause>/raised.
        returns (ok, result)"""
        try:
            return True, fn()
        except Exception as e:      # exception raised by the code under test = data
            self.viol(f"{clause}/raised", f"{type(e).__name__}: {e}")
            return False, None

    def raises(self, fn):
        """run a library call that is expected to raise; returns True iff it raised"""
        try:
            fn()
        except Exception:
            return True
        return False

    def mark(self, *labels):
        self.labels.update(labels)
        if set(labels) & {"falsy-field", "list-field", "boundary", "extras"}:
            self.nt = True

    def result(self):
        return {"v": self.v, "nt": self.nt, "labels": sorted(self.labels)}


def _is_zero(x):
    """falsy-but-legitimate scalar that compares equal to 0 (what the generic encoder tests)"""
    return x is not None and not isinstance(x, (str, list, dict)) and x == 0


def _is_falsy_legit(x):
    return x is not None and not isinstance(x, dict) and (x == 0 or x == "" or x == [])


def _conforms(kind, value):
    """is this a value the class accepts for its own fields (so a newer FIM could have written it for a new field)"""
    def strs(x):
        return isinstance(x, str) or (isinstance(x, list) and all(isinstance(i, str) for i in x))
    if kind == "Capacities":
        return isinstance(value, int) and not isinstance(value, bool) and value >= 0
    if kind == "CapacityHints":
        return isinstance(value, str)
    if kind in ("Labels", "ReservationInfo", "StructuralInfo", "Gateway"):
        return strs(value)
    if kind == "Location":
        return isinstance(value, (str, float))
    if kind == "Flags":
        return isinstance(value, bool)
    return True


def _with_extras(text, extras, first):
    """harness-side injection of unknown keys into an encoded JSON object ('' = nothing encoded)"""
    base = json.loads(text) if text else {}
    assert isinstance(base, dict)
    ex = {k: v for k, v in extras if k not in base}
    d = dict(ex, **base) if first else dict(base, **ex)
    return json.dumps(d), ex


def _value_flags(ctx, values):
    for x in values:
        if _is_falsy_legit(x):
            ctx.mark("falsy-field")
        if isinstance(x, list):
            ctx.mark("list-field")
            if any(_is_falsy_legit(i) for i in x):
                ctx.mark("falsy-field")
        if isinstance(x, int) and not isinstance(x, bool) and abs(x) >= 2 ** 31:
            ctx.mark("boundary")
        if isinstance(x, float) and (abs(x) >= 1e300 or 0 < abs(x) < 1e-300 or abs(x) in (90.0, 180.0)):
            ctx.mark("boundary")
        if isinstance(x, str) and len(x) >= 100:
            ctx.mark("boundary")


# ---------------------------------------------------------------------------------------------- JSONField family

def _run_jsonfield(ctx):
    import fim.slivers.capacities_labels as cl
    case, kind = ctx.case, ctx.kind
    cls = getattr(cl, kind)
    val = case["val"]
    _value_flags(ctx, val.values())
    zero_is_unset = kind == "Capacities"          # clause 1: for Capacities 0 == unset by design
    default = cls().__dict__                      # field defaults (None / 0 / False)
    expected = dict(default, **copy.deepcopy(val))

    # --- construction through the public constructor or update() on an empty value
    kwargs = copy.deepcopy(val)
    if case["via"] == "ctor":
        ok, x = ctx.call("construct", lambda: cls(**kwargs))
    else:
        ok, x = ctx.call("construct", lambda: cls.update(cls(), **kwargs))
    if not ok:
        return
    ctx.chk("input-mutated", kwargs == val, f"constructor arguments now {kwargs}")
    ctx.chk("construct/fields", x.__dict__ == expected, f"constructed={x.__dict__}")
    snap = copy.deepcopy(x.__dict__)
    nothing_set = all(v is None or (zero_is_unset and v == 0) for v in expected.values()) and kind != "Flags"
    if nothing_set:
        ctx.mark("nothing-set")

    # --- clause 1/2/3: encode, decode, re-encode
    ok, enc = ctx.call("encode", x.to_json)
    if not ok:
        return
    ctx.chk("encode/type", isinstance(enc, str), f"to_json returned {type(enc).__name__}")
    if not isinstance(enc, str):
        return
    if nothing_set:
        ctx.chk("empty-encodes-empty", enc == "", f"nothing set but to_json()={enc!r}")            # clause 3
    for absent in ("", None, "None"):                                                               # clause 3
        ok, d0 = ctx.call("absent-decodes-none", lambda: cls.from_json(absent))
        if ok:
            ctx.chk("absent-decodes-none", d0 is None, f"from_json({absent!r}) -> {d0!r}")
    ok, dec = ctx.call("decode", lambda: cls.from_json(enc))
    if not ok:
        return
    if nothing_set and enc == "":
        ctx.chk("roundtrip-equal/empty-not-absent", dec is None, f"decoded={dec!r}")
    elif dec is None:
        setf = {k: v for k, v in expected.items() if v is not None}
        disc = SIG_ZERO if all(_is_zero(v) for v in setf.values()) and not zero_is_unset else "decoded-none"
        ctx.viol(f"roundtrip-equal/{disc}", f"fields {setf} set, to_json()={enc!r}, from_json gives None")
    else:
        ctx.chk("decode/class", type(dec) is cls, f"decoded type {type(dec).__name__}")
        diff = {k: (expected[k], dec.__dict__.get(k, "<missing>")) for k in expected
                if dec.__dict__.get(k, "<missing>") != expected[k]}
        extra_attrs = sorted(set(dec.__dict__) - set(expected))
        if diff:
            dropped = all(_is_zero(a) and b is None for a, b in diff.values())
            ctx.viol(f"roundtrip-equal/{SIG_ZERO if dropped else 'field-differs'}",
                     f"(original, decoded) per differing field: {diff}; text={enc!r}")
        ctx.chk("roundtrip-equal/extra-attribute", not extra_attrs, f"decoded has attributes {extra_attrs}")
        if not diff and hasattr(cls, "__eq__") and cls.__eq__ is not object.__eq__:
            ok, eq = ctx.call("eq", lambda: (x == dec, dec == x))
            if ok:
                ctx.chk("roundtrip-equal/eq-operator", eq == (True, True), f"x==dec, dec==x -> {eq}")
        ok, enc2 = ctx.call("encode", dec.to_json)
        if ok:
            ctx.chk("reencode-identical", enc2 == enc, f"first={enc!r} second={enc2!r}")            # clause 2
        # a decoded value is the caller's own: changing it (the library itself assigns to fields of decoded values)
        # must not change what the same text decodes to afterwards
        first = copy.deepcopy(dec.__dict__)
        for k in list(dec.__dict__):
            setattr(dec, k, None)
        ok, dec_again = ctx.call("decode", lambda: cls.from_json(enc))
        if ok:
            ctx.chk("decode/depends-on-earlier-decoded-object", dec_again is not None and dec_again.__dict__ == first,
                    f"second decode of {enc!r} after clearing the first result: "
                    f"{None if dec_again is None else dec_again.__dict__}, first time {first}")
        dec.__dict__.update(first)

    # --- clause 4: unknown keys
    if case["extras"]:
        text, ex = _with_extras(enc, case["extras"], case["extras_first"])
        if ex:
            ctx.mark("extras")
            foreign = [k for k, vv in ex.items() if not _conforms(kind, vv)]
            if foreign:
                ctx.mark("extras-foreign")
            try:
                dec_x = cls.from_json(text)
                raised = None
            except Exception as e:
                dec_x, raised = None, e
            if raised is not None:
                if foreign:
                    ctx.viol(SIG_FOREIGN, f"{kind}.from_json({text!r}) -> {type(raised).__name__}: {raised}")
                else:
                    ctx.viol("unknown-keys/raised", f"from_json({text!r}) -> {type(raised).__name__}: {raised}")
            else:
                ref = dec.__dict__ if (dec is not None) else default
                ctx.chk("unknown-keys/known-fields-kept", dec_x is not None and dec_x.__dict__ == ref,
                        f"from_json({text!r}) -> {None if dec_x is None else dec_x.__dict__}; without extras: {ref}")

    # --- clause 5: update() is copy-with-changes
    upd = case["upd"]
    if upd:
        ctx.mark("update-kw")
        _value_flags(ctx, upd.values())
    ok, y = ctx.call("update", lambda: cls.update(x, **copy.deepcopy(upd)))
    if ok:
        ctx.chk("update/new-object", y is not x and type(y) is cls, f"result is x: {y is x}, type {type(y).__name__}")
        ctx.chk("update/original-changed", x.__dict__ == snap, f"x before={snap} after={x.__dict__}")
        want = dict(snap, **upd)
        ctx.chk("update/overlay", y.__dict__ == want, f"result={y.__dict__} expected={want}")
    # invalid kw = a field name the class does not have, or (Labels) a value outside the field's documented grammar
    bad = case["bad"]
    if bad is not None:
        assert bad["field"] not in default or (kind == "Labels" and bad["field"] in LABEL_NONMEMBERS)
        ctx.mark("bad-kw")
        kw = dict(copy.deepcopy(upd), **{bad["field"]: bad["value"]})
        before = copy.deepcopy(x.__dict__)
        ctx.chk("update/invalid-accepted", ctx.raises(lambda: cls.update(x, **kw)),
                f"update(x, **{kw}) did not raise")
        ctx.chk("update/invalid-changed-original", x.__dict__ == before, f"x before={before} after={x.__dict__}")
        ctx.chk("construct/invalid-accepted", ctx.raises(lambda: cls(**kw)), f"{kind}(**{kw}) did not raise")

    # --- never mutates its input: x after encode/decode/update, and the kwargs handed in
    ctx.chk("input-mutated", x.__dict__ == snap, f"x before={snap} after={x.__dict__}")


# ---------------------------------------------------------------------------------------------- Tags

def _run_tags(ctx):
    from fim.slivers.tags import Tags
    tags, form = ctx.case["tags"], ctx.case["form"]
    if not tags:
        ctx.mark("falsy-field")
    if any(len(t) >= 254 for t in tags):
        ctx.mark("boundary")
    if len(tags) > 1:
        ctx.mark("list-field")
    arg = list(tags)
    if form == "list":
        build = lambda: Tags(arg)
    elif form == "tuple":
        build = lambda: Tags(tuple(arg))
    elif form == "args":
        build = lambda: Tags(*arg)
    else:
        build = lambda: Tags(arg[:1], *arg[1:])
    ok, x = ctx.call("construct", build)
    if not ok:
        return
    ctx.chk("construct/fields", x.tags == tags and list(x) == tags, f"tags={x.tags}")
    ctx.chk("input-mutated", arg == tags, f"argument list now {arg}")
    ok, enc = ctx.call("encode", x.to_json)
    if not ok:
        return
    ok, dec = ctx.call("decode", lambda: Tags.from_json(enc))
    if ok:
        if dec is None:
            ctx.viol("roundtrip-equal/decoded-none", f"to_json()={enc!r} decodes to None")
        else:
            ctx.chk("roundtrip-equal/field-differs", type(dec) is Tags and dec.tags == tags, f"decoded={dec.tags}")  # 1
            ok, enc2 = ctx.call("encode", dec.to_json)
            if ok:
                ctx.chk("reencode-identical", enc2 == enc, f"first={enc!r} second={enc2!r}")                       # 2
    for absent in ("", None, "None"):                                                                               # 3
        ok, d0 = ctx.call("absent-decodes-none", lambda: Tags.from_json(absent))
        if ok:
            ctx.chk("absent-decodes-none", d0 is None, f"from_json({absent!r}) -> {d0!r}")
    ctx.chk("input-mutated", x.tags == tags, f"x.tags now {x.tags}")


# ---------------------------------------------------------------------------------------------- JSONData

_FMT = [dict(), dict(separators=(",", ":")), dict(indent=1), dict(sort_keys=True, ensure_ascii=False)]


def _run_jsondata(ctx):
    import fim.slivers.json_data as jd
    case = ctx.case
    cls = getattr(jd, ctx.kind)
    form, obj = case["form"], case["obj"]
    if form == "none":
        ctx.mark("nothing-set")
        ok, x = ctx.call("construct", lambda: cls(None))
        if not ok:
            return
        ok, r = ctx.call("decode", lambda: (x.json, x.data, cls(x.json).data, cls(x.json).json))
        if ok:
            ctx.chk("roundtrip-equal/field-differs", isinstance(r[0], str) and r[2] == r[1], f"{r}")
            ctx.chk("reencode-identical", r[3] == r[0], f"{r}")
        return
    if case["fill"] != "none":
        # payload padded to exactly MAX_SIZE or MAX_SIZE-1 characters of JSON text: a list holding one string
        ctx.mark("boundary")
        n = cls.MAX_SIZE - (0 if case["fill"] == "max" else 1)
        obj = ["a" * (n - 4)]                       # json.dumps(["aaa"]) == '["aaa"]' -> len + 4
        text = '["' + "a" * (n - 4) + '"]'
        assert len(text) == n
    else:
        text = json.dumps(obj, **_FMT[case["fmt"]])
        if len(text) > cls.MAX_SIZE or len(json.dumps(obj)) > cls.MAX_SIZE:
            ctx.mark("over-size")                   # outside the domain ("up to the size limit")
            return
    _value_flags(ctx, [obj] + (list(obj.values()) if isinstance(obj, dict) else obj if isinstance(obj, list) else []))
    if form == "obj":
        arg = copy.deepcopy(obj)
        ok, x = ctx.call("construct", lambda: cls(arg))
        if not ok:
            return
        ctx.chk("input-mutated", arg == obj and type(arg) is type(obj), f"argument now {arg!r}")
        ok, r = ctx.call("decode", lambda: (x.json, x.data))
        if not ok:
            return
        enc, data = r
        ctx.chk("encode/type", isinstance(enc, str), f"json is {type(enc).__name__}")
        ctx.chk("roundtrip-equal/field-differs", _json_same(data, obj), f"data={data!r} expected={obj!r}")      # 1
    else:
        ok, x = ctx.call("construct", lambda: cls(text))
        if not ok:
            return
        ok, r = ctx.call("decode", lambda: (x.json, x.data))
        if not ok:
            return
        enc, data = r
        ctx.chk("text-preserved", enc == text, f"json={enc!r} given={text!r}")                                  # 2
        ctx.chk("roundtrip-equal/field-differs", _json_same(data, obj), f"data={data!r} expected={obj!r}")      # 1
    # what .data hands out is the caller's own: changing it in place must not change the value it came from
    if isinstance(data, (dict, list)):
        if isinstance(data, dict):
            data["__changed_by_the_caller__"] = 1
        else:
            data.append("__changed_by_the_caller__")
        ok, again = ctx.call("decode", lambda: (x.data, x.json))
        if ok:
            ctx.chk("data/depends-on-object-handed-out-earlier", _json_same(again[0], obj) and again[1] == enc,
                    f"after the caller changed the object returned by .data: data={again[0]!r} json={again[1]!r}")
    if isinstance(enc, str):
        ok, x2 = ctx.call("decode", lambda: cls(enc))          # decode from its own encoding
        if ok:
            ok, r2 = ctx.call("decode", lambda: (x2.json, x2.data))
            if ok:
                ctx.chk("roundtrip-equal/field-differs", _json_same(r2[1], obj), f"data={r2[1]!r} expected={obj!r}")
                ctx.chk("reencode-identical", r2[0] == enc, f"first={enc!r} second={r2[0]!r}")                  # 2


def _json_same(a, b):
    """equality that also tells 0 / 0.0 / False apart (== alone would not)"""
    if type(a) is not type(b):
        return False
    if isinstance(a, dict):
        return a.keys() == b.keys() and all(_json_same(a[k], b[k]) for k in a)
    if isinstance(a, list):
        return len(a) == len(b) and all(_json_same(i, j) for i, j in zip(a, b))
    if isinstance(a, float):
        return a == b and (a != 0 or str(a) == str(b))
    return a == b


# ---------------------------------------------------------------------------------------------- Gateway

def _run_gateway(ctx):
    from fim.slivers.gateway import Gateway
    from fim.slivers.capacities_labels import Labels
    case = ctx.case
    fam = case["fam"]
    if fam == "none":
        ctx.mark("nothing-set")
        ok, g = ctx.call("construct", lambda: Gateway(None))
        if not ok:
            return
        ok, enc = ctx.call("encode", g.to_json)
        if ok:
            ctx.chk("empty-encodes-empty", enc is None, f"Gateway(None).to_json()={enc!r}")                     # 3
        for absent in ("", None, "None"):
            ok, g0 = ctx.call("absent-decodes-none", lambda: Gateway.from_json(absent))
            if ok:
                # "read back as absent": like every other from_json (an empty Gateway object used to come back
                # here; that was the C02 defect 'absent-reads-as-empty-object/gateway', repaired in the repository)
                ctx.chk("absent-decodes-none", g0 is None, f"from_json({absent!r}) -> {g0!r}")
        return
    kw = dict(case["other"])
    if fam in ("v4", "both"):
        kw.update(ipv4_subnet=case["v4"][0], ipv4=case["v4"][1])
    if fam in ("v6", "both"):
        kw.update(ipv6_subnet=case["v6"][0], ipv6=case["v6"][1])
    if case["mac"] is not None:
        kw["mac"] = case["mac"]
    _value_flags(ctx, kw.values())
    lab = Labels(**kw)
    snap = copy.deepcopy(lab.__dict__)
    ok, g = ctx.call("construct", lambda: Gateway(lab))
    if not ok:
        return
    ctx.chk("input-mutated", lab.__dict__ == snap and g.lab is not lab, f"labels now {lab.__dict__}")
    if fam != "both":
        sub, gw = case["v4"] if fam == "v4" else case["v6"]
        ctx.chk("construct/fields", (g.subnet, g.gateway, g.mac) == (sub, gw, case["mac"]),
                f"subnet/gateway/mac={(g.subnet, g.gateway, g.mac)}")
    want = (g.subnet, g.gateway, g.mac)
    lab_snap = copy.deepcopy(g.lab.__dict__)
    ok, enc = ctx.call("encode", g.to_json)
    if not ok:
        return
    if not isinstance(enc, str):
        ctx.viol("encode/type", f"to_json returned {enc!r} for a gateway with labels")
        return
    ok, g2 = ctx.call("decode", lambda: Gateway.from_json(enc))
    if ok:
        ctx.chk("roundtrip-equal/field-differs", isinstance(g2, Gateway) and g2.lab is not None and                # 1
                g2.lab.__dict__ == lab_snap and (g2.subnet, g2.gateway, g2.mac) == want,
                f"decoded={None if g2.lab is None else g2.lab.__dict__} original={lab_snap}")
        ok, enc2 = ctx.call("encode", g2.to_json)
        if ok:
            ctx.chk("reencode-identical", enc2 == enc, f"first={enc!r} second={enc2!r}")                           # 2
    if case["extras"]:                                                                                              # 4
        text, ex = _with_extras(enc, case["extras"], case["extras_first"])
        if ex:
            ctx.mark("extras")
            foreign = [k for k, vv in ex.items() if not _conforms("Gateway", vv)]
            try:
                g3, raised = Gateway.from_json(text), None
            except Exception as e:
                g3, raised = None, e
            if raised is not None:
                ctx.viol(SIG_FOREIGN if foreign else "unknown-keys/raised",
                         f"Gateway.from_json({text!r}) -> {type(raised).__name__}: {raised}")
            else:
                ctx.chk("unknown-keys/known-fields-kept", g3.lab is not None and g3.lab.__dict__ == lab_snap,
                        f"from_json({text!r}).lab={None if g3.lab is None else g3.lab.__dict__}")
    ctx.chk("input-mutated", g.lab.__dict__ == lab_snap and lab.__dict__ == snap, "gateway labels changed by codec")


# ---------------------------------------------------------------------------------------------- PathInfo / ERO

def _run_path(ctx):
    import fim.slivers.path_info as pi
    case, kind = ctx.case, ctx.kind
    cls = getattr(pi, kind)
    ptype = pi.PathRepresentationType[case["ptype"]]
    is_ero = kind == "ERO"

    def build():
        x = cls(ptype, case["strict"]) if is_ero else cls(ptype)
        if case["ptype"] == "Graph":
            x.set(case["graph"])
        else:
            p = pi.Path()
            if case["sym"] and case["a2z"] is not None:
                p.set_symmetric(copy.deepcopy(case["a2z"]))
            else:
                p.set(a2z=copy.deepcopy(case["a2z"]), z2a=copy.deepcopy(case["z2a"]))
            x.set(p)
        return x

    if case["ptype"] == "Graph":
        exp_payload = case["graph"]
        _value_flags(ctx, [case["graph"]])
    elif case["sym"] and case["a2z"] is not None:
        exp_payload = (case["a2z"], list(reversed(case["a2z"])))
        _value_flags(ctx, [case["a2z"]])
    else:
        exp_payload = (case["a2z"], case["z2a"])
        _value_flags(ctx, [case["a2z"], case["z2a"]])
    if is_ero and case["strict"] is False:
        ctx.mark("falsy-field")

    def view(o):
        pl = o.payload if isinstance(o.payload, str) or o.payload is None else (o.payload.a2z, o.payload.z2a)
        return (o.type, pl, o.strict) if is_ero else (o.type, pl)

    expected = (ptype, exp_payload, case["strict"]) if is_ero else (ptype, exp_payload)
    ok, x = ctx.call("construct", build)
    if not ok:
        return
    ctx.chk("construct/fields", view(x) == expected, f"built={view(x)}")
    ok, enc = ctx.call("encode", x.to_json)
    if not ok:
        return
    ctx.chk("input-mutated", view(x) == expected, f"after to_json: {view(x)}")
    ok, dec = ctx.call("decode", lambda: cls.from_json(enc))
    if ok:
        if dec is None:
            ctx.viol("roundtrip-equal/decoded-none", f"to_json()={enc!r} decodes to None")
        else:
            ctx.chk("roundtrip-equal/field-differs", type(dec) is cls and view(dec) == expected and                 # 1
                    (not is_ero or type(dec.strict) is bool), f"decoded={view(dec)} expected={expected}")
            ok, enc2 = ctx.call("encode", dec.to_json)
            if ok:
                ctx.chk("reencode-identical", enc2 == enc, f"first={enc!r} second={enc2!r}")                       # 2
    for absent in ("", None):                                                                                       # 3
        ok, d0 = ctx.call("absent-decodes-none", lambda: cls.from_json(absent))
        if ok:
            ctx.chk("absent-decodes-none", d0 is None, f"from_json({absent!r}) -> {d0!r}")
    if case["extras"]:                                                                                              # 4
        text, ex = _with_extras(enc, case["extras"], case["extras_first"])
        if ex:
            ctx.mark("extras")
            ok, dx = ctx.call("unknown-keys", lambda: cls.from_json(text))
            if ok:
                ctx.chk("unknown-keys/known-fields-kept", dx is not None and view(dx) == expected,
                        f"from_json({text!r}) -> {None if dx is None else view(dx)}")


# ---------------------------------------------------------------------------------------------- MaintenanceInfo

def _mk_dt(spec):
    from datetime import datetime, timedelta, timezone
    if spec is None:
        return None
    y, mo, d, h, mi, s, us, tz = spec
    return datetime(y, mo, d, h, mi, s, us, tzinfo=None if tz is None else timezone(timedelta(minutes=tz)))


def _run_maint(ctx):
    import fim.slivers.maintenance_mode as mm
    case = ctx.case
    entries = case["entries"]
    model = {}            # name -> (state name, deadline, end): later entries replace earlier ones, order of first insertion

    def build_entry(e):
        state = e["state"] if e["state_str"] else mm.MaintenanceState[e["state"]]
        dl, end = _mk_dt(e["deadline"]), _mk_dt(e["end"])
        if e["dt_str"]:
            dl, end = (None if dl is None else dl.isoformat()), (None if end is None else end.isoformat())
        return mm.MaintenanceEntry(state, deadline=dl, expected_end=end)

    def view(mi):
        return [(n, e.state.name if e.state is not None else None, e.deadline, e.expected_end,
                 None if e.deadline is None else e.deadline.utcoffset(),
                 None if e.expected_end is None else e.expected_end.utcoffset())
                for n, e in mi.list_details()]

    ok, mi = ctx.call("construct", mm.MaintenanceInfo)
    if not ok:
        return
    for e in entries:
        ok, ent = ctx.call("construct", lambda: build_entry(e))
        if not ok:
            return
        ok, _ = ctx.call("construct", lambda: mi.add(e["name"], ent))
        if not ok:
            return
        model[e["name"]] = (e["state"], _mk_dt(e["deadline"]), _mk_dt(e["end"]))
        if e["deadline"] is None or e["end"] is None:
            ctx.mark("falsy-field")
        for d in (e["deadline"], e["end"]):
            if d is not None and (d[0] in (1, 9999) or d[7] in (1439, -1439)):
                ctx.mark("boundary")
    if not entries:
        ctx.mark("falsy-field", "nothing-set")
    if len(model) > 1:
        ctx.mark("list-field")
    expected = [(n, s, dl, end, None if dl is None else dl.utcoffset(), None if end is None else end.utcoffset())
                for n, (s, dl, end) in model.items()]
    ctx.chk("construct/fields", view(mi) == expected, f"built={view(mi)}")

    # --- clause 6: before finalize
    ctx.chk("unfinalized/to_json-allowed", ctx.raises(mi.to_json), "to_json() before finalize did not raise")
    ctx.chk("unfinalized/iter-allowed", ctx.raises(lambda: list(mi.iter())), "iter() before finalize did not raise")
    # copy() is unfinalised and independent
    probe = case["probe"]
    ok, cp = ctx.call("copy", mi.copy)
    if ok:
        ok, _ = ctx.call("copy/add", lambda: cp.add(probe, mm.MaintenanceEntry(mm.MaintenanceState.Maint)))
        if ok and model:
            first = next(iter(model))
            if first != probe:
                ctx.call("copy/rem", lambda: cp.rem(first))
        ctx.chk("copy/leaks", view(mi) == expected, f"original after changing the copy: {view(mi)}")
    # finalize directly or by assignment to a sliver
    if case["via_sliver"]:
        from fim.slivers.network_node import NodeSliver
        ctx.mark("via-sliver")
        ok, _ = ctx.call("finalize", lambda: NodeSliver().set_maintenance_info(mi))
    else:
        ok, _ = ctx.call("finalize", mi.finalize)
    if not ok:
        return
    spare = mm.MaintenanceEntry(mm.MaintenanceState.Active)
    names = list(model)
    targets = ([names[0]] if names else []) + [probe]
    ctx.chk("finalized/add-allowed", ctx.raises(lambda: mi.add(probe, spare)), "add() after finalize did not raise")
    for t in targets:
        ctx.chk("finalized/add-allowed", ctx.raises(lambda: mi.add(t, spare)), "add() after finalize did not raise")
        ctx.chk("finalized/rem-allowed", ctx.raises(lambda: mi.rem(t)), f"rem({t!r}) after finalize did not raise")
        ctx.chk("finalized/pop-allowed", ctx.raises(lambda: mi.pop(t)), f"pop({t!r}) after finalize did not raise")
    ctx.chk("finalized/content-changed", view(mi) == expected, f"after rejected changes: {view(mi)}")
    ok, cp2 = ctx.call("copy", mi.copy)
    if ok:
        ctx.chk("copy/finalized", ctx.raises(cp2.to_json), "copy() of a finalized object is finalized")
        ok, _ = ctx.call("copy/add", lambda: cp2.add(probe, spare))
        ctx.chk("copy/leaks", view(mi) == expected, f"original after changing the copy: {view(mi)}")
    ok, it = ctx.call("iter", lambda: list(mi.iter()))
    if ok:
        ctx.chk("iter/content", [n for n, _ in it] == names, f"iter names={[n for n, _ in it]}")

    # --- clauses 1-3
    ok, enc = ctx.call("encode", mi.to_json)
    if not ok:
        return
    ok, dec = ctx.call("decode", lambda: mm.MaintenanceInfo.from_json(enc))
    if ok:
        if dec is None:
            ctx.viol("roundtrip-equal/decoded-none", f"to_json()={enc!r} decodes to None")
        else:
            ctx.chk("roundtrip-equal/field-differs", view(dec) == expected and                                      # 1
                    all(dec.get(n) == mi.get(n) for n in names), f"decoded={view(dec)} expected={expected}")
            ok, enc2 = ctx.call("encode", dec.to_json)     # decoded objects are finalized
            if ok:
                ctx.chk("reencode-identical", enc2 == enc, f"first={enc!r} second={enc2!r}")                       # 2
            ctx.chk("finalized/add-allowed", ctx.raises(lambda: dec.add(probe, spare)),
                    "add() on a decoded (finalized) object did not raise")
    # --- a copy taken from a record that was already encoded, changed, finalized: its own encoding decodes to IT
    ok, cp3 = ctx.call("copy", mi.copy)
    if ok:
        ok, _ = ctx.call("copy/add", lambda: cp3.add(probe, spare))
        if ok and names and names[0] != probe:
            ctx.call("copy/rem", lambda: cp3.rem(names[0]))
        ok, _ = ctx.call("finalize", cp3.finalize)
        if ok:
            want3 = view(cp3)
            ok, enc3 = ctx.call("encode", cp3.to_json)
            if ok:
                ok, dec3 = ctx.call("decode", lambda: mm.MaintenanceInfo.from_json(enc3))
                if ok:
                    ctx.chk("copy/roundtrip-equal", dec3 is not None and view(dec3) == want3,
                            f"changed copy of an encoded record: value {want3}, its text decodes to "
                            f"{None if dec3 is None else view(dec3)}")
    for absent in ("", None):                                                                                       # 3
        ok, d0 = ctx.call("absent-decodes-none", lambda: mm.MaintenanceInfo.from_json(absent))
        if ok:
            ctx.chk("absent-decodes-none", d0 is None, f"from_json({absent!r}) -> {d0!r}")
    ctx.chk("input-mutated", view(mi) == expected, f"after codec: {view(mi)}")


# ---------------------------------------------------------------------------------------------- legacy typed tuples

def _run_tuple(ctx):
    import fim.graph.typed_tuples as tt
    case, kind = ctx.case, ctx.kind
    cls = {"TLabel": tt.Label, "TCapacity": tt.Capacity, "TLocation": tt.Location,
           "TConstraint": tt.AllocationConstraint}[kind]
    typ, val, bad = case["type"], case["val"], case["bad_type"]
    sval = str(val)
    if sval == "" or sval == "0":
        ctx.mark("falsy-field")
    if ":" in sval or sval != sval.lstrip():
        ctx.mark("boundary")
    if case["via"] == "kw":
        ok, t = ctx.call("construct", lambda: cls(atype=typ, aval=val))
    else:
        ok, t = ctx.call("construct", lambda: cls(fromstring=f"{typ}:{sval}"))
    if not ok:
        return
    # the type list this check generates from is the library's (else the generator is stale -> harness error)
    assert sorted(t.lv.get_types(t.category)) == sorted(TUPLE_TYPES[kind]), "TUPLE_TYPES out of date"
    ctx.chk("construct/fields", t.get_type() == typ and str(t.get_val()) == sval, f"type={t.get_type()!r} val={t.get_val()!r}")
    ok, s = ctx.call("encode", t.get_as_string)
    if not ok:
        return
    ok, t2 = ctx.call("decode", lambda: cls(fromstring=s))                                                          # 7
    if ok:
        ctx.chk("tuple-roundtrip/field-differs", type(t2) is cls and t2.get_type() == typ and str(t2.get_val()) == sval,
                f"text={s!r} decoded type={t2.get_type()!r} val={t2.get_val()!r}")
        ok, s2 = ctx.call("encode", t2.get_as_string)
        if ok:
            ctx.chk("reencode-identical", s2 == s, f"first={s!r} second={s2!r}")
    other = TUPLE_TYPES[kind][0] if TUPLE_TYPES[kind][0] != typ else TUPLE_TYPES[kind][1]
    t3 = cls(atype=other, aval="x")
    ok, _ = ctx.call("decode/parse_from_string", lambda: t3.parse_from_string(s))
    if ok:
        ctx.chk("tuple-roundtrip/parse_from_string", t3.get_type() == typ and str(t3.get_val()) == sval and
                t3.get_as_string() == s, f"text={s!r} parsed type={t3.get_type()!r} val={t3.get_val()!r}")
    ctx.chk("input-mutated", t.get_type() == typ and str(t.get_val()) == sval, "tuple changed by get_as_string")
    # unknown types are rejected on every constructor path
    ctx.mark("bad-kw")
    ctx.chk("unknown-type-accepted/atype", ctx.raises(lambda: cls(atype=bad, aval=val)), f"{kind}(atype={bad!r}) accepted")
    ctx.chk("unknown-type-accepted/fromstring", ctx.raises(lambda: cls(fromstring=f"{bad}:{sval}")),
            f"{kind}(fromstring={bad + ':' + sval!r}) accepted")
    ctx.chk("unknown-type-accepted/parse_from_string", ctx.raises(lambda: t3.parse_from_string(f"{bad}:{sval}")),
            f"parse_from_string({bad + ':' + sval!r}) accepted")
    ctx.chk("unknown-type-accepted/parse_from_string-changed", t3.get_type() != bad,
            f"after rejected parse: type={t3.get_type()!r}")


# ---------------------------------------------------------------------------------------------- entry point

def run_case(case):
    ctx = _Ctx(case)
    kind = case["kind"]
    if kind in JSONFIELD_KINDS:
        _run_jsonfield(ctx)
    elif kind == "Tags":
        _run_tags(ctx)
    elif kind in JSONDATA_KINDS:
        _run_jsondata(ctx)
    elif kind == "Gateway":
        _run_gateway(ctx)
    elif kind in ("PathInfo", "ERO"):
        _run_path(ctx)
    elif kind == "MaintenanceInfo":
        _run_maint(ctx)
    elif kind in TUPLE_KINDS:
        _run_tuple(ctx)
    else:
        raise ValueError(f"unknown kind {kind!r}")
    return ctx.result()


PROBES = {
    "C03/Location/roundtrip-equal/zero-value-dropped":
        {"kind": "Location", "via": "ctor", "val": {"postal": "x", "lat": 0.0, "lon": -78.9}, "extras": [],
         "extras_first": False, "upd": {}, "bad": None},
    SIG_FOREIGN:
        {"kind": "Capacities", "via": "ctor", "val": {"cpu": 1}, "extras": [["x_new", "s"]], "extras_first": False,
         "upd": {}, "bad": None},
}
