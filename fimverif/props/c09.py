"""
C09 - a topology operation that fails leaves the model unchanged (DESIGN.md §C09).

case = {"flavour": ..., "prog": [op, ...]}      ops: engines/topo.py, plus fault variants generated here
Every call of the program is watched: whenever a call raises (any exception), the canonical content of the
topology's graph - and of a bystander graph in the same store - must equal what it was before the call.
"""
from hypothesis import strategies as st
from fimverif.engines import topo, store

ID = "C09"
LEVEL = "fault_enumeration"
RULE = ("Hypothesis-generated topology programs (both flavours) in which fault calls are interleaved with building "
        "calls: duplicate node/link/service/component/interface/sub-interface names, caller-supplied ids that already "
        "exist (same or other class), invalid names, an invalid raw property value as the k-th of n keyword properties "
        "(wrong type, over-long boot script, invalid address, oversized data), unknown/mismatched component model, "
        "missing mandatory arguments, services whose k-th interface is bad (already connected / not owned by a node / "
        "a ServicePort / not in the model / SharedPort on L2PTP), port-mirror onto a connected port, add_link with a "
        "missing k-th interface, sub-interfaces with duplicate/missing VLAN or a parent without local name, "
        "multi-interface facility/switch with a bad j-th port, connect twice, calls through handles of elements "
        "removed in the meantime. Oracle: after ANY raising call the "
        "model snapshot (nodes, properties, edges) and a bystander graph equal the pre-call snapshot. Non-trivial: a "
        "raising call whose rejected argument is not the first thing the call examines (k>=2, a bad property among "
        ">=2, or a compound call). Distinct by hash of the case.")
ASSUMPTIONS = ["a call that does not raise is not a fault: nothing is asserted about it here",
               "exception classes are not compared"]
BUDGET = {"quick": 1200, "thorough": 12000}
MIN_LABEL_FRACTION = {"nontrivial": 0.3, "has-raising-call": 0.8, "substrate": 0.12}


def _exclusions():
    from fimverif.runner import load_known
    keys = load_known(ID)[0]
    ex = {"rename-collide"}
    return tuple(sorted(ex)), set(keys)


EXCLUDE, KNOWN_KEYS = _exclusions()

_k = st.integers(0, 7)
_h = st.integers(0, 1)
_dupname = st.builds(lambda k: ["dup", k], _k)
_badname = st.sampled_from([["lit", "x"], ["lit", "bad name!"], ["lit", "a" * 300], ["lit", "näme"], ["lit", ""]])
_dupid = st.builds(lambda k: ["dup", k], st.integers(0, 12))

# raw invalid property values handed to the API as they are (the API must reject them before touching the model)
_bad_props = st.sampled_from([
    {"raw:boot_script": "x" * 2000}, {"raw:management_ip": "999.1.2"}, {"raw:capacities": "not-a-capacities-object"},
    {"raw:labels": {"vlan": "1"}}, {"raw:user_data": {"plain": "dict"}}, {"raw:tags": ["a b"]},
    {"raw:no_such_property": 1}, {"raw:flags": "yes"}, {"raw:location": "somewhere"},
])
_good_props = st.fixed_dictionaries({}, optional={
    "capacities": st.just({"core": 2, "ram": 8}), "labels": st.just({"local_name": "p9"}),
    "details": st.just("d"), "reservation_info": st.just({"reservation_state": "Active"})})


@st.composite
def _mixed_props(draw):
    """good properties with one bad one among them (dict order = keyword order)"""
    good = draw(_good_props)
    bad = draw(_bad_props)
    items = list(good.items())
    pos = draw(st.integers(0, len(items)))
    items.insert(pos, list(bad.items())[0])
    return dict(items)


def _fault_op(flavour):
    S = st.sampled_from
    site = S(topo.SITES)
    ops = [
        # duplicate / invalid names and ids
        st.fixed_dictionaries({"op": st.just("add_node"), "name": st.one_of(_dupname, _badname), "site": site,
                               "ntype": S(["VM", "Server", "Switch"]), "id": st.none(), "props": _good_props}),
        st.fixed_dictionaries({"op": st.just("add_node"), "name": st.just(["fresh"]), "site": site,
                               "ntype": S(["VM", "Server"]), "id": _dupid, "props": _good_props}),
        st.fixed_dictionaries({"op": st.just("add_node"), "name": st.just(["fresh"]), "site": site,
                               "ntype": S(["VM", "NAS"]), "id": st.none(), "props": _mixed_props()}),
        st.fixed_dictionaries({"op": st.just("add_node"), "name": st.just(["fresh"]), "site": st.none(),
                               "ntype": st.just("VM"), "id": st.none(), "props": st.just({})}),
        st.fixed_dictionaries({"op": st.just("add_node"), "name": st.just(["fresh"]), "site": site,
                               "ntype": st.none(), "ntype_none": st.just(True), "id": st.none(), "props": st.just({})}),
        st.fixed_dictionaries({"op": st.just("add_component"), "node": _k, "name": st.one_of(_dupname, _badname),
                               "model": st.integers(0, 12), "how": S(["model_type", "ctype_model"]), "id": st.none(),
                               "props": _good_props, "h": _h}),
        st.fixed_dictionaries({"op": st.just("add_component"), "node": _k, "name": st.just(["fresh"]),
                               "model": st.integers(0, 12), "how": S(["model_type", "ctype_model"]), "id": _dupid,
                               "props": _good_props, "h": _h}),
        st.fixed_dictionaries({"op": st.just("add_component"), "node": _k, "name": st.just(["fresh"]),
                               "model": st.integers(0, 12), "how": st.just("ctype_model"),
                               "model_lit": S(["NoSuchModel", "ConnectX-99"]), "id": st.none(), "props": st.just({}),
                               "h": _h}),
        st.fixed_dictionaries({"op": st.just("add_component"), "node": _k, "name": st.just(["fresh"]),
                               "model": st.integers(0, 12), "how": st.just("mismatch"), "id": st.none(),
                               "props": st.just({}), "h": _h}),
        st.fixed_dictionaries({"op": st.just("add_component"), "node": _k, "name": st.just(["fresh"]),
                               "model": st.integers(0, 12), "how": S(["model_type", "ctype_model"]), "id": st.none(),
                               "props": _mixed_props(), "h": _h}),
        st.fixed_dictionaries({"op": st.just("add_component"), "node": _k, "name": st.just(["fresh"]),
                               "model": S([4, 5, 6, 7, 8, 11, 12]), "how": st.just("model_type"), "id": st.none(),
                               "props": st.just({}), "h": _h, "if_ids_delta": S([-1, 1]),
                               "if_labels_delta": S([0, -1, 1])}),
        # compound calls
        st.fixed_dictionaries({"op": st.just("add_facility"), "name": st.one_of(st.just(["fresh"]), _dupname), "site": site,
                               "id": st.one_of(st.none(), st.just(["fresh"]), _dupid),
                               "ifs": st.lists(st.fixed_dictionaries(
                                   {"name": st.one_of(st.just(["fresh"]), st.just(["lit", "same-port"]), _badname),
                                    "labels": st.one_of(st.none(), st.just({"vlan": "100"})),
                                    "caps": st.one_of(st.none(), st.just({"bw": 10}))}), min_size=1, max_size=3),
                               "props": st.just({})}),
        st.fixed_dictionaries({"op": st.just("add_facility"), "name": st.just(["fresh"]), "site": site,
                               "id": st.one_of(st.none(), st.just(["fresh"])), "ifs": st.none(),
                               "props": _mixed_props()}),
        st.fixed_dictionaries({"op": st.just("add_switch"), "name": st.one_of(st.just(["fresh"]), _dupname), "site": site,
                               "id": st.one_of(st.none(), _dupid), "nports": st.integers(1, 3),
                               "portlabels": st.one_of(st.none(), st.just({"local_name": "px"}))}),
        # services
        st.fixed_dictionaries({"op": st.just("add_service"), "name": st.one_of(st.just(["fresh"]), _dupname, _badname),
                               "nstype": S(topo.TOP_SERVICE_TYPES),
                               "ifs": st.lists(st.tuples(S(["free", "free", "connected", "unowned", "serviceport"]),
                                                         _k, _h).map(list), min_size=1, max_size=4),
                               "site": st.none(), "id": st.one_of(st.none(), _dupid), "props": _good_props}),
        st.fixed_dictionaries({"op": st.just("add_service"), "name": st.just(["fresh"]), "nstype": S(["L2PTP", "L2STS"]),
                               "ifs": st.lists(st.tuples(S(["free"]), _k, _h).map(list), min_size=1, max_size=3),
                               "foreign_if": st.integers(1, 3), "site": st.none(), "id": st.none(),
                               "props": st.just({})}),
        st.fixed_dictionaries({"op": st.just("add_service"), "name": st.just(["fresh"]), "nstype": S(topo.TOP_SERVICE_TYPES),
                               "ifs": st.lists(st.tuples(S(["free"]), _k, _h).map(list), max_size=2),
                               "site": st.none(), "id": st.none(), "props": _mixed_props()}),
        st.fixed_dictionaries({"op": st.just("add_service"), "name": st.just(["fresh"]), "nstype": st.none(),
                               "ifs": st.just([]), "site": st.none(), "id": st.none(), "props": st.just({})}),
        st.fixed_dictionaries({"op": st.just("connect"), "svc": _k, "if": _k, "h": _h, "already": st.just(True)}),
        st.fixed_dictionaries({"op": st.just("add_child"), "if": _k, "name": st.one_of(st.just(["fresh"]), _dupname),
                               "vlan": S([None, "100", "100", "99999", "abc"]), "id": st.one_of(st.none(), _dupid),
                               "h": _h, "need_local_name": st.booleans()}),
        st.fixed_dictionaries({"op": st.just("node_service"), "node": _k, "name": st.one_of(_dupname, _badname),
                               "nstype": S(["MPLS", "VLAN"]), "id": st.one_of(st.none(), _dupid), "h": _h}),
        st.fixed_dictionaries({"op": st.just("ns_add_interface"), "svc": _k,
                               "name": st.one_of(_dupname, _badname, st.just(["fresh"])),
                               "itype": S(topo.IF_TYPES), "id": st.one_of(st.none(), _dupid), "h": _h,
                               "props": st.one_of(st.just({}), _mixed_props())}),
        st.fixed_dictionaries({"op": st.just("peer"), "a": _k, "b": _k, "h": _h, "props": _mixed_props()}),
        # the first step of peer() succeeds, the second is refused: a service peered with itself (the second port's
        # name equals the first's), or with any service (node-owned ones included) under good properties
        st.fixed_dictionaries({"op": st.just("peer"), "a": _k, "b": _k, "h": _h, "props": st.just({}),
                               "self": st.just(True), "any": st.booleans()}),
        st.fixed_dictionaries({"op": st.just("rename"), "kind": S(["node", "component", "service", "interface", "link"]),
                               "k": _k, "name": _badname, "h": _h, "via": S(["rename", "setter"])}),
        st.builds(lambda kind, k, h: {"op": "set_prop", "kind": kind, "k": k, "pname": "no_such_property", "val": 1,
                                      "h": h}, S(["node", "component", "service", "interface", "link"]), _k, _h),
        st.builds(lambda kind, k, h: {"op": "unset_prop", "kind": kind, "k": k, "pname": "name", "h": h},
                  S(["node", "component", "service", "interface", "link"]), _k, _h),
        st.fixed_dictionaries({"op": st.just("remove_node"), "k": st.just(0), "h": _h, "missing": st.just(True)}),
        # a call through a handle kept for an element that was removed in the meantime
        st.fixed_dictionaries({"op": st.just("stale_call"), "k": _k, "if": _k,
                               "what": S(["connect", "connect", "add_interface", "add_component", "node_service"])}),
        st.fixed_dictionaries({"op": st.just("stale_call"), "k": _k, "if": _k,
                               "what": S(["connect", "connect", "add_interface", "add_component", "node_service"])}),
    ]
    if flavour == "experiment":
        ops += [
            st.fixed_dictionaries({"op": st.just("add_mirror"), "name": st.one_of(st.just(["fresh"]), _dupname),
                                   "port": st.just("p1"), "vlan": st.none(), "dir": st.just("Both"), "to": _k,
                                   "h": _h, "to_connected": st.just(True)}),
            st.fixed_dictionaries({"op": st.just("add_storage"), "node": _k, "name": st.one_of(_dupname, _badname),
                                   "props": st.just({}), "h": _h}),
        ]
    else:
        ops += [
            st.fixed_dictionaries({"op": st.just("add_link"), "name": st.one_of(st.just(["fresh"]), _dupname),
                                   "ltype": S(topo.LINK_TYPES), "ifs": st.lists(_k, min_size=1, max_size=3),
                                   "id": st.one_of(st.just(["fresh"]), _dupid, st.just(["none"])),
                                   "ghost_at": st.one_of(st.none(), st.integers(0, 2)), "fault": st.just(True),
                                   "repeat_at": st.one_of(st.none(), st.none(), st.integers(0, 3))}),
            # an otherwise flawless link whose interface list names one interface twice (accepted on the pinned tree:
            # then it is simply a building call; if it is ever refused, it must be refused as a whole)
            st.fixed_dictionaries({"op": st.just("add_link"), "name": st.just(["fresh"]), "ltype": S(topo.LINK_TYPES),
                                   "ifs": st.lists(_k, min_size=2, max_size=3, unique=True), "id": st.just(["fresh"]),
                                   "ghost_at": st.none(), "fault": st.just(True), "repeat_at": st.integers(0, 3)}),
            st.fixed_dictionaries({"op": st.just("add_node"), "name": st.just(["fresh"]), "site": site,
                                   "ntype": st.just("Server"), "id": st.just(["none"]), "props": st.just({})}),
            st.fixed_dictionaries({"op": st.just("add_component"), "node": _k, "name": st.just(["fresh"]),
                                   "model": S([4, 5, 6, 7]), "how": st.just("model_type"), "id": st.just(["fresh"]),
                                   "props": st.just({}), "h": _h, "no_sub_ids": st.just(True)}),
        ]
    return st.one_of(ops)


@st.composite
def _case(draw, tier):
    flavour = draw(st.sampled_from(["experiment", "experiment", "substrate"]))
    build = topo.any_op(flavour, removals=True, names=topo.name_fresh_or_long, weights={"validate": 0, "serialize_load": 0, "prune": 0, "rename": 1,
                                                         "remove_service": 4, "remove_node": 3, "remove_component": 2,
                                                         "add_service": 10})
    pre = draw(topo.program(flavour, max_ops=6, min_ops=2, removals=False, names=topo.name_fresh_or_long,
                            weights={"validate": 0, "serialize_load": 0, "prune": 0}))
    n = draw(st.integers(6, 40 if tier == "thorough" else 24))
    ops = []
    for _ in range(n):
        ops.append(draw(_fault_op(flavour)) if draw(st.integers(0, 9)) < 6 else draw(build))
    return {"flavour": flavour, "prog": pre + ops}


def strategy(tier):
    return _case(tier)


def _late_fault(op):
    """the rejected argument is not the first thing the call examines"""
    k = op["op"]
    if k in ("add_facility", "add_switch", "peer", "add_mirror"):
        return True
    if k == "add_service":
        return len(op.get("ifs") or []) >= 2 or bool(op.get("foreign_if")) or any(
            p.startswith("raw:") for p in (op.get("props") or {}))
    if k == "add_link":
        return (op.get("ghost_at") or 0) >= 1 or len(op.get("ifs") or []) >= 2
    props = op.get("props") or {}
    if any(p.startswith("raw:") for p in props):
        return len(props) >= 2
    if k == "add_component":
        return "if_ids_delta" in op or op.get("how") in ("mismatch",) or "model_lit" in op
    if k in ("add_child", "stale_call"):
        return True
    return False


def run_case(case):
    it = topo.Interp(case["flavour"], exclude=case.get("exclude", EXCLUDE))
    v, labels = [], {case["flavour"]}
    nt = False
    try:
        # a bystander graph in the same store
        by = store.graph_handle(it.topo.graph_model.importer, "bystander")
        store.load_raw(by, {"nodes": [{"id": "b1", "cls": "NetworkNode", "props": {"Name": "n1", "Type": "VM"}},
                                      {"id": "b2", "cls": "Component", "props": {"Name": "c1", "Type": "GPU"}}],
                            "edges": [{"a": 0, "b": 1, "rel": "has"}]})
        by0 = store.canon(it.topo.graph_model.importer, "bystander")
        for step, op in enumerate(case["prog"]):
            before = it.snap()
            if op.get("missing"):          # removal of something that is not there
                try:
                    it.topo.remove_node(name="no-such-node")
                    r = {"skipped": False, "raised": None, "info": {}}
                except Exception as e:
                    r = {"skipped": False, "raised": e, "info": {}}
            else:
                r = it.apply(op)
            if r["skipped"] or r["raised"] is None:
                continue
            kind = op["op"]
            labels.add("has-raising-call")
            labels.add("raise-" + kind)
            late = _late_fault(op)
            if late:
                nt = True
                labels.add("late-fault-" + kind)
            after = it.snap()
            if after.canon() != before.canon():
                left = sorted({f"{after.cls(x)}" for x in set(after.nodes) - set(before.nodes)})
                lost = sorted({f"{before.cls(x)}" for x in set(before.nodes) - set(after.nodes)})
                what = ("left:" + "+".join(left)) if left else ("lost:" + "+".join(lost)) if lost else "properties-or-edges"
                v.append((f"C09/{kind}/model-changed/{what}",
                          f"step {step} {op} raised {type(r['raised']).__name__}: {str(r['raised'])[:160]} but the model "
                          f"changed: {topo.diff_snap(before, after)} | flavour={case['flavour']} "
                          f"prog={_short(case['prog'][:step + 1])}"))
                break
            if store.canon(it.topo.graph_model.importer, "bystander") != by0:
                v.append((f"C09/{kind}/bystander-graph-changed", f"step {step} {op}"))
                break
    finally:
        it.close()
    if nt:
        labels.add("nontrivial")
    for k in it.excluded:
        labels.add("excluded-known:" + k)
    return {"v": v, "nt": nt, "labels": sorted(labels)}


def _short(x):
    import json
    s = json.dumps(x, default=str)
    return s if len(s) < 2500 else "..." + s[-2500:]
