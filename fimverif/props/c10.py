"""
C10 - slice validation accepts a topology exactly when the constraint tables allow it (DESIGN.md §C10).

case (service slice):
  {"kind": "svc", "services": [{"type": T, "ifs": [[kind, site index], ...], "declared": None|"match"|"other",
                                "props": [constrained property names present]}, ...]}
case (node):
  {"kind": "node", "ntype": T, "site": "RENC"|"" , "components": bool, "image": bool, "mgmt": bool}
The slice is built through the public API (add_node / add_component / add_facility / add_child_interface /
add_network_service / add_port_mirror_service / property setters); validate()'s accept/reject outcome is compared with
an independent predicate over a PINNED copy of the constraint tables kept below (a difference between the pinned copy
and the live tables is itself reported).
"""
import itertools
from hypothesis import strategies as st
from fimverif.engines import topo

ID = "C10"
RULE = ("Exhaustive product over 15 service types x interface multisets of size 0..4 over {DedicatedPort, SharedPort, "
        "FacilityPort, SubInterface} (+ TrunkPort of a node-level service for types that restrict interface kinds) x site placements (one/two/three sites) x declared site (none/matching/different) x "
        "constrained properties (quick: none and each one alone; thorough: all 32 subsets of mirror_port, mirror_vlan, "
        "mirror_direction, controller_url, ero), built through the public API; plus all node types x "
        "{site empty, components, image, management ip}; plus Hypothesis-generated slices with 2-3 services. Oracle: "
        "independent predicate over a pinned copy of ServiceConstraints / NodeConstraints; validate() must raise iff "
        "the predicate rejects; after success a single-site service carries the inferred site. Non-trivial: the slice "
        "is on a boundary (count = min-1, min, max, max+1; sites = limit, limit+1; one constrained property present; "
        "declared site differs) . Distinct by hash of the case.")
ASSUMPTIONS = ["for service types with num_sites = NO_LIMIT the library does not trace sites: no site clause there",
               "re-siting history: a site recorded by an earlier validation counts as the service's declared site "
               "afterwards (read back from the model), also for the implicit services of the moved node",
               "num_instances is NO_LIMIT for every type (the clause exists in the predicate but is unreachable)",
               "implicit component / facility services of the built slice always satisfy their own constraints"]
BUDGET = {"quick": 300, "thorough": 3000}
ENUM_EXHAUSTIVE = True
ENUM_EXHAUSTIVE = False     # only the thorough tier enumerates the whole product
EXHAUSTIVE_NOTE = ("thorough enumerates the full product incl. all 32 property subsets; quick enumerates the boundary "
                   "subset: property dimension {none, each single property} varied one-at-a-time with the declared "
                   "site, mixed interface kinds up to 3 interfaces")
NO_LIMIT = 0

PINNED_SERVICE = {
    'P4': {'layer': 'L2', 'min': 1, 'max': 0, 'sites': 1, 'inst': 0, 'req': [],
           'forb': ['mirror_port', 'mirror_vlan', 'mirror_direction'], 'rit': []},
    'OVS': {'layer': 'L2', 'min': 1, 'max': 0, 'sites': 1, 'inst': 0, 'req': [],
            'forb': ['mirror_port', 'mirror_vlan', 'mirror_direction'], 'rit': []},
    'VLAN': {'layer': 'L2', 'min': 1, 'max': 0, 'sites': 1, 'inst': 0, 'req': [],
             'forb': ['mirror_port', 'mirror_vlan', 'mirror_direction', 'controller_url'], 'rit': []},
    'MPLS': {'layer': 'L2', 'min': 1, 'max': 0, 'sites': 1, 'inst': 0, 'req': [],
             'forb': ['mirror_port', 'mirror_vlan', 'mirror_direction', 'controller_url'], 'rit': []},
    'L2Path': {'layer': 'L2', 'min': 1, 'max': 2, 'sites': 2, 'inst': 0, 'req': [],
               'forb': ['mirror_port', 'mirror_vlan', 'mirror_direction', 'controller_url'], 'rit': []},
    'L2STS': {'layer': 'L2', 'min': 2, 'max': 0, 'sites': 2, 'inst': 0, 'req': [],
              'forb': ['mirror_port', 'mirror_vlan', 'mirror_direction', 'controller_url', 'ero'], 'rit': []},
    'L2PTP': {'layer': 'L2', 'min': 2, 'max': 2, 'sites': 2, 'inst': 0, 'req': [],
              'forb': ['mirror_port', 'mirror_vlan', 'mirror_direction', 'controller_url'],
              'rit': ['DedicatedPort', 'FacilityPort', 'SubInterface']},
    'L2Multisite': {'layer': 'L2', 'min': 1, 'max': 0, 'sites': 0, 'inst': 0, 'req': [],
                    'forb': ['mirror_port', 'mirror_vlan', 'mirror_direction', 'controller_url'], 'rit': []},
    'L2Bridge': {'layer': 'L2', 'min': 1, 'max': 0, 'sites': 1, 'inst': 0, 'req': [],
                 'forb': ['mirror_port', 'mirror_vlan', 'mirror_direction', 'controller_url'], 'rit': []},
    'FABNetv4': {'layer': 'L3', 'min': 1, 'max': 0, 'sites': 1, 'inst': 0, 'req': [],
                 'forb': ['mirror_port', 'mirror_vlan', 'mirror_direction', 'controller_url'], 'rit': []},
    'FABNetv6': {'layer': 'L3', 'min': 1, 'max': 0, 'sites': 1, 'inst': 0, 'req': [],
                 'forb': ['mirror_port', 'mirror_vlan', 'mirror_direction', 'controller_url'], 'rit': []},
    'PortMirror': {'layer': 'L2', 'min': 1, 'max': 1, 'sites': 1, 'inst': 0,
                   'req': ['mirror_port', 'mirror_direction', 'site'], 'forb': ['controller_url'], 'rit': []},
    'L3VPN': {'layer': 'L3', 'min': 1, 'max': 0, 'sites': 0, 'inst': 0, 'req': [],
              'forb': ['mirror_port', 'mirror_vlan', 'mirror_direction', 'controller_url'], 'rit': []},
    'FABNetv4Ext': {'layer': 'L3', 'min': 1, 'max': 0, 'sites': 1, 'inst': 0, 'req': [],
                    'forb': ['mirror_port', 'mirror_vlan', 'mirror_direction', 'controller_url'], 'rit': []},
    'FABNetv6Ext': {'layer': 'L3', 'min': 1, 'max': 0, 'sites': 1, 'inst': 0, 'req': [],
                    'forb': ['mirror_port', 'mirror_vlan', 'mirror_direction', 'controller_url'], 'rit': []},
}
PINNED_NODE = {
    'Container': {'forb': [], 'req': ['site']},
    'Facility': {'forb': ['attached_components_info', 'image_type', 'image_ref', 'management_ip'], 'req': []},
    'NAS': {'forb': ['attached_components_info', 'image_type', 'image_ref'], 'req': []},
    'Server': {'forb': [], 'req': ['site']},
    'Switch': {'forb': ['attached_components_info', 'image_type', 'image_ref'], 'req': []},
    'VM': {'forb': [], 'req': ['site']},
}
KINDS = ["DedicatedPort", "SharedPort", "FacilityPort", "SubInterface", "TrunkPort"]
PROPS = ["mirror_port", "mirror_vlan", "mirror_direction", "controller_url", "ero"]
SITES = ["RENC", "UKY", "LBNL"]


def table_diff():
    """pinned copy vs the live tables"""
    from fim.slivers.network_service import NetworkServiceSliver as N
    from fim.slivers.network_node import NodeSliver
    out = []
    live = {k.name: {"layer": v.layer.name, "min": v.min_interfaces, "max": v.num_interfaces, "sites": v.num_sites,
                     "inst": v.num_instances, "req": list(v.required_properties), "forb": list(v.forbidden_properties),
                     "rit": [x.name for x in v.required_interface_types]} for k, v in N.ServiceConstraints.items()}
    for t in sorted(set(live) | set(PINNED_SERVICE)):
        a, b = live.get(t), PINNED_SERVICE.get(t)
        if a is None or b is None:
            out.append((f"service/{t}/presence", f"live={a is not None} pinned={b is not None}"))
            continue
        for f in b:
            x, y = a[f], b[f]
            if (sorted(x) if isinstance(x, list) else x) != (sorted(y) if isinstance(y, list) else y):
                out.append((f"service/{t}/{f}", f"live {a[f]!r} != pinned {b[f]!r}"))
    liven = {k.name: {"req": list(v.required_properties), "forb": list(v.forbidden_properties)}
             for k, v in NodeSliver.NodeConstraints.items()}
    for t in sorted(set(liven) | set(PINNED_NODE)):
        a, b = liven.get(t), PINNED_NODE.get(t)
        if a is None or b is None or sorted(a["req"]) != sorted(b["req"]) or sorted(a["forb"]) != sorted(b["forb"]):
            out.append((f"node/{t}", f"live {a!r} != pinned {b!r}"))
    return out


# ------------------------------------------------------------------ enumeration
def _placements(n):
    if n <= 1:
        return [[0] * n]
    out = [[0] * n, [0] + [1] * (n - 1)]
    if n >= 3:
        out.append([0, 1] + [2] * (n - 2))
    return out


def _prop_sets(tier):
    if tier == "thorough":
        return [list(c) for r in range(len(PROPS) + 1) for c in itertools.combinations(PROPS, r)]
    return [[]] + [[p] for p in PROPS]


def enumerate_cases(tier):
    for ntype in ["VM", "Server", "Container", "Switch", "NAS", "Facility"]:
        for site in ("RENC", ""):
            for comp in (False, True):
                for image in (False, True):
                    for mgmt in (False, True):
                        if ntype == "Facility" and (comp or site == ""):
                            continue
                        yield {"kind": "node", "ntype": ntype, "site": site, "components": comp, "image": image,
                               "mgmt": mgmt}
    yield from _rehome_cases()
    yield from _twin_cases()
    yield from _owned_cases()
    yield from _resite_cases()
    yield from _empty_ero_cases()
    for t in PINNED_SERVICE:
        for n in range(0, 5):
            if t == "PortMirror" and n != 1:
                continue    # the port-mirror API takes exactly one interface
            kind_range = range(5) if (PINNED_SERVICE[t]["rit"] or tier == "thorough") else range(4)
            for kinds in itertools.combinations_with_replacement(kind_range, n):
                if tier == "quick" and n == 4 and len(set(kinds)) > 1:
                    continue        # quick: mixed interface kinds only up to 3 interfaces
                for pl in _placements(n):
                    for declared in (None, "match", "other"):
                        for props in _prop_sets(tier):
                            if tier == "quick" and props and declared is not None:
                                continue    # quick varies one of (declared site, property) at a time
                            if tier == "quick" and declared == "match" and len(set(kinds)) > 1:
                                continue
                            yield {"kind": "svc", "services": [{"type": t, "ifs": [[KINDS[k], s] for k, s in zip(kinds, pl)],
                                                                "declared": declared, "props": props}]}
                            # the same slice with its last interface(s) connected AFTER the service was created
                            if t != "PortMirror" and n >= 1 and not props and declared is None and \
                                    (t == "L2PTP" or len(set(kinds)) > 1 or n == 1):
                                for late in range(1, min(n, 2) + 1):
                                    yield {"kind": "svc", "services": [{"type": t, "late": late, "declared": None,
                                                                        "ifs": [[KINDS[k], s] for k, s in zip(kinds, pl)],
                                                                        "props": []}]}


def _rehome_cases():
    """the service is first attached to interfaces in ANOTHER site, completely disconnected, then attached to the
    interfaces described: the verdict must be the one of the final topology (a declared site stays declared)"""
    for t in PINNED_SERVICE:
        if t == "PortMirror":
            continue
        for n in (1, 2):
            for declared in ("match", "other", None):
                yield {"kind": "svc", "services": [{"type": t, "ifs": [["DedicatedPort", 0]] * n, "declared": declared,
                                                    "props": [], "rehome": True}]}


def _owned_cases():
    """services created under a node (Node.add_network_service) with interfaces of other nodes connected: the sites
    spanned are those of the connected interfaces, wherever the owning node is"""
    for t in PINNED_SERVICE:
        if t == "PortMirror":
            continue
        for n in (1, 2, 3):
            for pl in _placements(n):
                for owner in (0, 1, 2):
                    for declared in (None, "match"):
                        yield {"kind": "svc", "services": [{"type": t, "ifs": [["DedicatedPort", s] for s in pl],
                                                            "declared": declared, "props": [], "owner": owner}]}


def _resite_cases():
    """validate - move a connected node to another site - validate again"""
    for t in PINNED_SERVICE:
        if t == "PortMirror":
            continue
        for n in (1, 2, 3):
            for pl in _placements(n):
                for declared in (None, "match"):
                    for r in range(n):
                        yield {"kind": "svc", "resite": r, "services": [
                            {"type": t, "ifs": [["DedicatedPort", s] for s in pl], "declared": declared, "props": []}]}


def _empty_ero_cases():
    """the forbidden / allowed property 'ero' present as a route object WITHOUT hops"""
    for t in PINNED_SERVICE:
        if t == "PortMirror":
            continue
        for n in (1, 2):
            yield {"kind": "svc", "services": [{"type": t, "ifs": [["DedicatedPort", 0]] * n, "declared": None,
                                                "props": ["ero"], "ero_empty": True}]}


def _twin_cases():
    """interfaces that end up with the SAME library-generated service-port name ('<node>-<interface>'): sub-interfaces
    of one name on different ports of one node. Counting must go by interface, not by name."""
    for t in PINNED_SERVICE:
        if t == "PortMirror":
            continue
        for n in (2, 3):
            for extra in ([], [["DedicatedPort", 0]], [["DedicatedPort", 1]]):
                yield {"kind": "svc", "services": [{"type": t, "ifs": [["SubInterface", 0]] * n + extra,
                                                    "declared": None, "props": [], "twins": True}]}


@st.composite
def _multi(draw):
    svcs = []
    for _ in range(draw(st.integers(2, 3))):
        t = draw(st.sampled_from([x for x in PINNED_SERVICE if x != "PortMirror"] + ["PortMirror"]))
        n = 1 if t == "PortMirror" else draw(st.integers(0, 4))
        svcs.append({"type": t, "late": 0 if t == "PortMirror" else draw(st.sampled_from([0, 0, 1, 2])),
                     "rehome": t != "PortMirror" and draw(st.integers(0, 3)) == 0,
                     "twins": draw(st.integers(0, 3)) == 0,
                     "ero_empty": draw(st.booleans()),
                     "owner": None if t == "PortMirror" else draw(st.sampled_from([None, None, None, 0, 1, 2])),
                     "ifs": [[draw(st.sampled_from(KINDS)), draw(st.integers(0, 2))] for _ in range(n)],
                     "declared": draw(st.sampled_from([None, None, "match", "other"])),
                     "props": draw(st.lists(st.sampled_from(PROPS), unique=True, max_size=2))})
    return {"kind": "svc", "services": svcs}


def strategy(tier):
    return _multi()


# ------------------------------------------------------------------ predicate
def predict_service(svc, guardrail_refused):
    """returns (accept: bool, reason, inferred single site or None)"""
    c = PINNED_SERVICE[svc["type"]]
    ifs = svc["ifs"]
    n = len(ifs)
    if c["min"] != NO_LIMIT and n < c["min"]:
        return False, "min-interfaces", None
    if c["max"] != NO_LIMIT and n > c["max"]:
        return False, "max-interfaces", None
    sites = set()
    if c["sites"] != NO_LIMIT:
        sites = {SITES[s] for _, s in ifs}
        if len(sites) > c["sites"]:
            return False, "max-sites", None
    declared = None
    if "declared_site" in svc:           # (a second validation: what the service carries now, declared or recorded)
        declared = svc["declared_site"]
    elif svc["declared"] == "match" and ifs:
        declared = SITES[ifs[0][1]]
    elif svc["declared"] == "other" or (svc["declared"] == "match" and not ifs):
        declared = "OTHERSITE"
    inferred = None
    if len(sites) == 1:
        inferred = next(iter(sites))
        if declared and declared != inferred:
            return False, "declared-site-mismatch", None
    elif len(sites) > 1 and declared:
        return False, "declared-site-on-multi-site", None
    have = set(svc["props"])
    if svc["type"] == "PortMirror":
        have |= {"mirror_port", "mirror_direction"}
        have -= {p[1:] for p in svc["props"] if p.startswith("-")}
    site_val = declared or inferred
    for rp in c["req"]:
        if rp == "site":
            if not site_val:
                return False, "required-site", None
        elif rp not in have:
            return False, f"required-{rp}", None
    for fp in c["forb"]:
        if fp in have:
            return False, f"forbidden-{fp}", None
    if c["rit"]:
        for k, _ in ifs:
            if k not in c["rit"]:
                return False, "interface-type", None
    return True, "ok", inferred


def run_case(case):
    if case["kind"] == "node":
        return run_node(case)
    from fim.slivers.network_service import ServiceType, MirrorDirection
    from fim.slivers.interface_info import InterfaceType
    from fim.slivers.component_catalog import ComponentModelType
    from fim.slivers.capacities_labels import Labels
    from fim.slivers.path_info import ERO, Path
    from fim.user.model_element import TopologyException
    v = []
    for clause, msg in table_diff():
        v.append((f"C10/table-changed/{clause}", msg))
    it = topo.Interp("experiment")
    labels = set()
    nt = False
    try:
        t = it.topo
        n_nodes = [0]

        twin_home = {}
        owner_node_of = {}          # serial number of mk_interface call -> the node made for that interface

        def mk_interface(kind, site_idx, twins=None):
            n_nodes[0] += 1
            k = n_nodes[0]
            site = SITES[site_idx]
            if twins is not None and kind == "SubInterface":
                # sub-interfaces of one name on the ports of one two-port card (a second card on the same node when
                # the ports run out): their service ports get one and the same library-generated name
                home = twin_home.setdefault((twins, site_idx), {"node": None, "ports": []})
                if home["node"] is None:
                    home["node"] = t.add_node(name=f"n{k}", site=site)
                if not home["ports"]:
                    c = home["node"].add_component(name=f"nic{k}", model_type=ComponentModelType.SmartNIC_ConnectX_6)
                    home["ports"] = list(c.interface_list)
                labels.add("same-named-service-ports")
                return home["ports"].pop(0).add_child_interface(name="twin", labels=Labels(vlan=str(100 + k)))
            if kind == "FacilityPort":
                f = t.add_facility(name=f"fac{k}", site=site)
                return f.interface_list[0]
            node = t.add_node(name=f"n{k}", site=site)
            owner_node_of[k] = node
            if kind == "TrunkPort":
                # a port of a node-level service (as switches have), not one of the kinds L2PTP permits
                ns = node.add_network_service(name=f"nsvc{k}", nstype=ServiceType.OVS)
                return ns.add_interface(name=f"tp{k}", itype=InterfaceType.TrunkPort)
            if kind == "SharedPort":
                c = node.add_component(name=f"nic{k}", model_type=ComponentModelType.SharedNIC_ConnectX_6)
                return c.interface_list[0]
            c = node.add_component(name=f"nic{k}", model_type=ComponentModelType.SmartNIC_ConnectX_6)
            port = c.interface_list[0]
            if kind == "DedicatedPort":
                return port
            return port.add_child_interface(name=f"sub{k}", labels=Labels(vlan=str(100 + k)))

        expectations = []
        partial = False
        for si, svc in enumerate(case["services"]):
            c = PINNED_SERVICE[svc["type"]]
            ifs = [mk_interface(k, s, twins=si if svc.get("twins") else None) for k, s in svc["ifs"]]
            declared = None
            if svc["declared"] == "match" and svc["ifs"]:
                declared = SITES[svc["ifs"][0][1]]
            elif svc["declared"] is not None:
                declared = "OTHERSITE"
            kw = {}
            for p in svc["props"]:
                if p == "mirror_port":
                    kw[p] = "p1"
                elif p == "mirror_vlan":
                    kw[p] = "100"
                elif p == "mirror_direction":
                    kw[p] = MirrorDirection.Both
                elif p == "controller_url":
                    kw[p] = "http://controller.example/x"
                elif p == "ero":
                    path = Path()
                    # (an explicit route object with no hops in it is still the property being set)
                    path.set_symmetric([] if svc.get("ero_empty") else ["a", "b"])
                    e = ERO()
                    e.set(payload=path)
                    kw[p] = e
            own = None
            if svc.get("owner") is not None and svc["type"] != "PortMirror":
                own = t.add_node(name=f"own{si}", site=SITES[svc["owner"] % len(SITES)])
            before = it.snap()
            guard = svc["type"] == "L2PTP" and any(k == "SharedPort" for k, _ in svc["ifs"])
            late = min(int(svc.get("late") or 0), len(ifs))
            pre_ifs = []
            if svc.get("rehome") and ifs and not guard:
                # first home: as many dedicated ports in a site none of the final interfaces uses (if there is one)
                used = {s_ for _, s_ in svc["ifs"]}
                other_site = next((i for i in range(3) if i not in used), (svc["ifs"][0][1] + 1) % 3)
                pre_ifs = [mk_interface("DedicatedPort", other_site) for _ in range(min(2, len(ifs)))]
                late = len(ifs)
                labels.add("rehomed")
            late_ifs = ifs[len(ifs) - late:] if late else []
            ifs = pre_ifs if pre_ifs else (ifs[:len(ifs) - late] if late else ifs)
            refused_late = False
            try:
                if svc["type"] == "PortMirror":
                    extra = {k: v_ for k, v_ in kw.items() if k not in ("mirror_port", "mirror_direction", "mirror_vlan")}
                    s = t.add_port_mirror_service(name=f"svc{si}", from_interface_name="p1", to_interface=ifs[0],
                                                  from_interface_vlan=kw.get("mirror_vlan"), **extra)
                    if declared:
                        s.set_property("site", declared)
                elif own is not None:
                    # a service owned by a node of its own (at site 'owner'); the interfaces of OTHER nodes are
                    # connected to it - the sites that count are those of the connected interfaces
                    s = own.add_network_service(name=f"svc{si}", nstype=ServiceType[svc["type"]], interfaces=ifs,
                                                site=declared, **kw)
                    labels.add("node-owned-service")
                else:
                    s = t.add_network_service(name=f"svc{si}", nstype=ServiceType[svc["type"]], interfaces=ifs,
                                              site=declared, **kw)
                if svc["type"] != "PortMirror":
                    for pi_ in pre_ifs:
                        s.disconnect_interface(pi_)
                    for li in late_ifs:
                        mid = it.snap()
                        try:
                            s.connect_interface(li)
                        except TopologyException:
                            # clause 3 at connect time: refusal must be at once and leave the model unchanged
                            if not (guard and li.type.name == "SharedPort"):
                                raise
                            if it.snap().canon() != mid.canon():
                                v.append(("C10/L2PTP/guardrail/model-changed", f"refused connect_interface left "
                                                                               f"changes | {svc}"))
                            labels.add("guardrail-at-connect")
                            refused_late = True
                            break
                        else:
                            if svc["type"] == "L2PTP" and li.type.name == "SharedPort":
                                v.append(("C10/L2PTP/guardrail/shared-port-accepted-by-connect_interface",
                                          f"connect_interface attached a SharedPort to an L2PTP service | {svc}"))
                    if late_ifs:
                        labels.add("late-connect")
                created = True
            except Exception as e:
                created = False
                if not guard or not isinstance(e, TopologyException):
                    v.append((f"C10/{svc['type']}/create/raised", f"building the service raised {type(e).__name__}: {e} "
                                                                  f"| {svc}"))
                elif it.snap().canon() != before.canon():
                    v.append((f"C10/{svc['type']}/guardrail/model-changed", f"refused connection left changes | {svc}"))
            if guard and created and not refused_late:
                v.append(("C10/L2PTP/guardrail/shared-port-accepted", f"L2PTP service accepted a SharedPort | {svc}"))
            if guard:
                labels.add("guardrail")
                nt = True
                if refused_late:
                    partial = True      # the service exists with fewer interfaces than described: nothing to predict
                continue
            if not created:
                continue
            expectations.append((svc, s) + predict_service(svc, False))
            # non-triviality: boundary cases
            n = len(svc["ifs"])
            nsites = len({x for _, x in svc["ifs"]})
            if n in {c["min"] - 1, c["min"], c["max"], c["max"] + 1} or (c["sites"] and nsites in (c["sites"], c["sites"] + 1)) \
                    or len(svc["props"]) == 1 or svc["declared"] == "other":
                nt = True
        if v or partial:
            if nt:
                labels.add("nontrivial")
            return {"v": v, "nt": nt, "labels": sorted(labels)}
        exp_accept = all(e[2] for e in expectations)
        try:
            t.validate()
            raised = None
        except Exception as e:
            raised = e
        single = len(expectations) == 1
        tname = expectations[0][0]["type"] if single else "multi"
        if raised is None and not exp_accept:
            reasons = sorted({e[3] for e in expectations if not e[2]})
            for r in reasons:
                v.append((f"C10/validate/accepted-but-table-rejects/{r}" + (f"/{tname}" if r.startswith("required") or
                                                                          r.startswith("forbidden") else ""),
                          f"validate() accepted, predicate rejects ({r}) | {case['services']}"))
        elif raised is not None and exp_accept:
            v.append((f"C10/validate/rejected-but-table-allows/{tname}",
                      f"validate() raised {type(raised).__name__}: {raised} | {case['services']}"))
        elif raised is None:
            for svc, s, ok, reason, inferred in expectations:
                if inferred is not None:
                    got = s.site
                    if got != inferred:
                        v.append((f"C10/validate/site-not-recorded/{svc['type']}",
                                  f"after successful validation service.site={got!r}, inferred {inferred!r} | {svc}"))
        labels.add("accept" if exp_accept else "reject")
        for e in expectations:
            labels.add("reason-" + e[3])
            labels.add("type-" + e[0]["type"])
        # ---- history: validate, move one of the connected nodes to another site, validate again. The second verdict
        #      is the one of the topology as it is THEN (the service carries whatever site it declared or the first
        #      validation recorded - read back from the model, not predicted)
        svc0 = case["services"][0]
        if single and not v and case.get("resite") is not None and svc0["type"] != "PortMirror" and \
                not svc0.get("twins") and not svc0.get("late") and not svc0.get("rehome") and svc0["ifs"]:
            r = case["resite"] % len(svc0["ifs"])
            node = owner_node_of.get(r + 1)      # single service, no extra interfaces: call number = position + 1
            if node is not None and svc0["ifs"][r][0] != "FacilityPort":
                new_site = (svc0["ifs"][r][1] + 1 + case["resite"] // 7) % len(SITES)
                if new_site == svc0["ifs"][r][1]:
                    new_site = (new_site + 1) % len(SITES)
                node.site = SITES[new_site]
                svc2 = dict(svc0, ifs=[list(x) for x in svc0["ifs"]])
                svc2["ifs"][r][1] = new_site
                carried = expectations[0][1].site
                svc2["declared_site"] = carried if carried else None
                ok2, reason2, inferred2 = predict_service(svc2, False)
                # the moved node's own (component / node level) services are single-site services too: one that carries
                # a site recorded by the first validation now disagrees with the site of its ports
                implicit = [s_ for comp in node.components.values() for s_ in comp.network_services.values()] + \
                    list(node.network_services.values())
                if any(s_.site and s_.site != SITES[new_site] for s_ in implicit):
                    ok2, reason2 = False, "declared-site-mismatch"
                try:
                    t.validate()
                    raised2 = None
                except Exception as e:
                    raised2 = e
                labels.add("revalidated-after-resiting")
                if raised2 is None and not ok2:
                    v.append((f"C10/revalidate/accepted-but-table-rejects/{reason2}",
                              f"after moving interface {r}'s node to {SITES[new_site]} validate() accepted, predicate "
                              f"rejects ({reason2}); service carried site {carried!r} | {svc0}"))
                elif raised2 is not None and ok2:
                    v.append((f"C10/revalidate/rejected-but-table-allows/{svc0['type']}",
                              f"after moving interface {r}'s node to {SITES[new_site]} validate() raised "
                              f"{type(raised2).__name__}: {raised2}; service carried site {carried!r} | {svc0}"))
        if not single:
            labels.add("multi-service")
    finally:
        it.close()
    if nt:
        labels.add("nontrivial")
    return {"v": v, "nt": nt, "labels": sorted(labels)}


def run_node(case):
    from fim.slivers.network_node import NodeType
    from fim.slivers.component_catalog import ComponentModelType
    v = []
    it = topo.Interp("experiment")
    try:
        t = it.topo
        nt_ = case["ntype"]
        if nt_ == "Facility":
            n = t.add_facility(name="fac1", site=case["site"])
        else:
            n = t.add_node(name="node1", site=case["site"], ntype=NodeType[nt_])
        if case["components"]:
            n.add_component(name="gpu1", model_type=ComponentModelType.GPU_Tesla_T4)
        if case["image"]:
            n.set_properties(image_ref="default_ubuntu", image_type="qcow2")
        if case["mgmt"]:
            n.set_property("management_ip", "10.1.2.3")
        c = PINNED_NODE[nt_]
        have = {"site": bool(case["site"]), "attached_components_info": case["components"],
                "image_type": case["image"], "image_ref": case["image"], "management_ip": case["mgmt"]}
        reason = None
        for rp in c["req"]:
            if not have.get(rp):
                reason = f"required-{rp}"
        for fp in c["forb"]:
            if have.get(fp) and reason is None:
                reason = f"forbidden-{fp}"
        try:
            t.validate()
            raised = None
        except Exception as e:
            raised = e
        if raised is None and reason is not None:
            v.append((f"C10/validate/node/accepted-but-table-rejects/{nt_}/{reason}",
                      f"validate() accepted a {nt_} node although the table says {reason} | {case}"))
        if raised is not None and reason is None:
            v.append((f"C10/validate/node/rejected-but-table-allows/{nt_}",
                      f"validate() raised {type(raised).__name__}: {raised} | {case}"))
    finally:
        it.close()
    return {"v": v, "nt": True, "labels": ["node", "node-" + case["ntype"], "nontrivial",
                                         "accept" if reason is None else "reject"]}
