"""
C08 - removal and disconnection delete exactly the owned structure and nothing else (DESIGN.md §C08).

case = {"flavour": ..., "prog": [building ops]}
The program builds a topology; then EVERY applicable removal / disconnect / unpeer / prune operation in the final
state is tried, each on its own copy of that state (copy = serialize + load into a fresh topology), and the
post-state is compared with a prediction computed from the pre-state by an ownership traversal written in the
harness (engines/topo.py Snap.owned), not by fim.
"""
from hypothesis import strategies as st
from fimverif.engines import topo

ID = "C08"
RULE = ("Hypothesis-generated building programs (8-30 calls, both flavours, connected and unconnected elements, "
        "sub-interfaces, peered services, substrate links with 2-3 ends); in the final state every applicable removal "
        "operation (remove node/component/storage/facility/switch/link/service/node-level service/interface/"
        "sub-interface, disconnect, unpeer, prune per state; up to 2 targets per kind) is executed on its own copy "
        "and compared with the predicted post-state: nodes = pre - (owned + peering artefacts), survivors keep "
        "identical properties, edges among survivors unchanged, operation handles agree with fresh handles. "
        "Non-trivial: some removed element owns >=1 connected interface. Distinct by hash of the case.")
ASSUMPTIONS = ["ownership and artefact rules are my reading of the statement (DESIGN.md §C08): a 2-ended link dies with "
               "either end, a link keeping >=2 ends stays; a ServicePort dies with its peering link",
               "state copies are made by replaying the program (uuid4 is a counter, so ids repeat exactly)",
               "remove_link is only applied to links created by add_link"]
BUDGET = {"quick": 220, "thorough": 2500}
MIN_LABEL_FRACTION = {"nontrivial": 0.3, "substrate": 0.12}
MAX_PER_KIND = 2


def _exclusions():
    from fimverif.runner import load_known
    keys = load_known(ID)[0]
    ex = {"rename-collide"}      # C07's subject; C08 programs never rename onto an existing name
    if any("/left-behind/ServicePort.peer-was-sub-interface" in k or "/left-behind/ServicePort.peer-was-service" in k
           for k in keys):
        ex.add("dangling-sp")
    return tuple(sorted(ex))


EXCLUDE = _exclusions()


@st.composite
def _case(draw, tier):
    flavour = draw(st.sampled_from(["experiment", "experiment", "substrate"]))
    w = {"connect": 10, "add_child": 7, "peer": 4, "add_service": 10, "validate": 0, "serialize_load": 0, "prune": 0,
         "unset_prop": 0, "rename": 1}
    prog = draw(topo.program(flavour, max_ops=22, removals=False, weights=w, min_ops=8))
    if draw(st.integers(0, 7)) == 0:
        # structured prefix: a facility that carries a SECOND service whose port has the name of the facility's own
        # port, both ports connected to one service (names are unique per service only: anything keyed by port name
        # on the node sees one port where there are two)
        prog = [{"op": "add_facility", "name": ["fresh"], "site": "RENC", "id": None, "ifs": None, "props": {}},
                {"op": "node_service", "node": 0, "name": ["fresh"], "nstype": "VLAN", "id": None, "props": {}, "h": 1},
                {"op": "ns_add_interface", "svc": 1, "name": ["lit", "fac1-int"], "id": None, "itype": "TrunkPort",
                 "props": {}, "h": 1},
                {"op": "add_service", "name": ["fresh"], "nstype": "L2STS", "ifs": [["free", 0, 1], ["free", 0, 1]],
                 "site": None, "id": None, "props": {}}] + prog[:16]
    return {"flavour": flavour, "prog": prog}


def strategy(tier):
    return _case(tier)


# ------------------------------------------------------------------ prediction
def predict_deleted(s, roots):
    """deletion set for removing the elements 'roots' (with everything they own) from snapshot s"""
    D = set()
    for r in roots:
        D |= s.owned(r)
    changed = True
    while changed:
        changed = False
        for cp in [x for x in D if s.cls(x) == "ConnectionPoint"]:
            for l in s.links_of_cp(cp):
                if l in D:
                    continue
                ends = s.ends_of_link(l)
                if len([e for e in ends if e not in D]) < 2:      # would be left with fewer than two ends
                    D.add(l)
                    changed = True
                    for e in ends:
                        # the service-side port is an artefact of the peering: it goes with the link
                        if e not in D and s.typ(e) == "ServicePort":
                            D.add(e)
                            changed = True
    return D


def candidates(it, s):
    """[(op dict, roots, kind of prediction)] for every applicable removal in state s"""
    out = []

    def upto(n):
        return range(min(n, MAX_PER_KIND))
    nodes = [x for x in s.ids("NetworkNode") if s.typ(x) != "Facility"]
    for k in upto(len(nodes)):
        out.append(({"op": "remove_node", "k": k, "h": 1}, [nodes[k]]))
    comps = s.ids("Component")
    for k in upto(len(comps)):
        out.append(({"op": "remove_component", "k": k, "h": k % 2, "as_storage": True}, [comps[k]]))
    facs = s.ids("NetworkNode", "Facility")
    for k in upto(len(facs)):
        out.append(({"op": "remove_facility", "k": k}, [facs[k]]))
    sws = s.ids("NetworkNode", "Switch")
    for k in upto(len(sws)):
        out.append(({"op": "remove_switch", "k": k}, [sws[k]]))
    tops = s.top_services()
    for k in upto(len(tops)):
        out.append(({"op": "remove_service", "k": k}, [tops[k]]))
    nls = [x for x in s.owned_services() if s.cls(s.owner_of_service(x)[0]) == "NetworkNode"]
    for k in upto(len(nls)):
        out.append(({"op": "remove_node_service", "k": k, "h": k % 2}, [nls[k]]))
    links = sorted(x for x in it.made_links if x in s.nodes)
    for k in upto(len(links)):
        out.append(({"op": "remove_link", "k": k}, [links[k]]))
    if it.flavour == "substrate":
        pool = sorted((svc, cp) for svc in s.owned_services() for cp in s.cps_of_service(svc))
        for k in upto(len(pool)):
            out.append(({"op": "remove_interface", "k": k, "h": k % 2}, [pool[k][1]]))
    pool = sorted((c, ch) for c in s.node_side_cps() for ch in s.children_cp(c))
    for k in upto(len(pool)):
        out.append(({"op": "remove_child", "k": k, "h": k % 2}, [pool[k][1]]))
        # the same through the port's stored handle after the sub-interface was renamed through another handle
        out.append(({"op": "remove_child", "k": k, "h": 0, "rename_first": True}, [pool[k][1]]))
    dis = []
    for svc in s.top_services():
        for sp in s.cps_of_service(svc):
            if s.typ(sp) == "ServicePort":
                for p in s.peers_of_cp(sp):
                    if s.typ(p) != "ServicePort":
                        dis.append((svc, p, sp))
    dis.sort()
    for k in upto(len(dis)):
        # through the handle returned when the service was created (possibly stale) and through a fresh one
        out.append(({"op": "disconnect", "k": k, "h": 0}, [dis[k][2]]))
        out.append(({"op": "disconnect", "k": k, "h": 1}, [dis[k][2]]))
    peering = it.peering(s)
    for k in upto(len(peering)):
        a, b = peering[k]
        sps = [sp for sp in s.cps_of_service(a) if s.typ(sp) == "ServicePort"
               and any(s.typ(p) == "ServicePort" and b in s.service_of_cp(p) for p in s.peers_of_cp(sp))]
        out.append(({"op": "unpeer", "k": k, "h": k % 2}, sps[:1]))
    if it.flavour == "experiment":
        for state in topo.RES_STATES:
            roots = []
            marker = f'"reservation_state": "{state}"'
            nonfac = [n for n in s.ids("NetworkNode") if s.typ(n) != "Facility"]
            scope = set(nonfac)
            for n in nonfac:
                scope |= set(s.components_of(n))
            scope |= set(s.ids("NetworkService"))
            for sv in s.ids("NetworkService"):
                # prune walks topology.network_services, which lists every service of the model - also those of
                # facilities (whose nodes it does not visit)
                scope |= set(s.cps_of_service(sv))
            for x in scope:
                if marker in str(s.nodes[x].get("ReservationInfo", "")):
                    roots.append(x)
            if roots:
                out.append(({"op": "prune", "state": state}, sorted(roots)))
    return out


def run_case(case):
    from fim.graph.abc_property_graph import GraphFormat
    v, labels = [], {case["flavour"]}
    nt = False
    it = topo.Interp(case["flavour"], exclude=case.get("exclude", EXCLUDE))
    try:
        for op in case["prog"]:
            it.apply(op)
        s0 = it.snap()
        if not s0.nodes:
            return {"v": [], "nt": False, "labels": sorted(labels | {"empty"})}
        text = it.topo.serialize(fmt=GraphFormat.JSON_NODELINK)
        made = set(it.made_links)
        cands = candidates(it, s0)
        excluded = dict(it.excluded)
    finally:
        it.close()

    for op, roots in cands:
        kind = op["op"]
        it2 = topo.Interp(case["flavour"], exclude=case.get("exclude", EXCLUDE))
        try:
            # the copy is made by REPLAYING the program (deterministic ids), not by serialize+load, so that the
            # handles stored by the building calls - possibly stale by now - take part in the removal
            for bop in case["prog"]:
                it2.apply(bop)
            pre = it2.snap()
            if pre.canon() != s0.canon():
                raise RuntimeError("harness: state copy differs from the original state")
            D = predict_deleted(pre, roots)
            # clause 4 is about what the operation does to the handle it is performed through: a stored handle that
            # was already out of date before the call (the element was changed through another handle) is not judged
            stale_before = set()
            for nid, hh in it2.handles.items():
                if nid in pre.nodes and pre.cls(nid) in ("NetworkService", "ConnectionPoint"):
                    try:
                        have = sorted(i.node_id for i in hh.interface_list)
                    except Exception:
                        continue
                    want0 = sorted(pre.cps_of_service(nid)) if pre.cls(nid) == "NetworkService" else \
                        sorted(pre.children_cp(nid))
                    if have != want0:
                        stale_before.add(nid)
            r = it2.apply(op)
            for k, n in it2.excluded.items():
                excluded[k] = excluded.get(k, 0) + n
            if r["skipped"]:
                continue
            labels.add("op-" + kind)
            connected_owned = any(pre.cls(x) == "ConnectionPoint" and pre.typ(x) != "ServicePort" and
                                  any(pre.typ(p) == "ServicePort" for p in pre.peers_of_cp(x)) for x in D)
            if connected_owned or kind in ("disconnect", "unpeer"):
                nt = True
                labels.add("removed-connected:" + kind)

            def bad(clause, msg):
                v.append((f"C08/{kind}/{clause}", f"{op} roots={[(x, pre.cls(x), pre.name(x)) for x in roots]}: {msg} "
                                                  f"| flavour={case['flavour']} prog={c07_short(case['prog'])}"))
            if r["raised"] is not None:
                bad("raised", f"{type(r['raised']).__name__}: {r['raised']}")
                continue
            post = it2.snap()
            exp_nodes = set(pre.nodes) - D
            got_nodes = set(post.nodes)
            seen = set()
            for x in sorted(got_nodes - exp_nodes):
                what = pre.typ(x) if pre.cls(x) == "ConnectionPoint" else pre.cls(x) if x in pre.nodes else "new-node"
                if what == "ServicePort":
                    what = sp_kind(pre, x)
                if what not in seen:
                    seen.add(what)
                    bad(f"post-state/left-behind/{what}", f"{x} [{pre.cls(x) if x in pre.nodes else '?'}"
                                                          f"/{pre.typ(x) if x in pre.nodes else '?'} "
                                                          f"{pre.name(x) if x in pre.nodes else post.name(x)!r}] survives "
                                                          f"but belongs to the removed structure")
            seen = set()
            for x in sorted(exp_nodes - got_nodes):
                what = pre.typ(x) if pre.cls(x) == "ConnectionPoint" else pre.cls(x)
                if what not in seen:
                    seen.add(what)
                    bad(f"post-state/over-deleted/{what}", f"{x} [{pre.cls(x)}/{pre.typ(x)} {pre.name(x)!r}] was deleted "
                                                           f"but does not belong to the removed structure")
            cp, cq = pre.canon(), post.canon()
            for x in sorted(exp_nodes & got_nodes):
                if cp["nodes"][x] != cq["nodes"][x]:
                    ks = sorted(k for k in set(cp["nodes"][x]) | set(cq["nodes"][x])
                                if cp["nodes"][x].get(k) != cq["nodes"][x].get(k))
                    bad("survivor-properties", f"surviving element {x} [{pre.cls(x)} {pre.name(x)!r}] changed {ks}")
                    break
            surv = exp_nodes & got_nodes
            pe = {k: d for k, d in cp["edges"].items() if all(e in surv for e in k.split("\x00"))}
            qe = {k: d for k, d in cq["edges"].items() if all(e in surv for e in k.split("\x00"))}
            if pe != qe:
                lost = sorted(set(pe) - set(qe))
                new = sorted(set(qe) - set(pe))
                bad("edges", f"connections between surviving elements changed: lost={[k.split(chr(0)) for k in lost][:3]} "
                             f"new={[k.split(chr(0)) for k in new][:3]}")
            # clause 4: the handle(s) through which the operation was performed agree with a fresh lookup
            for h in [r["info"].get("handle")] + list(r["info"].get("handles") or []):
                if h is None or h.node_id not in post.nodes:
                    continue
                if h.node_id in stale_before and h is it2.handles.get(h.node_id):
                    labels.add("handle-stale-before-call")
                    continue
                got = sorted(i.node_id for i in h.interface_list)
                if post.cls(h.node_id) == "NetworkService":
                    want = sorted(post.cps_of_service(h.node_id))
                else:
                    want = sorted(post.children_cp(h.node_id))
                if got != want:
                    bad("handle-stale", f"the handle used for the operation lists interfaces {got}, a fresh lookup {want}")
        finally:
            it2.close()
    if nt:
        labels.add("nontrivial")
    for k in excluded:
        labels.add("excluded-known:" + k)
    labels.add(f"removals-tried")
    return {"v": dedupe(v), "nt": nt, "labels": sorted(labels)}


def sp_kind(pre, sp):
    """what a ServicePort was peered with before the operation (narrows the signature to the root cause)"""
    peers = pre.peers_of_cp(sp)
    if any(pre.is_sub(p) for p in peers):
        return "ServicePort.peer-was-sub-interface"
    if any(pre.typ(p) == "ServicePort" for p in peers):
        return "ServicePort.peer-was-service"
    return "ServicePort.peer-was-interface"


def dedupe(v):
    seen, out = set(), []
    for sig, msg in v:
        if sig not in seen:
            seen.add(sig)
            out.append((sig, msg))
    return out


def c07_short(x):
    import json
    s = json.dumps(x, default=str)
    return s if len(s) < 2000 else s[:2000] + "..."
