"""
C16 - label, tag, name and data validation holds on every construction path (DESIGN.md §3 C16, App. D).

A case is one candidate value for one validated format plus the description of how it is presented:

  {"kind": "label",    "field": f, "value": x, "form": "scalar"|"list", "others": [...], "pos": j,
                       "prior": member|None, "elem": node|component|interface|service|link, "via": ...,
                       "nm": generator's near-miss class, "base": member at edit distance 1 | None}
  {"kind": "tags",     "value": x, "others": [...], "pos": j, "elem", "via", "nm", "base"}
  {"kind": "name",     "cls": sliver class, "value": x, "via": add|rename|assign, "nm", "base"}
  {"kind": "boot",     "value": x | None, "ch": c, "len": n, "via"}
  {"kind": "jsondata", "cls": MeasurementData|UserData|LayoutData, "form": "text"|"object",
                       "pre": s, "ch": c, "pad": n, "post": s   (text = pre + ch*pad + post)
                       "obj": o, "pad": n                        (object = o with a pad string added), "via"}
  {"kind": "capacity", "field": f, "value": v, "prior": int|None, "via"}

Oracle (clause numbers of DESIGN.md §C16): the hand-written recognisers of engines/labelgrammar.py give
MEMBER / NON-MEMBER / UNSPECIFIED; then, for every entry point the kind has,
  1. NON-MEMBER => the entry point raises and nothing is stored (previous object / graph property kept),
  2. MEMBER     => the entry point accepts and the stored value equals the input,
  3. accepted   => from_json(to_json(x)) is accepted and equal,
  4. all entry points agree with each other on the value (also for UNSPECIFIED).
"""
import json

from hypothesis import strategies as st

from fimverif.engines import labelgrammar as G
from fimverif.engines.labelgrammar import MEMBER, NON_MEMBER, UNSPEC

ID = "C16"
RULE = ("Hypothesis-generated candidate values from the Appendix-D grammars: per validated format a member generator "
        "(boundaries boosted) and near-miss generators (one edit: insert/delete/replace with junk incl. newline, "
        "blank, non-ASCII digit; trailing newline/blank/text; boundary numbers; wrong group counts and separators; "
        "non-strings), in scalar form and as the j-th element of a list of members. Every case is pushed through "
        "all value-level entry points of its kind (constructor, update, from_json text, sliver setters) and one "
        "model-element entry point on a fresh ExperimentTopology (update_*, property assignment, set_property/-ies, "
        "add_* keyword, rename, reading back a directly written graph property). Verdict by a hand-written "
        "character-level recogniser. Non-trivial: a NON-MEMBER at edit distance 1 from a MEMBER, a MEMBER on a "
        "documented boundary, or a size within 1 of a size limit. Distinct by hash of the case.")
ASSUMPTIONS = [
    "the documented domain of a field is its published pattern/range/size text read as 'the whole value has this "
    "shape' (Labels.VALIDATORS/LAMBDA_VALIDATORS, Tags.TAG_PATTERN, NAME_REGEX, MAX_SIZE, BOOST_SCRIPT_SIZE)",
    "UNSPECIFIED (only the differential clause applies): non-ASCII where the pattern has \\d, \\w or '.', IPv6 forms "
    "without any hex digit, numa with leading zeros, empty lists, non-strings in lists of pattern-less fields, "
    "bool/None capacities, boot script of exactly 1024 chars, JSON NaN/Infinity/deep nesting/non-ASCII text, "
    "object sizes that depend on the JSON separators",
    "element names used by the harness itself are chosen different from the candidate (uniqueness rules are C07)",
    "component names are exercised with a GPU component (a NIC derives service/interface names from it)",
]
BUDGET = {"quick": 50000, "thorough": 500000}
MIN_LABEL_FRACTION = {
    "cls:MEMBER": 0.25, "cls:NON-MEMBER": 0.35, "nt": 0.25,
    # (boot-script and capacity cases live in small finite spaces; Hypothesis does not repeat examples)
    "kind:label": 0.35, "kind:tags": 0.05, "kind:name": 0.08, "kind:boot": 0.004, "kind:jsondata": 0.03,
    "kind:capacity": 0.01, "form:list": 0.12, "nm:trailing-newline": 0.05, "nm:member": 0.2,
    "near-miss-edit1": 0.15, "member-boundary": 0.06,
}

JSON_CLASSES = {"MeasurementData": ("mf_data", "MeasurementData", 4096),
                "UserData": ("user_data", "UserData", 2048),
                "LayoutData": ("layout_data", "LayoutData", 1024)}
CAP_FIELDS = ['cpu', 'core', 'ram', 'disk', 'bw', 'burst_size', 'unit', 'mtu']
LABEL_VIAS = ["update_labels", "assign", "set_property", "set_properties", "graph-read", "add-kwarg"]


# ------------------------------------------------------------------------------------------------
# strategies
# ------------------------------------------------------------------------------------------------
_elem = st.sampled_from(["node"] * 14 + ["component"] * 3 + ["service"] * 2 + ["interface"])


@st.composite
def _label_case(draw):
    field = draw(st.sampled_from(G.VALIDATED_FIELDS * 4 + G.FREE_FIELDS))
    c = draw(G.candidate(field))
    form = draw(st.sampled_from(["scalar", "scalar", "list"]))
    others, pos = [], 0
    if form == "list":
        others = draw(st.lists(G.member(field), min_size=0, max_size=3))
        pos = draw(st.integers(0, len(others)))
    prior = draw(G.member(field)) if draw(st.integers(0, 3)) == 0 else None
    return {"kind": "label", "field": field, "value": c["value"], "form": form, "others": others, "pos": pos,
            "prior": prior, "elem": draw(_elem), "via": draw(st.sampled_from(LABEL_VIAS)),
            "nm": c["nm"], "base": c["base"]}


@st.composite
def _tags_case(draw):
    c = draw(G.candidate('tag', 35))
    others = draw(st.lists(G.member('tag'), min_size=0, max_size=3))
    return {"kind": "tags", "value": c["value"], "others": others, "pos": draw(st.integers(0, len(others))),
            "elem": draw(_elem), "via": draw(st.sampled_from(["assign", "set_property", "add-kwarg", "graph-read"])),
            "nm": c["nm"], "base": c["base"]}


@st.composite
def _name_case(draw):
    cls = draw(st.sampled_from(G.SLIVER_CLASSES[:3] * 6 + [G.SLIVER_CLASSES[3]] * 2 + [G.SLIVER_CLASSES[4]]))
    c = draw(G.candidate('name:' + cls, 35))
    return {"kind": "name", "cls": cls, "value": c["value"], "via": draw(st.sampled_from(["add", "rename", "assign"])),
            "topo": draw(st.integers(0, 9)) < (1 if cls == 'NetworkLinkSliver' else 3 if cls == 'InterfaceSliver' else 10),
            "nm": c["nm"], "base": c["base"]}


@st.composite
def _boot_case(draw):
    if draw(st.integers(0, 9)) == 0:
        return {"kind": "boot", "value": draw(st.sampled_from([0, 3, 1.5, True, {}, ["a"], {"a": 1}])), "ch": "x",
                "len": 0, "via": draw(st.sampled_from(["assign", "add-kwarg", "set_property"]))}
    n = draw(st.one_of(st.sampled_from([1, 2, 1022, 1023, 1024, 1025, 1026, 2048]), st.integers(1, 1100),
                       st.integers(1000, 5000)))
    return {"kind": "boot", "value": None, "ch": draw(st.sampled_from(["x", "#", "\n", " ", "é", "a"])), "len": n,
            "via": draw(st.sampled_from(["assign", "set_property", "add-kwarg", "graph-read"]))}


_json_small = st.recursive(
    st.one_of(st.none(), st.booleans(), st.integers(-10 ** 6, 10 ** 6), st.text(G.WORD + " -./:", max_size=6)),
    lambda ch: st.one_of(st.lists(ch, max_size=3), st.dictionaries(st.text(G.WORD, max_size=4), ch, max_size=3)),
    max_leaves=6)

_TEXT_TEMPLATES = [          # (pre, post, mutation class)
    ('{"k": "', '"}', "none"), ('["', '"]', "none"), ('"', '"', "none"), ('{"k": ["', '", 1, null, true]}', "none"),
    (' {"k": "', '"} ', "ws"), ('{"k": "', '"}\n', "trailing-newline"), ('\n\t{"k":"', '"}\r\n', "ws"),
    ('{"k": "', '"', "unclosed"), ('{"k": "', '}', "unclosed"), ('{"k": "', '",}', "trailing-comma"),
    ("{'k': '", "'}", "single-quote"), ('{k: "', '"}', "bare-key"), ('{"k": "', '"} x', "extra-data"),
    ('{"k": "', '"}{}', "extra-data"), ('{"k": "', '"},', "extra-data"), ('["', '",]', "trailing-comma"),
    ('["', '"', "unclosed"), ('', '', "bare-word"), ('{"k": "\\x', '"}', "bad-escape"), ('{"k": "\t', '"}', "ctrl"),
    ('{"k": 01, "p": "', '"}', "leading-zero"), ('{"k": .5, "p": "', '"}', "bad-number"),
    ('{"k": NaN, "p": "', '"}', "nan"), ('[-Infinity, "', '"]', "nan"), ('{"k": "é', '"}', "non-ascii"),
    ('{"k" "', '"}', "missing-colon"), ('{"k": "', '" "j": 1}', "missing-comma"), ('[1 2, "', '"]', "missing-comma"),
    ('\ufeff{"k": "', '"}', "bom"), ('{"k": "\\u12', '"}', "bad-escape"), ('{"k": tru, "p": "', '"}', "bad-literal"),
]


@st.composite
def _json_case(draw):
    cls = draw(st.sampled_from(sorted(JSON_CLASSES)))
    limit = JSON_CLASSES[cls][2]
    via = draw(st.sampled_from(["assign", "assign-instance", "add-kwarg", "graph-read", "set_property"]))
    target = draw(st.one_of(st.sampled_from([limit - 2, limit - 1, limit, limit + 1, limit + 2, 2 * limit]),
                            st.integers(0, 64), st.integers(limit - 20, limit + 20)))
    if draw(st.integers(0, 2)) == 0:
        obj = draw(st.one_of(st.just({}), st.just([]), st.lists(_json_small, max_size=3),
                             st.dictionaries(st.text(G.WORD, max_size=4), _json_small, max_size=3)))
        base_len = len(json.dumps(_pad_object(obj, 0)))
        return {"kind": "jsondata", "cls": cls, "form": "object", "obj": obj, "pad": max(0, target - base_len),
                "via": via}
    if draw(st.integers(0, 5)) == 0:      # free-form small text over a JSON-ish alphabet
        pre = draw(st.text(alphabet='{}[]",: \n0123456789.-+eEtruefalsn\\abu', max_size=12))
        return {"kind": "jsondata", "cls": cls, "form": "text", "pre": pre, "ch": "a", "pad": 0, "post": "",
                "mut": "free", "via": via}
    pre, post, mut = draw(st.sampled_from(_TEXT_TEMPLATES[:4] * 5 + _TEXT_TEMPLATES[4:]))
    return {"kind": "jsondata", "cls": cls, "form": "text", "pre": pre, "ch": draw(st.sampled_from(["a", "a", "0", " "])),
            "pad": max(0, target - len(pre) - len(post)), "post": post, "mut": mut, "via": via}


@st.composite
def _cap_case(draw):
    v = draw(st.one_of(
        st.sampled_from([0, 1, 2, 2 ** 31, 2 ** 62, 2 ** 70]), st.integers(0, 64),
        st.sampled_from([-1, -2, -2 ** 31, -2 ** 70]), st.integers(-64, -1),
        st.sampled_from([1.5, 1.0, 0.0, -0.5, 1e300, "3", "", "x", [1], {}, {"a": 1}, True, False, None])))
    return {"kind": "capacity", "field": draw(st.sampled_from(CAP_FIELDS)), "value": v,
            "prior": draw(st.one_of(st.none(), st.integers(0, 9))),
            "elem": draw(_elem), "via": draw(st.sampled_from(["update_capacities", "assign", "set_properties",
                                                              "add-kwarg", "graph-read"]))}


def strategy(tier):
    # (the less frequent kinds come first: Hypothesis favours early alternatives a little)
    return st.one_of(_boot_case(), _boot_case(), _cap_case(), _cap_case(), _cap_case(), _json_case(), _json_case(),
                     _json_case(), _tags_case(), _tags_case(),
                     _name_case(), _name_case(), _name_case(), _name_case(),
                     _label_case(), _label_case(), _label_case(), _label_case(), _label_case(), _label_case(),
                     _label_case(), _label_case(), _label_case(), _label_case(), _label_case(), _label_case())


# ------------------------------------------------------------------------------------------------
# harness helpers
# ------------------------------------------------------------------------------------------------
def _try(fn):
    """(True, result) if the library call returned, (False, exception) if the library raised.
    Raising is an outcome the property talks about, so any Exception of the library is data here."""
    try:
        return True, fn()
    except Exception as e:       # noqa: the verdict decides whether raising was right
        return False, e


def _pad_object(obj, n):
    if isinstance(obj, dict):
        o = dict(obj)
        o["pad"] = "a" * n
        return o
    return list(obj) + ["a" * n]


def _insert(others, pos, x):
    pos = pos % (len(others) + 1)
    return list(others[:pos]) + [x] + list(others[pos:])


def _helper_name(stem, taken):
    """a name for a harness-made element that differs from the candidate value"""
    return stem if stem != taken else stem + "x"


def _reset():
    from fim.graph.networkx_property_graph import NetworkXGraphStorage
    NetworkXGraphStorage.storage_instance = None
    try:
        from fim.graph.networkx_property_graph_disjoint import NetworkXGraphStorageDisjoint
        NetworkXGraphStorageDisjoint.storage_instance = None
    except ImportError:
        pass


def _build(elem, avoid=None):
    """fresh ExperimentTopology with the smallest structure that contains an element of the asked type"""
    from fim.user.topology import ExperimentTopology
    from fim.user import ComponentModelType, ServiceType, LinkType
    t = ExperimentTopology()
    n = t.add_node(name=_helper_name("hnode", avoid), site="SITE")
    if elem == "node":
        return t, n
    if elem == "component":
        return t, n.add_component(name=_helper_name("hgpu", avoid), model_type=ComponentModelType.GPU_RTX6000)
    if elem == "service":
        return t, t.add_network_service(name=_helper_name("hsvc", avoid), nstype=ServiceType.L2Bridge, interfaces=[])
    if elem == "interface":
        nic = n.add_component(name=_helper_name("hnic", avoid), model_type=ComponentModelType.SharedNIC_ConnectX_6)
        return t, nic.interface_list[0]
    if elem == "link":
        nic = n.add_component(name=_helper_name("hnic", avoid), model_type=ComponentModelType.SmartNIC_ConnectX_6)
        il = nic.interface_list
        return t, t.add_link(name=_helper_name("hlink", avoid), ltype=LinkType.Patch, interfaces=[il[0], il[1]])
    raise ValueError(elem)


def _props(t, elem):
    return dict(t.graph_model.get_node_properties(node_id=elem.node_id)[1])


def _node_count(t):
    from fimverif.engines import store as _store
    g = _store.observe_storage(t.graph_model.storage, t.graph_model.graph_id)
    return 0 if g is None else len(g.nodes)


class _Ctx:
    """collects entry-point outcomes and applies clauses 1, 2, 4"""

    def __init__(self, verdict, group, known_sig=None):
        self.verdict, self.group, self.known_sig = verdict, group, known_sig
        self.v = []
        self.outcomes = {}

    def add(self, sig, msg):
        self.v.append((sig, msg))

    def entry(self, name, accepted, info, stored_ok=None, unchanged_ok=None, differential=True):
        """name: entry point; accepted: bool; stored_ok: stored value == input (when accepted);
        unchanged_ok: previous state kept (when rejected)"""
        if differential:
            self.outcomes[name] = accepted
        if accepted:
            if self.verdict == NON_MEMBER:       # clause 1
                self.add(self.known_sig or f"C16/{self.group}/nonmember-accepted/{name}",
                         f"value outside the documented domain accepted by {name}: {info}")
            if stored_ok is False and self.verdict == MEMBER:         # clause 2 (second half)
                self.add(f"C16/{self.group}/stored-differs/{name}", f"accepted by {name} but stored value differs: {info}")
        else:
            if self.verdict == MEMBER:           # clause 2
                self.add(f"C16/{self.group}/member-rejected/{name}", f"documented value rejected by {name}: {info}")
            if unchanged_ok is False:            # clause 1 (second half)
                self.add(f"C16/{self.group}/rejected-but-stored/{name}",
                         f"{name} raised but the previous state was not kept: {info}")

    def differential(self, info):
        if len(set(self.outcomes.values())) > 1:     # clause 4
            acc = sorted(k for k, a in self.outcomes.items() if a)
            rej = sorted(k for k, a in self.outcomes.items() if not a)
            self.add(f"C16/{self.group}/entry-points-disagree",
                     f"accepted by {acc} but rejected by {rej}: {info}")


def _exc(res):
    return f"{type(res).__name__}" if isinstance(res, Exception) else "accepted"


# ------------------------------------------------------------------------------------------------
# kind: label
# ------------------------------------------------------------------------------------------------
def _run_label(case):
    from fim.slivers.capacities_labels import Labels
    field, x = case["field"], case["value"]
    arg = x if case["form"] == "scalar" else _insert(case["others"], case["pos"], x)
    verdict = G.classify_label(field, arg)
    # signature discriminator: only data-free classes of the offending value(s)
    known = None
    if verdict == NON_MEMBER and field in G.VALIDATED_FIELDS:
        bad = [e for e in (arg if isinstance(arg, list) else [arg]) if G.classify_str(field, e) == NON_MEMBER]
        classes = sorted({G.miss_class(field, e) for e in bad})
        if classes == ["trailing-newline"]:
            known = "C16/Labels/nonmember-accepted/trailing-newline"
        elif classes == ["int-lenient"]:
            known = "C16/Labels.numa/nonmember-accepted/int-lenient"
    ctx = _Ctx(verdict, f"Labels.{field}", known)
    info = f"field={field} value={arg!r} verdict={verdict}"
    prior = case.get("prior")
    if prior is not None and G.classify_label(field, prior) != MEMBER:
        prior = None
    keep = "instance" if field != "instance" else "device_name"     # an unrelated field that must survive

    # entry: constructor
    ok, res = _try(lambda: Labels(**{field: arg}))
    ctx.entry("ctor", ok, f"{info} -> {_exc(res)}", stored_ok=ok and getattr(res, field) == arg)
    accepted_obj = res if ok else None
    if ok and isinstance(arg, list) and verdict == MEMBER:
        # the list handed in stays the caller's: changing it afterwards must not change what was stored (validated)
        mine = list(arg)
        ok2, res2 = _try(lambda: Labels(**{field: mine}))
        if ok2:
            mine.append("not a member \n of any label format")
            if getattr(res2, field) != arg:
                ctx.add(f"C16/Labels/nonmember-stored/through-the-callers-list",
                        f"{info}: after the caller changed its own list the stored value is {getattr(res2, field)!r}")
    # entry: constructor together with another (valid) field given first
    ok, res = _try(lambda: Labels(**{keep: "keep", field: arg}))
    ctx.entry("ctor-2fields", ok, f"{info} -> {_exc(res)}",
              stored_ok=ok and getattr(res, field) == arg and getattr(res, keep) == "keep")
    # entry: Labels.update (copy with changes) on a base that may already hold a member for the field
    base = Labels(**{keep: "keep"})
    if prior is not None:
        base = Labels(**{keep: "keep", field: prior})
    before = dict(base.__dict__)
    ok, res = _try(lambda: Labels.update(base, **{field: arg}))
    kept = dict(base.__dict__) == before
    ctx.entry("update", ok, f"{info} prior={prior!r} -> {_exc(res)}",
              stored_ok=ok and getattr(res, field) == arg and getattr(res, keep) == "keep" and kept,
              unchanged_ok=kept)
    # entry: from_json text
    text = json.dumps({field: arg})
    ok, res = _try(lambda: Labels.from_json(text))
    ctx.entry("from_json", ok, f"{info} -> {_exc(res)}", stored_ok=ok and res is not None and getattr(res, field) == arg)
    # clause 3: what was accepted can be encoded and decoded again
    if accepted_obj is not None:
        ok, res = _try(lambda: Labels.from_json(accepted_obj.to_json()))
        if not ok:
            ctx.add(f"C16/Labels.{field}/roundtrip-rejected", f"{info}: from_json(to_json(x)) raised {_exc(res)}")
        elif res is None or getattr(res, field) != arg:
            ctx.add(f"C16/Labels.{field}/roundtrip-differs", f"{info}: from_json(to_json(x)) gives "
                                                              f"{None if res is None else getattr(res, field)!r}")
    # entry: model element
    _element_entry(ctx, case, info, prop="labels", graph_prop="Labels",
                   make=lambda: Labels(**{field: arg}), graph_text=text,
                   prior_make=(lambda: Labels(**{keep: "keep", field: prior})) if prior is not None
                   else (lambda: Labels(**{keep: "keep"})),
                   updater=lambda e: e.update_labels(**{field: arg}),
                   read=lambda e: e.labels,
                   check=lambda got, via: got is not None and getattr(got, field) == arg and
                   (via != "update_labels" or getattr(got, keep) == "keep"))
    ctx.differential(info)
    return ctx, verdict, field


def _element_entry(ctx, case, info, prop, graph_prop, make, graph_text, prior_make, updater, read, check):
    """one model-element entry point, chosen by case['via'], on a fresh minimal topology.
    make(): builds the value object (may raise = rejection by the constructor on this path)."""
    elem_kind, via = case.get("elem", "node"), case["via"]
    if via in ("add-kwarg", "graph-read") and elem_kind not in ("node", "component"):
        elem_kind = "node"
    t, e = _build("node" if via == "add-kwarg" else elem_kind)
    name = f"{via}@{elem_kind}"
    if via == "add-kwarg":
        from fim.user import ComponentModelType
        n_before = _node_count(t)
        if elem_kind == "node":
            ok, res = _try(lambda: t.add_node(name="hnode2", site="SITE", **{prop: make()}))
        else:
            parent = e
            ok, res = _try(lambda: parent.add_component(name="hgpu2", model_type=ComponentModelType.GPU_RTX6000,
                                                        **{prop: make()}))
        got_ok = None
        if ok:
            r_ok, got = _try(lambda: read(res))
            got_ok = r_ok and check(got, via)
        ctx.entry(name, ok, f"{info} -> {_exc(res)}", stored_ok=got_ok, unchanged_ok=_node_count(t) == n_before)
        return
    if prior_make is not None:
        e.set_property(prop, prior_make())
    before = _props(t, e)
    if via == "graph-read":
        # the text is put into the graph property directly (as a loaded GraphML would), then decoded by the getter
        t.graph_model.update_node_property(node_id=e.node_id, prop_name=graph_prop, prop_val=graph_text)
        ok, res = _try(lambda: read(e))
        ctx.entry(name, ok, f"{info} -> {_exc(res)}", stored_ok=ok and check(res, via))
        return
    if via in ("update_labels", "update_capacities"):
        ok, res = _try(lambda: updater(e))
    elif via == "assign":
        ok, res = _try(lambda: setattr(e, prop, make()))
    elif via == "set_property":
        ok, res = _try(lambda: e.set_property(prop, make()))
    elif via == "set_properties":
        ok, res = _try(lambda: e.set_properties(**{prop: make()}))
    else:
        raise ValueError(f"unknown via {via}")
    after = _props(t, e)
    got_ok = None
    if ok:
        r_ok, got = _try(lambda: read(e))
        got_ok = r_ok and check(got, via)
    ctx.entry(name, ok, f"{info} -> {_exc(res)}", stored_ok=got_ok, unchanged_ok=after == before)


# ------------------------------------------------------------------------------------------------
# kind: tags
# ------------------------------------------------------------------------------------------------
def _run_tags(case):
    from fim.slivers.tags import Tags
    x = case["value"]
    lst = _insert(case["others"], case["pos"], x)
    verdict = G.classify_tags(lst)
    known = None
    if verdict == NON_MEMBER:
        classes = sorted({G.miss_class('tag', e) for e in lst if G.classify_str('tag', e) == NON_MEMBER})
        if classes == ["trailing-newline"]:
            known = "C16/Tags/nonmember-accepted/trailing-newline"
    ctx = _Ctx(verdict, "Tags", known)
    info = f"tags={lst!r} verdict={verdict}"
    ok, res = _try(lambda: Tags(*lst))
    ctx.entry("ctor-varargs", ok, f"{info} -> {_exc(res)}", stored_ok=ok and res.tags == lst and list(res) == lst)
    ok, res = _try(lambda: Tags(list(lst)))
    ctx.entry("ctor-list", ok, f"{info} -> {_exc(res)}", stored_ok=ok and res.tags == lst)
    accepted_obj = res if ok else None
    if verdict == MEMBER:
        # the list handed to the constructor stays the caller's: changing it afterwards must not change (let alone
        # invalidate) what was stored
        mine = list(lst)
        ok2, res2 = _try(lambda: Tags(mine))
        if ok2:
            mine.append("not a valid tag!")
            if mine:
                mine[0] = "also not valid!"
            if list(res2.tags) != lst or list(res2) != lst:
                ctx.add("C16/Tags/nonmember-stored/through-the-callers-list",
                        f"{info}: after the caller changed its own list the stored tags are {list(res2.tags)!r}")
    ok, res = _try(lambda: Tags(tuple(lst)))
    ctx.entry("ctor-tuple", ok, f"{info} -> {_exc(res)}", stored_ok=ok and res.tags == lst)
    ok, res = _try(lambda: Tags("first-ok", list(lst)))
    ctx.entry("ctor-mixed", ok, f"{info} -> {_exc(res)}", stored_ok=ok and res.tags == ["first-ok"] + lst)
    text = json.dumps(lst)
    ok, res = _try(lambda: Tags.from_json(text))
    ctx.entry("from_json", ok, f"{info} -> {_exc(res)}", stored_ok=ok and res is not None and res.tags == lst)
    if accepted_obj is not None:          # clause 3
        ok, res = _try(lambda: Tags.from_json(accepted_obj.to_json()))
        if not ok:
            ctx.add("C16/Tags/roundtrip-rejected", f"{info}: from_json(to_json(x)) raised {_exc(res)}")
        elif res is None or res.tags != lst:
            ctx.add("C16/Tags/roundtrip-differs", f"{info}: from_json(to_json(x)) gives {res}")
    _element_entry(ctx, case, info, prop="tags", graph_prop="Tags", make=lambda: Tags(list(lst)), graph_text=text,
                   prior_make=lambda: Tags("prior"), updater=lambda e: None, read=lambda e: e.tags,
                   check=lambda got, via: got is not None and got.tags == lst)
    ctx.differential(info)
    return ctx, verdict


# ------------------------------------------------------------------------------------------------
# kind: name
# ------------------------------------------------------------------------------------------------
def _sliver_class(name):
    from fim.slivers.network_node import NodeSliver
    from fim.slivers.attached_components import ComponentSliver
    from fim.slivers.network_service import NetworkServiceSliver
    from fim.slivers.interface_info import InterfaceSliver
    from fim.slivers.network_link import NetworkLinkSliver
    return {"NodeSliver": NodeSliver, "ComponentSliver": ComponentSliver, "NetworkServiceSliver": NetworkServiceSliver,
            "InterfaceSliver": InterfaceSliver, "NetworkLinkSliver": NetworkLinkSliver}[name]


_ELEM_OF_CLASS = {"NodeSliver": "node", "ComponentSliver": "component", "NetworkServiceSliver": "service",
                  "InterfaceSliver": "interface", "NetworkLinkSliver": "link"}


def _run_name(case):
    cls_name, x = case["cls"], case["value"]
    fmt = "name:" + cls_name
    verdict = G.classify_str(fmt, x)
    known = None
    if verdict == NON_MEMBER and G.miss_class(fmt, x) == "trailing-newline":
        known = "C16/set_name/nonmember-accepted/trailing-newline"
    ctx = _Ctx(verdict, f"{cls_name}.name", known)
    info = f"class={cls_name} name={x!r} verdict={verdict}"
    cls = _sliver_class(cls_name)

    def sliver_entry(entry, call):
        s = cls()
        s.set_name("prior-ok")
        ok, res = _try(lambda: call(s))
        ctx.entry(entry, ok, f"{info} -> {_exc(res)}", stored_ok=ok and s.get_name() == x,
                  unchanged_ok=s.get_name() == "prior-ok")

    sliver_entry("set_name", lambda s: s.set_name(x))
    sliver_entry("set_property", lambda s: s.set_property("name", x))
    sliver_entry("set_properties", lambda s: s.set_properties(name=x))

    if case.get("topo", True):
        _name_topology_entry(ctx, case, info)
    ctx.differential(info)
    return ctx, verdict, fmt


def _name_topology_entry(ctx, case, info):
    from fim.user import ComponentModelType, ServiceType, LinkType
    cls_name, x, via = case["cls"], case["value"], case["via"]
    elem_kind = _ELEM_OF_CLASS[cls_name]
    avoid = x if isinstance(x, str) else None
    if via == "add" and elem_kind in ("node", "component", "service", "link"):
        # the element is created under the candidate name
        if elem_kind == "node":
            from fim.user.topology import ExperimentTopology
            t = ExperimentTopology()
            call = lambda: t.add_node(name=x, site="SITE")
        elif elem_kind == "component":
            t, n = _build("node", avoid)
            call = lambda: n.add_component(name=x, model_type=ComponentModelType.GPU_RTX6000)
        elif elem_kind == "service":
            t, n = _build("node", avoid)
            call = lambda: t.add_network_service(name=x, nstype=ServiceType.L2Bridge, interfaces=[])
        else:
            t, n = _build("node", avoid)
            il = n.add_component(name=_helper_name("hnic", avoid),
                                 model_type=ComponentModelType.SmartNIC_ConnectX_6).interface_list
            call = lambda: t.add_link(name=x, ltype=LinkType.Patch, interfaces=[il[0], il[1]])
        n_before = _node_count(t)
        ok, res = _try(call)
        stored = None
        if ok:
            stored = _props(t, res).get("Name") == x and res.name == x
        ctx.entry(f"add@{elem_kind}", ok, f"{info} -> {_exc(res)}", stored_ok=stored,
                  unchanged_ok=_node_count(t) == n_before)
        return
    # rename / name assignment on an existing element
    t, e = _build(elem_kind, avoid)
    old = e.name
    before = _props(t, e)
    if via == "assign":
        entry = f"assign-name@{elem_kind}"
        ok, res = _try(lambda: setattr(e, "name", x))
    else:
        entry = f"rename@{elem_kind}"
        ok, res = _try(lambda: e.rename(x))
    after = _props(t, e)
    stored = None
    if ok:
        r_ok, got = _try(lambda: e.get_property("name"))
        stored = after.get("Name") == x and r_ok and got == x
    ctx.entry(entry, ok, f"{info} -> {_exc(res)}", stored_ok=stored, unchanged_ok=after == before)
    if not ok and e.name != old:
        # clause 1: nothing is stored - the element handle must not carry the rejected name either
        ctx.add("C16/ModelElement.name/rejected-but-stored/handle-keeps-rejected-name",
                f"{entry} raised {_exc(res)} but the handle now reports name {e.name!r} (graph still has {old!r})")


# ------------------------------------------------------------------------------------------------
# kind: boot script
# ------------------------------------------------------------------------------------------------
def _run_boot(case):
    from fim.slivers.network_node import NodeSliver
    x = case["value"] if case["value"] is not None else case["ch"] * case["len"]
    verdict = G.classify_boot_script(x)
    ctx = _Ctx(verdict, "boot_script")
    info = f"boot_script len={len(x) if isinstance(x, str) else None} type={type(x).__name__} verdict={verdict}"

    def sliver_entry(entry, call):
        s = NodeSliver()
        s.set_boot_script("prior")
        ok, res = _try(lambda: call(s))
        ctx.entry(entry, ok, f"{info} -> {_exc(res)}", stored_ok=ok and s.get_boot_script() == x,
                  unchanged_ok=s.get_boot_script() == "prior")

    sliver_entry("set_boot_script", lambda s: s.set_boot_script(x))
    sliver_entry("sliver.set_property", lambda s: s.set_property("boot_script", x))
    c = dict(case)
    c["elem"] = "node"
    _element_entry(ctx, c, info, prop="boot_script", graph_prop="BootScript", make=lambda: x, graph_text=x,
                   prior_make=lambda: "prior", updater=lambda e: None, read=lambda e: e.boot_script,
                   check=lambda got, via: got == x)
    ctx.differential(info)
    return ctx, verdict, x


# ------------------------------------------------------------------------------------------------
# kind: JSON data (MeasurementData / UserData / LayoutData)
# ------------------------------------------------------------------------------------------------
def _run_json(case):
    import fim.slivers.json_data as jd
    prop, cls_name, limit = JSON_CLASSES[case["cls"]]
    cls = getattr(jd, cls_name)
    graph_prop = {"mf_data": "MeasurementData", "user_data": "UserData", "layout_data": "LayoutData"}[prop]
    if case["form"] == "text":
        x = case["pre"] + case["ch"] * case["pad"] + case["post"]
        verdict = G.classify_json_text(x, limit)
        size = len(x)
        stored_eq = lambda o: o is not None and o.json == x
    else:
        x = _pad_object(case["obj"], case["pad"])
        dl, cl = len(json.dumps(x)), len(json.dumps(x, separators=(",", ":")))
        verdict = G.classify_json_object(dl, cl, limit)
        size = dl
        stored_eq = lambda o: o is not None and o.data == x
    ctx = _Ctx(verdict, cls_name)
    info = f"{cls_name} form={case['form']} size={size} limit={limit} mut={case.get('mut')} verdict={verdict}" + \
           (f" text={x!r}" if size <= 80 else "")
    ok, res = _try(lambda: cls(x))
    ctx.entry(f"ctor-{case['form']}", ok, f"{info} -> {_exc(res)}", stored_ok=ok and stored_eq(res))
    if ok:      # clause 3: the stored text is accepted again and equal
        ok2, res2 = _try(lambda: cls(res.json))
        if not ok2:
            ctx.add(f"C16/{cls_name}/roundtrip-rejected", f"{info}: {cls_name}(x.json) raised {_exc(res2)}")
        elif res2.json != res.json or res2.data != res.data:
            ctx.add(f"C16/{cls_name}/roundtrip-differs", f"{info}: {cls_name}(x.json) differs")
    # one more way in: a blob object of ANOTHER blob class (larger limit) handed to this class's constructor or
    # assigned to this property. Whatever this class ends up holding must respect ITS limit
    from fim.slivers import json_data as _jd
    if verdict == NON_MEMBER and case["form"] == "text":
        for other in (_jd.MeasurementData, _jd.UserData, _jd.LayoutData):
            if other is cls or other.MAX_SIZE <= cls.MAX_SIZE:
                continue
            oko, donor = _try(lambda: other(x))
            if not oko:
                continue            # not a value of the larger class either
            ok3, res3 = _try(lambda: cls(donor))
            if ok3 and res3 is not None and len(res3.json) > cls.MAX_SIZE:
                ctx.add(f"C16/{cls_name}/nonmember-accepted/ctor-from-other-blob-class",
                        f"{info}: {cls_name}({other.__name__}(x)) holds {len(res3.json)} characters")
    via = case["via"]
    c = dict(case)
    c["elem"] = "node"
    if via == "graph-read" and case["form"] != "text":
        c["via"] = via = "assign"
    if via == "assign":          # the element setter wraps a raw text/object itself
        make = lambda: x
    else:
        if via == "assign-instance":
            c["via"] = "assign"
        make = lambda: cls(x)
    getter = lambda e: e.get_property(prop)
    _element_entry(ctx, c, info, prop=prop, graph_prop=graph_prop, make=make,
                   graph_text=x if case["form"] == "text" else None,
                   prior_make=lambda: cls({"prior": 1}), updater=lambda e: None, read=getter,
                   check=lambda got, v: stored_eq(got))
    ctx.differential(info)
    return ctx, verdict, size, limit


# ------------------------------------------------------------------------------------------------
# kind: capacity
# ------------------------------------------------------------------------------------------------
def _run_capacity(case):
    from fim.slivers.capacities_labels import Capacities
    field, x, prior = case["field"], case["value"], case.get("prior")
    verdict = G.classify_capacity(x)
    ctx = _Ctx(verdict, "Capacities")
    info = f"capacity {field}={x!r} ({type(x).__name__}) verdict={verdict}"

    def same(got):
        return type(got) is type(x) and got == x

    ok, res = _try(lambda: Capacities(**{field: x}))
    ctx.entry("ctor", ok, f"{info} -> {_exc(res)}", stored_ok=ok and same(getattr(res, field)))
    accepted_obj = res if ok else None
    other = "ram" if field != "ram" else "disk"
    base = Capacities(**({other: 5} if prior is None else {other: 5, field: prior}))
    before = dict(base.__dict__)
    ok, res = _try(lambda: Capacities.update(base, **{field: x}))
    kept = dict(base.__dict__) == before
    ctx.entry("update", ok, f"{info} prior={prior} -> {_exc(res)}",
              stored_ok=ok and same(getattr(res, field)) and getattr(res, other) == 5 and kept, unchanged_ok=kept)
    text = json.dumps({field: x, other: 5})
    ok, res = _try(lambda: Capacities.from_json(text))
    ctx.entry("from_json", ok, f"{info} -> {_exc(res)}",
              stored_ok=ok and res is not None and same(getattr(res, field)) and getattr(res, other) == 5)
    if accepted_obj is not None and verdict == MEMBER:     # clause 3 (an all-zero object encodes as "absent")
        ok, res = _try(lambda: Capacities.from_json(accepted_obj.to_json()))
        if not ok:
            ctx.add("C16/Capacities/roundtrip-rejected", f"{info}: from_json(to_json(x)) raised {_exc(res)}")
        elif (getattr(res, field) if res is not None else 0) != x:
            ctx.add("C16/Capacities/roundtrip-differs", f"{info}: from_json(to_json(x)) gives {res}")

    def check(got, via):
        val = getattr(got, field) if got is not None else 0      # absent == zero (to_json drops zero fields)
        keep = via != "update_capacities" or (getattr(got, other) if got is not None else 0) == 5
        return (val == x and isinstance(val, int) and not isinstance(x, (bool, float))) and keep

    _element_entry(ctx, case, info, prop="capacities", graph_prop="Capacities",
                   make=lambda: Capacities(**{field: x}), graph_text=json.dumps({field: x}),
                   prior_make=lambda: Capacities(**({other: 5} if prior is None else {other: 5, field: prior})),
                   updater=lambda e: e.update_capacities(**{field: x}), read=lambda e: e.capacities, check=check)
    ctx.differential(info)
    return ctx, verdict


# ------------------------------------------------------------------------------------------------
def run_case(case):
    _reset()
    kind = case["kind"]
    labels = [f"kind:{kind}"]
    nt = False
    edit1 = boundary = False
    if kind == "label":
        ctx, verdict, field = _run_label(case)
        labels += [f"form:{case['form']}", f"f:{field}", f"via:{case['via']}"]
        fmt, x, base = field, case["value"], case.get("base")
        if field in G.VALIDATED_FIELDS:
            xv = G.classify_str(field, x)
            edit1 = xv == NON_MEMBER and base is not None and G.classify_str(field, base) == MEMBER and G.edit1(base, x)
            boundary = verdict == MEMBER and G.is_boundary(fmt, x)
    elif kind == "tags":
        ctx, verdict = _run_tags(case)
        x, base = case["value"], case.get("base")
        edit1 = G.classify_str('tag', x) == NON_MEMBER and base is not None and \
            G.classify_str('tag', base) == MEMBER and G.edit1(base, x)
        boundary = verdict == MEMBER and G.is_boundary('tag', x)
        labels.append(f"via:{case['via']}")
    elif kind == "name":
        ctx, verdict, fmt = _run_name(case)
        x, base = case["value"], case.get("base")
        edit1 = verdict == NON_MEMBER and base is not None and G.classify_str(fmt, base) == MEMBER and G.edit1(base, x)
        boundary = verdict == MEMBER and G.is_boundary(fmt, x)
        labels += [f"name:{case['cls']}", f"via:{case['via']}" if case.get("topo", True) else "via:sliver-only"]
    elif kind == "boot":
        ctx, verdict, x = _run_boot(case)
        boundary = isinstance(x, str) and abs(len(x) - G.BOOT_LIMIT) <= 1
    elif kind == "jsondata":
        ctx, verdict, size, limit = _run_json(case)
        boundary = abs(size - limit) <= 1
        labels += [f"json:{case['form']}", f"json-mut:{case.get('mut', 'object')}"]
    elif kind == "capacity":
        ctx, verdict = _run_capacity(case)
        boundary = case["value"] in (0, -1, 1) and not isinstance(case["value"], (bool, float))
    else:
        raise ValueError(f"unknown kind {kind}")
    labels.append(f"cls:{verdict}")
    if "nm" in case:
        labels.append(f"nm:{case['nm']}")
    if edit1:
        labels.append("near-miss-edit1")
    if boundary:
        labels.append("member-boundary" if verdict == MEMBER else "size-boundary")
    nt = bool(edit1 or boundary)
    if nt:
        labels.append("nt")
    # one signature per (root cause) - de-duplicate, keep first message
    seen, v = set(), []
    for sig, msg in ctx.v:
        if sig not in seen:
            seen.add(sig)
            v.append((sig, msg))
    return {"v": v, "nt": nt, "labels": labels}


# directed probes for the findings of findings_draft/C16.md
PROBES = {
    "C16/Labels/nonmember-accepted/trailing-newline":
        {"kind": "label", "field": "vlan", "value": "12\n", "form": "scalar", "others": [], "pos": 0, "prior": None,
         "elem": "node", "via": "update_labels", "nm": "trailing-newline", "base": "12"},
    "C16/Labels.numa/nonmember-accepted/int-lenient":
        {"kind": "label", "field": "numa", "value": " 3", "form": "scalar", "others": [], "pos": 0, "prior": None,
         "elem": "node", "via": "update_labels", "nm": "specific-int-lenient", "base": None},
    "C16/Tags/nonmember-accepted/trailing-newline":
        {"kind": "tags", "value": "blue\n", "others": [], "pos": 0, "elem": "node", "via": "assign",
         "nm": "trailing-newline", "base": "blue"},
    "C16/set_name/nonmember-accepted/trailing-newline":
        {"kind": "name", "cls": "NodeSliver", "value": "node1\n", "via": "add", "topo": True,
         "nm": "trailing-newline", "base": "node1"},
    "C16/ModelElement.name/rejected-but-stored/handle-keeps-rejected-name":
        {"kind": "name", "cls": "NodeSliver", "value": "bad name!", "via": "rename", "topo": True,
         "nm": "edit-insert", "base": None},
}
