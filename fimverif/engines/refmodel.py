"""
E3: executable reference model of the documented property-graph interface (DESIGN.md Appendix A).

State: graphs[gid] = {"nodes": {node_id: props}, "edges": {frozenset({a, b}): props}}; props always hold
"Class"; node props also "NodeID" and "GraphID".  cross = edges between nodes of different graphs that
merge_nodes creates ({frozenset({(gid, id), (gid2, id2)}): props}).

Every method either returns a result, raises ModelRaise (the documented interface says the call must fail),
or returns UNSPEC (the interface documentation is silent: only the two backends are compared with each other;
the model then mirrors what the shared backend did via the 'mirror' hooks of the caller).
"""
import copy

CLASS, NODE_ID, GRAPH_ID = "Class", "NodeID", "GraphID"
NO_UNSET = {GRAPH_ID, NODE_ID, "Type", CLASS, "Name"}


class ModelRaise(Exception):
    pass


class _Unspec:
    def __repr__(self):
        return "UNSPEC"


UNSPEC = _Unspec()


def ekey(a, b):
    return frozenset((a, b))


class RefStore:
    def __init__(self):
        self.graphs = {}
        self.cross = {}

    # ---------------------------------------------------------------- helpers
    def g(self, gid):
        return self.graphs.setdefault(gid, {"nodes": {}, "edges": {}})

    def _node(self, gid, nid):
        n = self.g(gid)["nodes"].get(nid)
        if n is None:
            raise ModelRaise(f"no node {nid} in {gid}")
        return n

    def _edge(self, gid, a, b, kind=None):
        self._node(gid, a)
        self._node(gid, b)
        e = self.g(gid)["edges"].get(ekey(a, b))
        if e is None:
            raise ModelRaise("no such link")
        if kind is not None and e[CLASS] != kind:
            raise ModelRaise("link of this type doesn't exist")
        return e

    def empty(self, gid):
        return len(self.g(gid)["nodes"]) == 0

    # ---------------------------------------------------------------- node / link CRUD
    def add_node(self, gid, nid, label, props=None):
        if nid in self.g(gid)["nodes"]:
            raise ModelRaise("a node with this id exists (whatever its class)")
        p = {GRAPH_ID: gid, CLASS: label, NODE_ID: nid}
        p.update(props or {})
        self.g(gid)["nodes"][nid] = p

    def delete_node(self, gid, nid):
        self._node(gid, nid)
        G = self.g(gid)
        del G["nodes"][nid]
        for k in [k for k in G["edges"] if nid in k]:
            del G["edges"][k]
        for k in [k for k in self.cross if (gid, nid) in k]:
            del self.cross[k]

    def add_link(self, gid, a, rel, b, props=None):
        self._node(gid, a)
        self._node(gid, b)
        e = self.g(gid)["edges"].setdefault(ekey(a, b), {})
        # a second add on the same pair is agree-only in the contract; both backends update in place
        e[CLASS] = rel
        e.update(props or {})

    def get_node_properties(self, gid, nid):
        p = dict(self._node(gid, nid))
        label = p.pop(CLASS)
        return [[label], p]

    def get_link_properties(self, gid, a, b):
        p = dict(self._edge(gid, a, b))
        kind = p.pop(CLASS)
        return [kind, p]

    def update_node_property(self, gid, nid, name, val):
        if name == CLASS:
            raise ModelRaise("changing Class is not permitted")
        self._node(gid, nid)[name] = val

    def unset_node_property(self, gid, nid, name):
        if name in NO_UNSET:
            raise ModelRaise("identity property cannot be unset")
        n = self._node(gid, nid)
        if name not in n:
            # not set: the documentation is silent; both backends raise, the model mirrors that
            raise ModelRaise("property not set (agree-only)")
        del n[name]

    def update_node_properties(self, gid, nid, props):
        if CLASS in props:
            raise ModelRaise("changing Class is not permitted")
        self._node(gid, nid).update(props)

    def update_nodes_property(self, gid, name, val):
        if self.empty(gid):
            return UNSPEC
        if name == CLASS:
            raise ModelRaise("changing Class is not permitted")
        for n in self.g(gid)["nodes"].values():
            n[name] = val

    def update_link_property(self, gid, a, b, kind, name, val):
        if name == CLASS:
            raise ModelRaise("changing Class is not permitted")
        self._edge(gid, a, b, kind)[name] = val

    def unset_link_property(self, gid, a, b, kind, name):
        if name == CLASS:
            raise ModelRaise("unsetting Class is not permitted")
        self._edge(gid, a, b, kind).pop(name, None)

    def update_link_properties(self, gid, a, b, kind, props):
        if CLASS in props:
            raise ModelRaise("changing Class is not permitted")
        self._edge(gid, a, b, kind).update(props)

    # ---------------------------------------------------------------- listings
    def list_all_node_ids(self, gid):
        if self.empty(gid):
            return UNSPEC
        return sorted(self.g(gid)["nodes"])

    def get_all_nodes_by_class(self, gid, label):
        return sorted(i for i, p in self.g(gid)["nodes"].items() if p[CLASS] == label)

    def get_all_nodes_by_class_and_type(self, gid, label, ntype):
        return sorted(i for i, p in self.g(gid)["nodes"].items() if p[CLASS] == label and p.get("Type") == ntype)

    def node_exists(self, gid, nid, label):
        p = self.g(gid)["nodes"].get(nid)
        return p is not None and p[CLASS] == label

    def check_node_unique(self, gid, label, name):
        return not any(p[CLASS] == label and p.get("Name") == name for p in self.g(gid)["nodes"].values())

    def graph_exists(self, gid):
        return not self.empty(gid)

    def find_matching_nodes(self, gid, other):
        if self.empty(gid) or self.empty(other):
            return UNSPEC
        return sorted(set(self.g(gid)["nodes"]) & set(self.g(other)["nodes"]))

    # ---------------------------------------------------------------- merge
    def merge_nodes(self, gid, nid, other, policy):
        if self.empty(other):
            raise ModelRaise("other graph does not exist")
        mine = self._node(gid, nid)
        theirs = self._node(other, nid)
        new = dict(mine)
        for k, how in (policy or {}).items():
            if k in mine:
                if k not in theirs and how in ("overwrite", "combine"):
                    return UNSPEC
                new[k] = mine[k] if how == "discard" else theirs[k] if how == "overwrite" else [mine[k], theirs[k]]
        O = self.g(other)
        # every edge of the other node becomes incident to the merged node (across graphs)
        for k in [k for k in O["edges"] if nid in k]:
            (w,) = [x for x in k if x != nid] or [nid]
            # (a neighbour both nodes are linked to: the caller's own link stays - "common relationships are merged")
            theirs = O["edges"].pop(k)
            self.cross.setdefault(frozenset(((gid, nid), (other, w))), theirs)
        for k in [k for k in self.cross if (other, nid) in k]:
            (w,) = [x for x in k if x != (other, nid)]
            props = self.cross.pop(k)
            if w[0] == gid:
                if w[1] != nid:
                    self.g(gid)["edges"].setdefault(ekey(nid, w[1]), props)   # common relationships are merged
            else:
                self.cross.setdefault(frozenset(((gid, nid), w)), props)
        del O["nodes"][nid]
        self.g(gid)["nodes"][nid] = new

    # ---------------------------------------------------------------- whole graphs
    def delete_graph(self, gid):
        self.graphs[gid] = {"nodes": {}, "edges": {}}
        for k in [k for k in self.cross if any(x[0] == gid for x in k)]:
            del self.cross[k]

    def clone_graph(self, gid, new):
        if self.empty(gid):
            return UNSPEC
        G = copy.deepcopy(self.g(gid))
        for p in G["nodes"].values():
            p[GRAPH_ID] = new
        self.graphs[new] = G
        for k in [k for k in self.cross if any(x[0] == new for x in k)]:
            del self.cross[k]

    def put_graph(self, gid, nodes, edges):
        """import: graph := content (nodes {id: props incl Class}, edges {(a,b): props}), stamped with gid"""
        self.delete_graph(gid)
        G = self.g(gid)
        for nid, p in nodes.items():
            q = dict(p)
            q[NODE_ID] = nid
            q[GRAPH_ID] = gid
            G["nodes"][nid] = q
        for (a, b), p in edges.items():
            G["edges"][ekey(a, b)] = dict(p)

    # ---------------------------------------------------------------- canonical form (same shape as store.canon)
    def canon(self, gid):
        from fimverif.engines.store import _tv
        G = self.g(gid)
        if not G["nodes"]:
            return None
        nodes = {i: {"Class": p[CLASS], "props": {k: _tv(v) for k, v in p.items()
                                                  if k not in (CLASS, NODE_ID, GRAPH_ID)}}
                 for i, p in G["nodes"].items()}
        edges = {"\x00".join(sorted(k)) if len(k) == 2 else "\x00".join(sorted(list(k) * 2)):
                 {"Class": p[CLASS], "props": {kk: _tv(v) for kk, v in p.items() if kk != CLASS}}
                 for k, p in G["edges"].items()}
        return {"nodes": nodes, "edges": edges, "problems": []}
