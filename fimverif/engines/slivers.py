"""
E5 - sliver generator (DESIGN.md §2): full-vocabulary slivers of the five sliver classes as *data*.

A sliver description (JSON-serialisable):

    {"cls": "node"|"component"|"service"|"interface"|"link",
     "name": str, "type": <enum member name>, "node_id": str,
     "props": {<settable property>: <value description>},      # absent property = not in the dict
     "components": [desc...], "services": [desc...], "interfaces": [desc...]}   # keys present where legal

* `PROP_KIND` is the strategy table. `check_table()` walks `cls.list_properties()` of every sliver class and
  raises (=> harness error) if a setter has no entry, or if the table names a setter the class no longer has.
* `sliver_desc(cls_key, ...)` is the Hypothesis strategy; `value_desc(cls_key, prop)` the per-property one.
* `build(desc)` constructs real `fim` sliver objects; `make_value(cls_key, prop, vd)` one property value.
* `canon_value(v)` / `canon_sliver(s)` give the field-wise canonical form used for comparison.

Domain restrictions (each with its reason, see also the ASSUMPTIONS of the property modules):
  - every JSONField value has at least one non-default field (an all-default object encodes as '' which the
    library's own convention reads as "absent", DESIGN §1.9);
  - plain strings may be any text incl. the words 'None'/'none'/'null' (free-text properties also the empty
    string): the in-memory backends keep them as they are;
  - image_ref / image_type contain no comma and are generated together (documented fate sharing);
  - Location lat/lon are never 0.0 (codec fidelity of single values is C03's subject, not C02's);
  - sub-interfaces exist only under DedicatedPort interfaces, SmartNIC components carry exactly one service
    (what the component catalogue builds and what the graph reader/diff code looks at).
"""
import json

from hypothesis import strategies as st

# ----------------------------------------------------------------------------------------------------------------
# classes
# ----------------------------------------------------------------------------------------------------------------
CLS_KEYS = ("node", "component", "service", "interface", "link")


def classes():
    from fim.slivers.network_node import NodeSliver
    from fim.slivers.attached_components import ComponentSliver
    from fim.slivers.network_service import NetworkServiceSliver
    from fim.slivers.interface_info import InterfaceSliver
    from fim.slivers.network_link import NetworkLinkSliver
    return {"node": NodeSliver, "component": ComponentSliver, "service": NetworkServiceSliver,
            "interface": InterfaceSliver, "link": NetworkLinkSliver}


def type_enums():
    from fim.slivers.network_node import NodeType
    from fim.slivers.attached_components import ComponentType
    from fim.slivers.network_service import ServiceType
    from fim.slivers.interface_info import InterfaceType
    from fim.slivers.network_link import LinkType
    return {"node": NodeType, "component": ComponentType, "service": ServiceType,
            "interface": InterfaceType, "link": LinkType}


TYPE_NAMES = {
    "node": ["Server", "VM", "Container", "Switch", "NAS", "Facility"],
    "component": ["GPU", "SmartNIC", "SharedNIC", "FPGA", "NVME", "Storage"],
    "service": ["P4", "MPLS", "OVS", "L2Path", "L2STS", "L2PTP", "L2Multisite", "L2Bridge", "FABNetv4", "FABNetv6",
                "PortMirror", "L3VPN", "VLAN", "FABNetv4Ext", "FABNetv6Ext"],
    "interface": ["AccessPort", "TrunkPort", "ServicePort", "DedicatedPort", "SharedPort", "vInt", "StitchPort",
                  "FacilityPort", "SubInterface"],
    "link": ["Patch", "L1Path", "L2Path"],
}

# ----------------------------------------------------------------------------------------------------------------
# the strategy table: property name -> value kind. Keyed by list_properties() (check_table()).
# ----------------------------------------------------------------------------------------------------------------
_BASE = {
    "name": "NAME", "type": "TYPE", "model": "TEXT", "capacities": "CAPS", "capacity_allocations": "CAPS",
    "capacity_hints": "HINTS", "labels": "LABELS", "label_allocations": "LABELS",
    "capacity_delegations": "CDEL", "label_delegations": "LDEL", "reservation_info": "RINFO",
    "structural_info": "SINFO", "details": "TEXT", "node_map": "NODE_MAP", "stitch_node": "BOOL",
    "tags": "TAGS", "flags": "FLAGS", "mf_data": "MF", "user_data": "UD", "layout_data": "LD",
    "boot_script": "TEXT",
}
PROP_KIND = {
    "node": dict(_BASE, management_ip="IP", allocation_constraints="TEXT", image_type="IMG", image_ref="IMG",
                 service_endpoint="TEXT", site="TEXT", location="LOC", maintenance_info="MAINT"),
    "component": dict(_BASE, network_service_info="STRUCT"),
    "service": dict(_BASE, layer="LAYER", technology="TEXT", allocation_constraints="TEXT", ero="ERO",
                    path_info="PATHINFO", controller_url="TEXT", site="TEXT", gateway="GW", mirror_port="TEXT",
                    mirror_vlan="TEXT", mirror_direction="MDIR"),
    "interface": dict(_BASE, peer_labels="LABELS"),
    "link": dict(_BASE, layer="LAYER", technology="TEXT"),
}
IDENTITY_PROPS = ("name", "type")
_checked = []


def check_table():
    """harness error if the table and the classes' setters disagree"""
    if _checked:
        return
    for key, cls in classes().items():
        have = set(cls.list_properties())
        table = set(PROP_KIND[key])
        if have - table:
            raise RuntimeError(f"E5: no strategy for setter(s) {sorted(have - table)} of {cls.__name__}")
        if table - have:
            raise RuntimeError(f"E5: strategy table names {sorted(table - have)} which {cls.__name__} does not set")
    for key, en in type_enums().items():
        if sorted(m.name for m in en) != sorted(TYPE_NAMES[key]):
            raise RuntimeError(f"E5: type vocabulary of {key} changed: {[m.name for m in en]}")
    _checked.append(True)


def value_props(cls_key):
    """settable value properties (identity and structural ones excluded), sorted"""
    return sorted(p for p, k in PROP_KIND[cls_key].items() if k not in ("NAME", "TYPE", "STRUCT"))


# ----------------------------------------------------------------------------------------------------------------
# value strategies (E1-like text; all results are JSON-serialisable descriptions)
# ----------------------------------------------------------------------------------------------------------------
_ALPHA = "abcxyzABZ0189 _-./:+,;'\"<>&{}[]$\\%#@!?=*()|~^`éß中Ж\t\n"
_SPECIAL_TEXT = ["a", "0", "1", "-1", "true", "false", "null", "none", "{}", "[]", "\"", "'", "a b", " lead", "trail ",
                 "<a>&amp;</a>", "x" * 300, "éß中", "a,b", "1.0", "NaN", "{\"a\": 1}", "%s", "\\n"]


def _text(max_size=12, no_comma=False):
    alpha = _ALPHA.replace(",", "") if no_comma else _ALPHA
    special = [s for s in _SPECIAL_TEXT if not (no_comma and "," in s)]
    return st.one_of(st.sampled_from(special), st.text(alphabet=alpha, min_size=1, max_size=max_size),
                     st.sampled_from(["None", "none", "null"]))


TEXT = _text()
_WORD = "abcxyzABZ0189_é中"
NAME_EXTRA = {"node": "-.", "component": "-. ", "service": "-.", "interface": "-+/. :", "link": "-+/. :"}
NAME_MIN = {"node": 2, "component": 2, "service": 2, "interface": 1, "link": 2}


def name_strategy(cls_key):
    alpha = _WORD + NAME_EXTRA[cls_key]
    return st.one_of(st.text(alphabet=alpha, min_size=NAME_MIN[cls_key], max_size=8),
                     st.sampled_from(["nm", "n-1", "N.a_b", "x" * 255, "éé", "00", "a.b-c"]))


_octet = st.sampled_from([0, 1, 9, 10, 99, 100, 127, 192, 199, 200, 249, 250, 255])
_ipv4 = st.tuples(_octet, _octet, _octet, _octet).map(lambda t: "%d.%d.%d.%d" % t)
_hex4 = st.text(alphabet="0123456789abcdefABCDEF", min_size=1, max_size=4)
_ipv6 = st.one_of(st.lists(_hex4, min_size=8, max_size=8).map(":".join),
                  st.sampled_from(["::1", "2001:db8::1", "fe80::1:2", "2001:0db8:85a3:0000:0000:8a2e:0370:7334"]))
_hex2 = st.text(alphabet="0123456789abcdefABCDEF", min_size=2, max_size=2)
_mac = st.lists(_hex2, min_size=6, max_size=6).map(":".join)
_vlan = st.integers(0, 4096).map(str)
_bdf = st.tuples(st.text(alphabet="0123456789abcdef", min_size=1, max_size=4), _hex2, _hex2,
                 st.text(alphabet="0123456789abcdef", min_size=1, max_size=2)).map(lambda t: "%s:%s:%s.%s" % t)
_wordy = lambda extra, lo, hi: st.text(alphabet=_WORD + extra, min_size=lo, max_size=hi)  # noqa: E731

LABEL_FIELDS = {
    "bdf": _bdf, "mac": _mac, "ipv4": _ipv4,
    "ipv4_range": st.tuples(_ipv4, _ipv4).map(lambda t: "%s-%s" % t),
    "ipv4_subnet": st.tuples(_ipv4, st.integers(0, 32)).map(lambda t: "%s/%d" % t),
    "ipv6": _ipv6,
    "ipv6_range": st.tuples(_ipv6, _ipv6).map(lambda t: "%s-%s" % t),
    "ipv6_subnet": st.tuples(_ipv6, st.integers(0, 99)).map(lambda t: "%s/%d" % t),
    "asn": st.integers(1, 2 ** 32 - 1).map(str), "vlan": _vlan,
    "vlan_range": st.tuples(st.integers(0, 4096), st.integers(0, 4096)).map(lambda t: "%d-%d" % (min(t), max(t))),
    "inner_vlan": _vlan, "instance": TEXT, "instance_parent": TEXT, "local_name": TEXT, "local_type": TEXT,
    "device_name": TEXT, "bgp_key": _wordy("-+/.:", 6, 12), "account_id": _wordy("-/.", 3, 10),
    "region": _wordy("-.", 3, 10),
    "usb_id": st.tuples(st.text(alphabet="0123456789abcdef", min_size=4, max_size=4),
                        st.text(alphabet="0123456789abcdef", min_size=4, max_size=4)).map(lambda t: "%s:%s" % t),
    "numa": st.integers(-1, 7).map(str),
}
_LIST_FORM = ("vlan", "ipv4", "mac", "bdf", "ipv6", "local_name", "vlan_range")
CAP_FIELDS = ['cpu', 'core', 'ram', 'disk', 'bw', 'burst_size', 'unit', 'mtu']
FLAG_FIELDS = ['auto_config', 'auto_mount', 'ipv4_management', 'ptp']


@st.composite
def labels_desc(draw):
    fields = draw(st.lists(st.sampled_from(sorted(LABEL_FIELDS)), unique=True, min_size=1, max_size=4))
    d = {}
    for f in fields:
        if f in _LIST_FORM and draw(st.integers(0, 4)) == 0:
            d[f] = draw(st.lists(LABEL_FIELDS[f], min_size=1, max_size=3))
        else:
            d[f] = draw(LABEL_FIELDS[f])
    return d


_capval = st.one_of(st.sampled_from([1, 2, 7, 100, 2 ** 31, 2 ** 62]), st.integers(1, 64))


@st.composite
def caps_desc(draw):
    fields = draw(st.lists(st.sampled_from(CAP_FIELDS), unique=True, min_size=1, max_size=4))
    d = {f: draw(_capval) for f in fields}
    if len(fields) > 1 and draw(st.integers(0, 5)) == 0:
        d[fields[-1]] = 0        # an explicit zero next to a non-zero field
    return d


@st.composite
def gateway_desc(draw):
    if draw(st.booleans()):
        d = {"ipv4_subnet": draw(LABEL_FIELDS["ipv4_subnet"]), "ipv4": draw(_ipv4)}
    else:
        d = {"ipv6_subnet": draw(LABEL_FIELDS["ipv6_subnet"]), "ipv6": draw(_ipv6)}
    if draw(st.booleans()):
        d["mac"] = draw(_mac)
    return d


_json_leaf = st.one_of(st.none(), st.booleans(), st.integers(-5, 2 ** 40), st.sampled_from([0.5, -1.25, 1e10]), TEXT)
_json_obj = st.recursive(_json_leaf, lambda ch: st.one_of(st.lists(ch, max_size=3),
                                                          st.dictionaries(_text(6), ch, max_size=3)), max_leaves=6)
# "simple" JSON: value equality is unambiguous (no bool/float/0/1 whose JSON text differs from an equal Python value)
_sjson_leaf = st.one_of(st.integers(2, 1000), st.text(alphabet="abcxyz01 é", max_size=6))
_sjson_obj = st.dictionaries(st.text(alphabet="abck", min_size=1, max_size=3),
                             st.one_of(_sjson_leaf, st.lists(_sjson_leaf, max_size=3),
                                       st.dictionaries(st.sampled_from(["p", "q"]), _sjson_leaf, max_size=2)),
                             min_size=1, max_size=3)


@st.composite
def jsondata_desc(draw, simple=False):
    """{"form": "obj"|"text", "v": object, "fmt": int}; a str data argument is JSON *text* for the library, so the
    object form never carries a top-level str"""
    if simple:
        v = draw(_sjson_obj)
    else:
        if draw(st.integers(0, 11)) == 0:
            # a blob handed over as COMPACT text just below the smallest size limit (1024): legal as it is, but any
            # re-encoding with other separators on the way would push it over the limit
            return {"form": "text", "v": [7] * draw(st.integers(500, 511)), "fmt": 1, "big": True}
        v = draw(st.one_of(st.dictionaries(_text(6), _json_obj, max_size=3), st.lists(_json_obj, max_size=3)))
    return {"form": draw(st.sampled_from(["obj", "obj", "text"])), "v": v, "fmt": draw(st.integers(0, 2))}


@st.composite
def delegations_desc(draw, which):
    ids = draw(st.lists(_text(6), unique=True, min_size=1, max_size=2))
    out = []
    for i in ids:
        fmt = draw(st.sampled_from(["single", "def", "ref"]))
        pool = None if fmt == "single" else draw(_text(6).filter(lambda s: s != "_"))
        det = None if fmt == "ref" else draw(caps_desc() if which == "CDEL" else labels_desc())
        if det is not None and which == "CDEL":
            det = {k: x for k, x in det.items() if x != 0} or {"unit": 1}
        out.append({"id": i, "format": fmt, "pool": pool, "details": det})
    return out


@st.composite
def _iso(draw):
    s = "%04d-%02d-%02dT%02d:%02d:%02d" % (draw(st.integers(1971, 2999)), draw(st.integers(1, 12)),
                                           draw(st.integers(1, 28)), draw(st.integers(0, 23)),
                                           draw(st.integers(0, 59)), draw(st.integers(0, 59)))
    if draw(st.booleans()):
        s += ".%06d" % draw(st.integers(0, 999999))
    return s + draw(st.sampled_from(["", "", "+00:00", "-05:00", "+05:30"]))


@st.composite
def maint_desc(draw):
    names = draw(st.lists(_text(6), unique=True, min_size=1, max_size=2))
    return {n: {"state": draw(st.sampled_from(["Active", "PreMaint", "Maint", "Unknown"])),
                "deadline": draw(st.one_of(st.none(), _iso())),
                "expected_end": draw(st.one_of(st.none(), _iso()))} for n in names}


@st.composite
def path_desc(draw, ero):
    if draw(st.integers(0, 3)) == 0:
        d = {"type": "Graph", "payload": draw(TEXT)}
    else:
        d = {"type": "Path", "payload": {"a2z": draw(st.lists(TEXT, max_size=3)), "z2a": draw(st.lists(TEXT, max_size=3))}}
    if ero:
        d["strict"] = draw(st.booleans())
    return d


_nzfloat = st.one_of(st.sampled_from([35.9, -78.8, 1e-9, 90.0, -180.0, 0.1]),
                     st.floats(min_value=-180, max_value=180, allow_nan=False).filter(lambda x: x != 0))


@st.composite
def loc_desc(draw):
    fields = draw(st.lists(st.sampled_from(["postal", "lat", "lon"]), unique=True, min_size=1, max_size=3))
    return {f: draw(TEXT if f == "postal" else _nzfloat) for f in fields}


def kind_strategy(kind, cls_key=None, simple_json=False):
    if kind == "NAME":
        return name_strategy(cls_key)
    if kind == "TYPE":
        return st.sampled_from(TYPE_NAMES[cls_key])
    if kind == "TEXT":
        return TEXT
    if kind == "IMG":
        return _text(no_comma=True)
    if kind == "CAPS":
        return caps_desc()
    if kind == "HINTS":
        return st.fixed_dictionaries({"instance_type": TEXT})
    if kind == "LABELS":
        return labels_desc()
    if kind in ("CDEL", "LDEL"):
        return delegations_desc(kind)
    if kind == "RINFO":
        return st.dictionaries(st.sampled_from(["reservation_id", "reservation_state", "error_message"]), TEXT,
                               min_size=1, max_size=3)
    if kind == "SINFO":
        return st.one_of(
            st.dictionaries(st.sampled_from(["sub_graph_id", "parent_graph_id"]), TEXT, min_size=1, max_size=2),
            st.fixed_dictionaries({"adm_graph_ids": st.lists(TEXT, min_size=1, max_size=3)}))
    if kind == "NODE_MAP":
        return st.lists(TEXT, min_size=2, max_size=2)
    if kind == "BOOL":
        return st.booleans()
    if kind == "TAGS":
        return st.lists(st.text(alphabet=_WORD + "-", min_size=1, max_size=6), max_size=3)
    if kind == "FLAGS":
        return st.dictionaries(st.sampled_from(FLAG_FIELDS), st.booleans(), max_size=4)
    if kind in ("MF", "UD", "LD"):
        # smallest size limit of the three classes (LayoutData: 1024 bytes of JSON text), any formatting
        return jsondata_desc(simple=simple_json).filter(lambda d: d.get("big") or len(json.dumps(d["v"], indent=1)) < 1000)
    if kind == "IP":
        return st.one_of(_ipv4, _ipv6)
    if kind == "LOC":
        return loc_desc()
    if kind == "MAINT":
        return maint_desc()
    if kind == "LAYER":
        return st.sampled_from(["L0", "L1", "L2", "L3"])
    if kind == "ERO":
        return path_desc(True)
    if kind == "PATHINFO":
        return path_desc(False)
    if kind == "GW":
        return gateway_desc()
    if kind == "MDIR":
        return st.sampled_from(["Both", "RX_Only", "TX_Only"])
    raise RuntimeError(f"E5: no value strategy for kind {kind}")


def value_desc(cls_key, prop, simple_json=False):
    kind = PROP_KIND[cls_key][prop]
    if kind == "STRUCT":
        raise RuntimeError(f"E5: {prop} is structural (set through child slivers)")
    s = kind_strategy(kind, cls_key, simple_json)
    if prop == "boot_script":
        s = s.filter(lambda x: len(x) < 1024)
    if prop in ("boot_script", "details"):
        # free-text properties: the empty string is a legal value, distinct from "not set"
        s = st.one_of(s, s, s, st.just(""))
    return s


# ----------------------------------------------------------------------------------------------------------------
# sliver tree strategy
# ----------------------------------------------------------------------------------------------------------------
@st.composite
def _props(draw, cls_key, max_props, boost, simple_json):
    names = [p for p in value_props(cls_key) if p != "image_type"]      # image_ref stands for the pair
    # how many properties: none / single / pair boosted, then sparse, dense and (nearly) all
    n = len(names)
    k = draw(st.sampled_from([1, 0, 2, 1, 2, 4, 0, 8, n // 2, n]))
    k = min(k, max_props, n)
    chosen = draw(st.lists(st.sampled_from(names), unique=True, min_size=k, max_size=k)) if k else []
    for b in boost:
        if b not in chosen and draw(st.booleans()):
            chosen.append(b)
    out = {}
    for p in sorted(chosen):
        out[p] = draw(value_desc(cls_key, p, simple_json))
        if p == "image_ref":
            out["image_type"] = draw(value_desc(cls_key, "image_type"))
    return out


def _uniq(name, used, cls_key):
    base, i = name, 0
    while name in used:
        i += 1
        name = (base[:200] + "_%d" % i)
    used.add(name)
    return name


@st.composite
def sliver_desc(draw, cls_key="node", max_props=30, child_props=4, boost=(), simple_json=False, nid="n",
                allow_children=True, force_type=None):
    """one sliver tree of class cls_key (children per the nesting rules in the module docstring)"""
    ctype = force_type or draw(st.sampled_from(TYPE_NAMES[cls_key]))
    d = {"cls": cls_key, "name": draw(name_strategy(cls_key)), "type": ctype, "node_id": nid,
         "props": draw(_props(cls_key, max_props, boost, simple_json))}
    kw = dict(max_props=child_props, child_props=child_props, boost=boost, simple_json=simple_json)
    if cls_key == "node":
        d["components"], d["services"] = [], []
        if allow_children:
            used = set()
            for i in range(draw(st.sampled_from([1, 0, 1, 2, 3]))):
                t = draw(st.sampled_from(["SmartNIC", "GPU", "SmartNIC", "SharedNIC", "FPGA", "SmartNIC", "NVME", "Storage"]))
                c = draw(sliver_desc("component", nid=f"{nid}/c{i}", force_type=t, **kw))
                c["name"] = _uniq(c["name"], used, "component")
                d["components"].append(c)
            used = set()
            for i in range(draw(st.sampled_from([0, 1, 0, 2]))):
                s = draw(sliver_desc("service", nid=f"{nid}/s{i}", **kw))
                s["name"] = _uniq(s["name"], used, "service")
                d["services"].append(s)
    elif cls_key == "component":
        d["services"] = []
        n = {"SmartNIC": 1, "SharedNIC": 1}.get(ctype, draw(st.integers(0, 1)) if ctype == "FPGA" else 0)
        if allow_children:
            for i in range(n):
                d["services"].append(draw(sliver_desc("service", nid=f"{nid}/s{i}", **kw)))
        elif ctype == "SmartNIC":
            d["services"].append(draw(sliver_desc("service", nid=f"{nid}/s0", allow_children=False, **kw)))
    elif cls_key == "service":
        d["interfaces"] = []
        if allow_children:
            used = set()
            for i in range(draw(st.sampled_from([1, 0, 2, 2, 3]))):
                # an interface below a service is never itself of type SubInterface; DedicatedPort boosted
                t = draw(st.sampled_from(["DedicatedPort", "DedicatedPort", "SharedPort", "AccessPort", "TrunkPort",
                                          "ServicePort", "vInt", "StitchPort", "FacilityPort"]))
                x = draw(sliver_desc("interface", nid=f"{nid}/i{i}", force_type=t, **kw))
                x["name"] = _uniq(x["name"], used, "interface")
                d["interfaces"].append(x)
    elif cls_key == "interface":
        d["interfaces"] = []
        if allow_children and ctype == "DedicatedPort":
            used = set()
            for i in range(draw(st.sampled_from([1, 0, 1, 2]))):
                x = draw(sliver_desc("interface", nid=f"{nid}/u{i}", force_type="SubInterface",
                                     allow_children=False, **kw))
                x["name"] = _uniq(x["name"], used, "interface")
                d["interfaces"].append(x)
    return d


CHILD_KEYS = ("components", "services", "interfaces")


def walk(desc):
    """all descriptions of a tree, pre-order"""
    yield desc
    for k in CHILD_KEYS:
        for c in desc.get(k, ()):
            yield from walk(c)


# ----------------------------------------------------------------------------------------------------------------
# building real objects
# ----------------------------------------------------------------------------------------------------------------
def _jsondata_arg(vd):
    if vd["form"] == "obj":
        return vd["v"]
    fmt = vd.get("fmt", 0)
    if fmt == 0:
        return json.dumps(vd["v"])
    if fmt == 1:
        return json.dumps(vd["v"], separators=(",", ":"), sort_keys=True)
    return json.dumps(vd["v"], indent=1, ensure_ascii=False)


def make_kind_value(kind, vd, cls_key=None):
    from fim.slivers.capacities_labels import Capacities, CapacityHints, Labels, ReservationInfo, StructuralInfo, \
        Location, Flags
    from fim.slivers.delegations import Delegations, Delegation, DelegationType, DelegationFormat
    from fim.slivers.tags import Tags
    from fim.slivers.json_data import MeasurementData, UserData, LayoutData
    from fim.slivers.gateway import Gateway
    from fim.slivers.path_info import PathInfo, ERO, Path, PathRepresentationType
    from fim.slivers.maintenance_mode import MaintenanceInfo, MaintenanceEntry
    from fim.slivers.network_service import NSLayer, MirrorDirection
    if vd is None:
        return None
    if kind in ("TEXT", "IMG", "NAME", "BOOL", "IP"):
        return vd
    if kind == "TYPE":
        return type_enums()[cls_key][vd]
    if kind == "CAPS":
        return Capacities(**vd)
    if kind == "HINTS":
        return CapacityHints(**vd)
    if kind == "LABELS":
        return Labels(**{k: (list(x) if isinstance(x, list) else x) for k, x in vd.items()})
    if kind in ("CDEL", "LDEL"):
        at = DelegationType.CAPACITY if kind == "CDEL" else DelegationType.LABEL
        ds = Delegations(atype=at)
        fm = {"single": DelegationFormat.SinglePool, "def": DelegationFormat.PoolDefinition,
              "ref": DelegationFormat.PoolReference}
        for e in vd:
            dl = Delegation(atype=at, delegation_id=e["id"], aformat=fm[e["format"]], pool_id=e["pool"])
            if e["details"] is not None:
                dl.set_details(Capacities(**e["details"]) if kind == "CDEL" else
                               make_kind_value("LABELS", e["details"]))
            ds.add_delegations(dl)
        return ds
    if kind == "RINFO":
        return ReservationInfo(**vd)
    if kind == "SINFO":
        return StructuralInfo(**{k: (list(x) if isinstance(x, list) else x) for k, x in vd.items()})
    if kind == "NODE_MAP":
        return tuple(vd)
    if kind == "TAGS":
        return Tags(*vd)
    if kind == "FLAGS":
        return Flags(**vd)
    if kind == "MF":
        return MeasurementData(_jsondata_arg(vd))
    if kind == "UD":
        return UserData(_jsondata_arg(vd))
    if kind == "LD":
        return LayoutData(_jsondata_arg(vd))
    if kind == "LOC":
        return Location(**vd)
    if kind == "MAINT":
        mi = MaintenanceInfo()
        for n, e in vd.items():
            mi.add(n, MaintenanceEntry(state=e["state"], deadline=e["deadline"], expected_end=e["expected_end"]))
        return mi
    if kind == "LAYER":
        return NSLayer[vd]
    if kind == "MDIR":
        return MirrorDirection[vd]
    if kind in ("ERO", "PATHINFO"):
        pt = PathRepresentationType[vd["type"]]
        o = ERO(pt, strict=vd["strict"]) if kind == "ERO" else PathInfo(pt)
        if vd["type"] == "Path":
            p = Path()
            p.set(a2z=list(vd["payload"]["a2z"]), z2a=list(vd["payload"]["z2a"]))
            o.set(p)
        else:
            o.set(vd["payload"])
        return o
    if kind == "GW":
        return Gateway(Labels(**vd))
    raise RuntimeError(f"E5: cannot build a value of kind {kind}")


def make_value(cls_key, prop, vd):
    return make_kind_value(PROP_KIND[cls_key][prop], vd, cls_key)


def build(desc):
    """real sliver objects from a description (fresh objects on every call)"""
    from fim.slivers.attached_components import AttachedComponentsInfo
    from fim.slivers.network_service import NetworkServiceInfo
    from fim.slivers.interface_info import InterfaceInfo
    check_table()
    key = desc["cls"]
    s = classes()[key]()
    s.node_id = desc["node_id"]
    s.set_name(desc["name"])
    if desc.get("type") is not None:
        s.set_type(type_enums()[key][desc["type"]])
    for p in sorted(desc["props"]):
        s.set_property(p, make_value(key, p, desc["props"][p]))
    if desc.get("components"):
        aci = AttachedComponentsInfo()
        for c in desc["components"]:
            aci.add_device(build(c))
        s.attached_components_info = aci
    if desc.get("services"):
        nsi = NetworkServiceInfo()
        for c in desc["services"]:
            nsi.add_network_service(build(c))
        if key == "component":
            s.set_network_service_info(nsi)
        else:
            s.network_service_info = nsi
    if desc.get("interfaces"):
        ii = InterfaceInfo()
        for c in desc["interfaces"]:
            ii.add_interface(build(c))
        s.interface_info = ii
    return s


# ----------------------------------------------------------------------------------------------------------------
# canonical forms
# ----------------------------------------------------------------------------------------------------------------
def canon_value(v):
    """field-wise canonical JSON-able form of a property value; absent is exactly None"""
    import enum
    import ipaddress
    import datetime
    from fim.slivers.capacities_labels import JSONField, Flags
    from fim.slivers.delegations import Delegations
    from fim.slivers.tags import Tags
    from fim.slivers.json_data import JSONData
    from fim.slivers.gateway import Gateway
    from fim.slivers.path_info import PathInfo, ERO, Path
    from fim.slivers.maintenance_mode import MaintenanceInfo
    if v is None or isinstance(v, (bool, int, float, str)):
        return v
    if isinstance(v, Flags):
        return {"__t": "Flags", "f": {k: v.__dict__[k] for k in sorted(v.__dict__)}}
    if isinstance(v, JSONField):
        # the library's absence convention (§1.9): None and 0 fields are "not set"; nothing set = absent
        f = {k: (list(x) if isinstance(x, (list, tuple)) else x) for k, x in sorted(v.__dict__.items())
             if x is not None and not (isinstance(x, (int, float)) and not isinstance(x, bool) and x == 0)}
        return {"__t": type(v).__name__, "f": f} if f else None
    if isinstance(v, Delegations):
        return {"__t": "Delegations", "type": v.type.name,
                "d": {k: [x.get_format().name, x.get_pool_name(), canon_value(x.get_details())]
                      for k, x in sorted(v.delegations.items())}}
    if isinstance(v, Tags):
        return {"__t": "Tags", "l": list(v.tags)}
    if isinstance(v, JSONData):
        return {"__t": type(v).__name__, "data": v.data}
    if isinstance(v, enum.Enum):
        return {"__t": type(v).__name__, "n": v.name}
    if isinstance(v, (ipaddress.IPv4Address, ipaddress.IPv6Address)):
        return {"__t": "ip", "a": str(v)}
    if isinstance(v, (tuple, list)):
        return [canon_value(x) for x in v]
    if isinstance(v, Gateway):
        return {"__t": "Gateway", "subnet": v.subnet, "gateway": v.gateway, "mac": v.mac}
    if isinstance(v, PathInfo):
        pl = v.payload
        if isinstance(pl, Path):
            pl = {"a2z": canon_value(pl.a2z), "z2a": canon_value(pl.z2a)}
        d = {"__t": type(v).__name__, "type": v.type.name if v.type is not None else None, "payload": pl}
        if isinstance(v, ERO):
            d["strict"] = v.strict
        return d
    if isinstance(v, MaintenanceInfo):
        def dt(x):
            return x.isoformat() if isinstance(x, datetime.datetime) else x
        return {"__t": "MaintenanceInfo",
                "e": {n: [e.state.name if e.state is not None else None, dt(e.deadline), dt(e.expected_end)]
                      for n, e in sorted(v.list_details())}}
    raise TypeError(f"E5 canon_value: unexpected value type {type(v).__name__}")


def canon_prop(prop, v):
    """canon_value with the per-property normalisation: management_ip may be given as text"""
    import ipaddress
    if prop == "management_ip" and isinstance(v, str):
        v = ipaddress.ip_address(v)
    if prop == "node_map" and v is not None:
        return list(v)
    return canon_value(v)


def cls_key_of(sliver):
    for k, c in classes().items():
        if type(sliver) is c:
            return k
    raise TypeError(f"E5: not one of the five sliver classes: {type(sliver).__name__}")


def children_of(sliver):
    """{"components": [...], "services": [...], "interfaces": [...]} of a real sliver (absent container = [])"""
    out = {}
    aci = getattr(sliver, "attached_components_info", None)
    if hasattr(sliver, "attached_components_info"):
        out["components"] = list(aci.devices.values()) if aci is not None else []
    if hasattr(sliver, "network_service_info"):
        nsi = sliver.network_service_info
        out["services"] = list(nsi.network_services.values()) if nsi is not None else []
    if hasattr(sliver, "interface_info"):
        ii = sliver.interface_info
        out["interfaces"] = list(ii.interfaces.values()) if ii is not None else []
    return out


def canon_sliver(sliver, with_ids=True):
    """canonical tree: children sorted by name, every settable property by canon_prop"""
    key = cls_key_of(sliver)
    d = {"cls": key, "props": {}}
    if with_ids:
        d["node_id"] = sliver.node_id
    for p in sorted(PROP_KIND[key]):
        if PROP_KIND[key][p] == "STRUCT":
            continue
        d["props"][p] = canon_prop(p, sliver.get_property(p))
    for k, lst in children_of(sliver).items():
        d[k] = sorted((canon_sliver(c, with_ids) for c in lst), key=lambda x: json.dumps(x["props"]["name"]))
    return d


def diff_canon(a, b, path=()):
    """list of (path, what, a-value, b-value) differences between two canon_sliver trees; path is a tuple of
    (container, child name) steps from the root"""
    out = []
    if a.get("node_id") != b.get("node_id"):
        out.append((path, "node_id", a.get("node_id"), b.get("node_id")))
    for p in a["props"]:
        if a["props"][p] != b["props"].get(p):
            out.append((path, p, a["props"][p], b["props"].get(p)))
    for k in CHILD_KEYS:
        if k not in a and k not in b:
            continue
        an = {c["props"]["name"]: c for c in a.get(k, [])}
        bn = {c["props"]["name"]: c for c in b.get(k, [])}
        for n in sorted(set(an) - set(bn)):
            out.append((path, f"{k}:lost", n, None))
        for n in sorted(set(bn) - set(an)):
            out.append((path, f"{k}:extra", None, n))
        for n in sorted(set(an) & set(bn)):
            out.extend(diff_canon(an[n], bn[n], path + ((k, n),)))
    return out


CONTAINER_CLS = {"components": "component", "services": "service", "network_services": "service",
                 "interfaces": "interface"}


def path_cls(path, root_cls):
    """class key of the element a diff path points at"""
    return CONTAINER_CLS[path[-1][0]] if path else root_cls


def path_str(path):
    return "/" + "/".join(f"{k}[{n}]" for k, n in path)
