"""
E4: topology programs - op-list generator + interpreter for ExperimentTopology / SubstrateTopology, snapshots of the
underlying model and an ownership traversal written independently of fim (DESIGN.md §2, Appendix B).

A program is a list of op dicts. Element references are integers resolved modulo the current live list of the
relevant kind (sorted by node id, which is creation order because uuid4 is replaced by a counter), so every list
is executable and deleting ops while shrinking keeps the program meaningful.  "h": 0/1 chooses the stored handle
(returned by the creating call) or a freshly looked-up one.
"""
import json
import uuid as _uuid

from hypothesis import strategies as st
from fimverif.engines import store

SITES = ["RENC", "UKY", "LBNL"]
NODE_TYPES = ["VM", "Container", "Server", "Switch", "NAS"]
# (ComponentType name, model) for all 13 catalogue entries
MODELS = [("GPU", "RTX6000"), ("GPU", "Tesla T4"), ("GPU", "A40"), ("GPU", "A30"), ("SharedNIC", "ConnectX-6"),
          ("SmartNIC", "BlueField-2-ConnectX-6"), ("SmartNIC", "ConnectX-6"), ("SmartNIC", "ConnectX-5"),
          ("SharedNIC", "OpenStack-vNIC"), ("NVME", "P4510"), ("Storage", "NAS"), ("FPGA", "Xilinx-U280"),
          ("FPGA", "Xilinx-SN1022")]
MODEL_PORTS = {4: 1, 5: 2, 6: 2, 7: 2, 8: 1, 11: 2, 12: 2}
SERVICE_TYPES = ["P4", "MPLS", "OVS", "L2Path", "L2STS", "L2PTP", "L2Multisite", "L2Bridge", "FABNetv4", "FABNetv6",
                 "PortMirror", "L3VPN", "VLAN", "FABNetv4Ext", "FABNetv6Ext"]
TOP_SERVICE_TYPES = [t for t in SERVICE_TYPES if t != "PortMirror"]
IF_TYPES = ["AccessPort", "TrunkPort", "DedicatedPort", "SharedPort", "vInt", "StitchPort", "FacilityPort"]
LINK_TYPES = ["Patch", "L1Path", "L2Path"]
RES_STATES = ["Active", "Failed", "Closed"]

CLS_NODE, CLS_COMP, CLS_NS, CLS_CP, CLS_LINK = "NetworkNode", "Component", "NetworkService", "ConnectionPoint", "Link"
HAS, CONNECTS = "has", "connects"


# ---------------------------------------------------------------------------------------------- deterministic uuid
class _UuidCounter:
    def __init__(self):
        self.n = 0

    def __call__(self):
        self.n += 1
        return _uuid.UUID(int=(0x4000 << 64) | (0x8000 << 48) | self.n, version=None)


_real_uuid4 = _uuid.uuid4


def install_uuid():
    _uuid.uuid4 = _UuidCounter()


def restore_uuid():
    _uuid.uuid4 = _real_uuid4


# ---------------------------------------------------------------------------------------------- snapshots
class Snap:
    """Independent view of one stored graph: nodes {id: props}, adj {id: {nbr: relation}}."""

    def __init__(self, graph_model):
        self.gid = graph_model.graph_id
        nxg = store.observe_storage(graph_model.storage, self.gid)
        self.nodes, self.adj, self.problems = {}, {}, []
        self.edge_props = {}
        if nxg is None:
            return
        idmap = {}
        for n, d in nxg.nodes(data=True):
            nid = d.get("NodeID")
            if nid in self.nodes:
                self.problems.append(f"duplicate NodeID {nid!r}")
                nid = f"{nid}<dup {n}>"
            idmap[n] = nid
            self.nodes[nid] = dict(d)
            self.adj[nid] = {}
        for a, b, d in nxg.edges(data=True):
            self.adj[idmap[a]][idmap[b]] = d.get("Class")
            self.adj[idmap[b]][idmap[a]] = d.get("Class")
            self.edge_props["\x00".join(sorted([str(idmap[a]), str(idmap[b])]))] = dict(d)

    # -- generic accessors
    def cls(self, i):
        return self.nodes[i].get("Class")

    def typ(self, i):
        return self.nodes[i].get("Type")

    def name(self, i):
        return self.nodes[i].get("Name")

    def ids(self, cls=None, typ=None):
        return sorted(i for i, d in self.nodes.items()
                      if (cls is None or d.get("Class") == cls) and (typ is None or d.get("Type") == typ))

    def nbrs(self, i, rel=None, cls=None):
        return sorted(j for j, r in self.adj.get(i, {}).items()
                      if (rel is None or r == rel) and (cls is None or self.cls(j) == cls))

    # -- FIM structure (written from the documentation, not from fim code)
    def owner_of_component(self, c):
        return [j for j in self.nbrs(c, HAS) if self.cls(j) in (CLS_NODE, "CompositeNode")]

    def owner_of_service(self, s):
        return [j for j in self.nbrs(s, HAS) if self.cls(j) in (CLS_NODE, CLS_COMP, "CompositeNode")]

    def services_of(self, x):
        return self.nbrs(x, HAS, CLS_NS)

    def components_of(self, n):
        return self.nbrs(n, HAS, CLS_COMP)

    def is_sub(self, cp):
        return self.typ(cp) == "SubInterface"

    def parent_cp(self, cp):
        """parent interface(s) of a sub-interface"""
        return [j for j in self.nbrs(cp, CONNECTS, CLS_CP) if not self.is_sub(j)] if self.is_sub(cp) else []

    def children_cp(self, cp):
        return [j for j in self.nbrs(cp, CONNECTS, CLS_CP) if self.is_sub(j)] if not self.is_sub(cp) else []

    def service_of_cp(self, cp):
        return self.nbrs(cp, CONNECTS, CLS_NS)

    def cps_of_service(self, s):
        return self.nbrs(s, CONNECTS, CLS_CP)

    def links_of_cp(self, cp):
        return self.nbrs(cp, CONNECTS, CLS_LINK)

    def ends_of_link(self, l):
        return self.nbrs(l, CONNECTS, CLS_CP)

    def peers_of_cp(self, cp):
        return sorted({e for l in self.links_of_cp(cp) for e in self.ends_of_link(l) if e != cp})

    def top_services(self):
        return [s for s in self.ids(CLS_NS) if not self.owner_of_service(s)]

    def owned_services(self):
        return [s for s in self.ids(CLS_NS) if self.owner_of_service(s)]

    def node_side_cps(self):
        """interfaces that belong (through an owned service, or as a sub-interface of such) to a node"""
        out = []
        for cp in self.ids(CLS_CP):
            if self.typ(cp) == "ServicePort":
                continue
            if self.owner_node_of_cp(cp):
                out.append(cp)
        return out

    def owner_node_of_cp(self, cp):
        base = cp
        if self.is_sub(cp):
            ps = self.parent_cp(cp)
            if len(ps) != 1:
                return None
            base = ps[0]
        svcs = self.service_of_cp(base)
        if len(svcs) != 1:
            return None
        o = self.owner_of_service(svcs[0])
        if len(o) != 1:
            return None
        if self.cls(o[0]) == CLS_COMP:
            oo = self.owner_of_component(o[0])
            return oo[0] if len(oo) == 1 else None
        return o[0]

    def owned(self, x):
        """x and everything reachable downwards through ownership"""
        out = {x}
        c = self.cls(x)
        if c in (CLS_NODE, "CompositeNode"):
            for comp in self.components_of(x):
                out |= self.owned(comp)
            for s in self.services_of(x):
                out |= self.owned(s)
        elif c == CLS_COMP:
            for s in self.services_of(x):
                out |= self.owned(s)
        elif c == CLS_NS:
            for cp in self.cps_of_service(x):
                out |= self.owned(cp)
        elif c == CLS_CP:
            for ch in self.children_cp(x):
                out.add(ch)
        return out

    def canon(self):
        """comparable content: (nodes with all props, edges with props)"""
        return {"nodes": {i: {k: store._tv(v) for k, v in d.items() if k != "GraphID"}
                          for i, d in self.nodes.items()},
                "edges": {k: {p: store._tv(v) for p, v in d.items()} for k, d in self.edge_props.items()},
                "problems": sorted(self.problems)}


def diff_snap(a, b, limit=5):
    out = []
    ca, cb = a.canon(), b.canon()
    for i in sorted(set(ca["nodes"]) - set(cb["nodes"])):
        out.append(f"node {i} [{a.cls(i)}/{a.typ(i)} {a.name(i)!r}] only before")
    for i in sorted(set(cb["nodes"]) - set(ca["nodes"])):
        out.append(f"node {i} [{b.cls(i)}/{b.typ(i)} {b.name(i)!r}] only after")
    for i in sorted(set(ca["nodes"]) & set(cb["nodes"])):
        if ca["nodes"][i] != cb["nodes"][i]:
            ks = [k for k in set(ca["nodes"][i]) | set(cb["nodes"][i]) if ca["nodes"][i].get(k) != cb["nodes"][i].get(k)]
            out.append(f"node {i} [{a.cls(i)} {a.name(i)!r}] props differ: {sorted(ks)}")
    for k in sorted(set(ca["edges"]) ^ set(cb["edges"])):
        out.append(f"edge {k.split(chr(0))} only {'before' if k in ca['edges'] else 'after'}")
    return out[:limit]


# ---------------------------------------------------------------------------------------------- property values
def mk_value(pname, desc):
    """JSON description -> real property value"""
    from fim.slivers.capacities_labels import Capacities, Labels, ReservationInfo, Flags, CapacityHints, Location
    from fim.slivers.json_data import UserData, MeasurementData, LayoutData
    from fim.slivers.tags import Tags
    if desc is None:
        return None
    if pname in ("capacities", "capacity_allocations"):
        return Capacities(**desc)
    if pname in ("labels", "label_allocations", "peer_labels"):
        return Labels(**desc)
    if pname == "reservation_info":
        return ReservationInfo(**desc)
    if pname == "flags":
        return Flags(**desc)
    if pname == "capacity_hints":
        return CapacityHints(**desc)
    if pname == "location":
        return Location(**desc)
    if pname == "user_data":
        return UserData(desc)
    if pname == "mf_data":
        return MeasurementData(desc)
    if pname == "layout_data":
        return LayoutData(desc)
    if pname == "tags":
        return Tags(*desc)
    return desc


def mk_kwargs(props):
    """keyword properties in the order given; a key 'raw:<name>' passes its value to the API as it is
    (used for invalid values the API itself must reject)"""
    out = {}
    for k, v in (props or {}).items():
        if k.startswith("raw:"):
            out[k[4:]] = v
        else:
            out[k] = mk_value(k, v)
    return out


# ---------------------------------------------------------------------------------------------- interpreter
class Skip(Exception):
    """the op's precondition (Appendix B) is not met in the current state: skipped and counted"""


class Interp:
    """exclude: names of known-finding regions the interpreter steers around (exclusion by construction, counted
    in self.excluded):
      "rename-collide"    a rename to a name already used in the scope is given a fresh name instead
      "dangling-sp"       removals that are known to leave a peering ServicePort behind (a connected sub-interface
                          below the removed element, or a ServicePort peered with another service) are skipped
      "artefact-name"     interfaces whose library-generated peering names (<owner node>-<interface name>) would
                          collide with an existing peering artefact are not offered for connection
    """

    def __init__(self, flavour, importer=None, exclude=()):
        from fim.user.topology import ExperimentTopology, SubstrateTopology
        self.exclude = frozenset(exclude)
        self.excluded = {}
        self.flavour = flavour
        store.reset_stores()
        install_uuid()
        self.topo = ExperimentTopology(importer=importer) if flavour == "experiment" else \
            SubstrateTopology(importer=importer)
        self.handles = {}
        self.made_links = set()
        self.n = 0
        self.skipped = 0

    def close(self):
        restore_uuid()

    def snap(self):
        return Snap(self.topo.graph_model)

    # ---- names / ids
    def fresh(self, prefix):
        self.n += 1
        return f"{prefix}{self.n}"

    def name_of(self, spec, prefix, s, cls=None):
        if spec is None or spec[0] == "fresh":
            return self.fresh(prefix)
        if spec[0] == "lit":
            return spec[1]
        if spec[0] == "long":
            # a legal name close to the 255-character limit: names the library derives from it
            # ('<node>-<interface>', '...-link', '<facility>-ns') may cross the limit in a later call
            base = self.fresh(prefix)
            return base + "x" * max(0, int(spec[1]) - len(base))
        pool = s.ids(cls) if cls else sorted(s.nodes)
        if not pool:
            return self.fresh(prefix)
        # even k count from the oldest element, odd k from the newest (small k are what generators and shrinking
        # prefer; elements made late - facilities, switches, peering artefacts - must be reachable too)
        k = spec[1]
        return s.name(pool[(k // 2) % len(pool)] if k % 2 == 0 else pool[-1 - (k // 2) % len(pool)])

    def id_of(self, spec, s, force=False):
        if spec is None:
            return self.fresh("id-") if (force and self.flavour == "substrate") else None
        if spec[0] == "fresh":
            return self.fresh("id-")
        if spec[0] == "none":
            return None
        pool = sorted(s.nodes)
        if not pool:
            return self.fresh("id-")
        return pool[spec[1] % len(pool)]

    @staticmethod
    def pick(pool, k):
        if not pool:
            raise Skip()
        return pool[k % len(pool)]

    # ---- handles
    def handle(self, nid, s, h=1):
        """element handle for node id nid: stored one (h=0, if we have it) or freshly constructed (h=1)"""
        from fim.user.node import Node
        from fim.user.component import Component
        from fim.user.network_service import NetworkService, PortMirrorService
        from fim.user.interface import Interface
        from fim.user.link import Link
        if h == 0 and nid in self.handles:
            return self.handles[nid]
        c, nm = s.cls(nid), s.name(nid)
        if c == CLS_NODE:
            return Node(name=nm, node_id=nid, topo=self.topo)
        if c == CLS_COMP:
            return Component(name=nm, node_id=nid, topo=self.topo)
        if c == CLS_NS:
            if s.typ(nid) == "PortMirror":
                return PortMirrorService(name=nm, node_id=nid, topo=self.topo)
            return NetworkService(name=nm, node_id=nid, topo=self.topo)
        if c == CLS_CP:
            return Interface(name=nm, node_id=nid, topo=self.topo)
        if c == CLS_LINK:
            return Link(name=nm, node_id=nid, topo=self.topo)
        raise Skip()

    def remember(self, el):
        if el is not None and getattr(el, "node_id", None) is not None:
            self.handles[el.node_id] = el
            # the ports a component / facility / switch came with: their handles are kept as well (the "older handle"
            # of a port, whose cached child list goes stale when another handle adds or removes a sub-interface)
            try:
                ports = list(el.interface_list) if type(el).__name__ in ("Component", "Node") else []
            except Exception:
                ports = []
            for i in ports:
                if getattr(i, "node_id", None) is not None and i.node_id not in self.handles:
                    self.handles[i.node_id] = i
        return el

    # ---- live lists used to resolve references
    @staticmethod
    def real_nodes(s):
        return [n for n in s.ids(CLS_NODE)]

    @staticmethod
    def compute_nodes(s):
        return [n for n in s.ids(CLS_NODE) if s.typ(n) not in ("Facility", "Switch")]

    def free_cps(self, s):
        out = [cp for cp in s.node_side_cps() if not s.links_of_cp(cp)]
        if "artefact-name" in self.exclude:
            taken = {s.name(l) for l in s.ids(CLS_LINK)}
            keep = []
            for cp in out:
                o = s.owner_node_of_cp(cp)
                if o is not None and f"{s.name(o)}-{s.name(cp)}-link" in taken:
                    self._excl("artefact-name")
                    continue
                keep.append(cp)
            out = keep
        return out

    @staticmethod
    def connected_cps(s):
        return [cp for cp in s.node_side_cps() if any(s.typ(p) == "ServicePort" for p in s.peers_of_cp(cp))]

    @staticmethod
    def peering(s):
        """pairs of services (top-level or owned by a node) joined ServicePort-Link-ServicePort"""
        out = []
        for a in s.ids(CLS_NS):
            for cp in s.cps_of_service(a):
                if s.typ(cp) != "ServicePort":
                    continue
                for p in s.peers_of_cp(cp):
                    if s.typ(p) == "ServicePort":
                        for b in s.service_of_cp(p):
                            if b != a:
                                out.append((a, b))
        return sorted(set(out))

    def ghost_interface(self):
        """a valid Interface handle that belongs to ANOTHER topology (another graph in the same store)"""
        if getattr(self, "_ghost", None) is None:
            from fim.user.topology import ExperimentTopology
            from fim.slivers.component_catalog import ComponentModelType
            other = ExperimentTopology(importer=self.topo.graph_model.importer)
            n = other.add_node(name="ghostnode", site="RENC")
            n.add_component(name="ghostnic", model_type=ComponentModelType.SmartNIC_ConnectX_6)
            self._ghost_topo = other
            self._ghost = n.interface_list[0]
        return self._ghost

    def _excl(self, name):
        self.excluded[name] = self.excluded.get(name, 0) + 1

    def guard_dangling(self, s, targets, direct=False):
        """known finding 'dangling-sp': skip a removal that would leave a peering ServicePort behind.
        direct=True: the removal path does not even disconnect direct interfaces (node-level service removal, prune)"""
        if "dangling-sp" not in self.exclude:
            return
        owned = set()
        for t in targets:
            owned |= s.owned(t)
        for x in owned:
            if s.cls(x) != CLS_CP:
                continue
            if (s.is_sub(x) or (direct and s.typ(x) != "ServicePort")) and \
                    any(s.typ(p) == "ServicePort" for p in s.peers_of_cp(x)):
                self._excl("dangling-sp")
                raise Skip()
            if s.typ(x) == "ServicePort" and any(s.typ(p) == "ServicePort" for p in s.peers_of_cp(x)):
                self._excl("dangling-sp")
                raise Skip()

    # ---- one step
    def apply(self, op):
        """Execute one op. Returns {"skipped": bool, "raised": exception or None, "info": {...}}.
        info carries what the oracle modules need (addressed element ids etc.)."""
        s = self.snap()
        info = {"op": op["op"]}
        try:
            fn = getattr(self, "op_" + op["op"])
        except AttributeError:
            raise RuntimeError(f"unknown op {op['op']}")
        try:
            fn(op, s, info)
        except Skip:
            self.skipped += 1
            return {"skipped": True, "raised": None, "info": info}
        except Exception as e:       # the library rejected the call: data for the oracles
            return {"skipped": False, "raised": e, "info": info}
        return {"skipped": False, "raised": None, "info": info}

    # ---- building ops
    def op_add_node(self, op, s, info):
        from fim.slivers.network_node import NodeType
        name = self.name_of(op.get("name"), "n", s, CLS_NODE)
        nid = self.id_of(op.get("id"), s, force=True)
        info.update(name=name, node_id=nid)
        kw = mk_kwargs(op.get("props"))
        ntype = None if op.get("ntype") is None else NodeType[op["ntype"]]
        site = op.get("site")
        args = dict(name=name, node_id=nid, site=site, **kw)
        if ntype is not None or op.get("ntype_none"):
            args["ntype"] = ntype
        self.remember(self.topo.add_node(**args))

    def op_add_component(self, op, s, info):
        from fim.slivers.attached_components import ComponentType
        from fim.slivers.component_catalog import ComponentModelType
        from fim.slivers.capacities_labels import Labels
        node = self.pick(self.real_nodes(s) if op.get("any_node") else (self.compute_nodes(s) or self.real_nodes(s)),
                         op["node"])
        info.update(parent=node)
        name = self.name_of(op.get("name"), "c", s, CLS_COMP)
        nid = self.id_of(op.get("id"), s, force=True)
        ctype, model = MODELS[op["model"] % len(MODELS)]
        kw = mk_kwargs(op.get("props"))
        if op.get("how") == "ctype_model":
            kw.update(ctype=ComponentType[ctype], model=op.get("model_lit") or model)
        elif op.get("how") == "mismatch":
            kw.update(ctype=ComponentType[MODELS[(op["model"] + 5) % len(MODELS)][0]], model=model)
        else:
            mt = [m for m in ComponentModelType if m.name.lower().replace("_", "") ==
                  (ctype + model).lower().replace("-", "").replace(" ", "").replace("_", "")]
            if not mt:
                mt = [m for m in ComponentModelType if str(m.value) == f"{ctype}:{model}" or
                      getattr(m, "value", None) == (ctype, model)]
            if not mt:
                kw.update(ctype=ComponentType[ctype], model=model)
            else:
                kw.update(model_type=mt[0])
        nports = MODEL_PORTS.get(op["model"] % len(MODELS), 0)
        if self.flavour == "substrate" and nports and not op.get("no_sub_ids"):
            kw.update(network_service_node_id=self.id_of(op.get("ns_id") or ["fresh"], s),
                      interface_node_ids=[self.fresh("id-") for _ in range(nports + op.get("if_ids_delta", 0))],
                      interface_labels=[Labels(bdf=f"0000:{40 + k:02x}:00.{k}", mac=f"0C:42:A1:EA:C7:{k:02X}")
                                        for k in range(nports + op.get("if_labels_delta", 0))])
        self.remember(self.handle(node, s, op.get("h", 1)).add_component(name=name, node_id=nid, **kw))

    def op_add_storage(self, op, s, info):
        node = self.pick(self.compute_nodes(s), op["node"])
        info.update(parent=node)
        name = self.name_of(op.get("name"), "st", s, CLS_COMP)
        self.remember(self.handle(node, s, op.get("h", 1)).add_storage(
            name=name, node_id=self.id_of(op.get("id"), s), **mk_kwargs(op.get("props"))))

    def op_add_facility(self, op, s, info):
        from fim.slivers.network_service import ServiceType
        name = self.name_of(op.get("name"), "fac", s, CLS_NODE)
        nid = self.id_of(op.get("id"), s, force=True)
        info.update(name=name, node_id=nid)
        kw = mk_kwargs(op.get("props"))
        ifs = op.get("ifs")
        if ifs is not None:
            kw["interfaces"] = [(self.name_of(i.get("name"), "fp", s, CLS_CP), mk_value("labels", i.get("labels")),
                                 mk_value("capacities", i.get("caps"))) for i in ifs]
        if op.get("nstype"):
            kw["nstype"] = ServiceType[op["nstype"]]
        self.remember(self.topo.add_facility(name=name, node_id=nid, site=op.get("site"), **kw))

    def op_add_switch(self, op, s, info):
        name = self.name_of(op.get("name"), "sw", s, CLS_NODE)
        nid = self.id_of(op.get("id"), s, force=True)
        info.update(name=name, node_id=nid)
        kw = {}
        if op.get("portlabels") is not None:
            kw["portlabels"] = mk_value("labels", op["portlabels"])
        if op.get("portcaps") is not None:
            kw["portcapacities"] = mk_value("capacities", op["portcaps"])
        self.remember(self.topo.add_switch(name=name, node_id=nid, site=op.get("site"),
                                           nports=op.get("nports", 2), **kw))

    def _resolve_ifs(self, op, s):
        out = []
        for ref in op.get("ifs") or []:
            mode, k = ref[0], ref[1]
            if mode == "free":
                pool = [c for c in self.free_cps(s) if c not in [o[0] for o in out]]
            elif mode == "connected":
                pool = self.connected_cps(s)
            elif mode == "serviceport":
                pool = [c for c in s.ids(CLS_CP) if s.typ(c) == "ServicePort"]
            elif mode == "unowned":
                pool = [c for c in s.ids(CLS_CP) if c not in s.node_side_cps() and s.typ(c) != "ServicePort"]
            else:
                pool = s.node_side_cps()
            if not pool:
                continue
            out.append((pool[k % len(pool)], ref[2] if len(ref) > 2 else 1))
        return out

    def op_add_service(self, op, s, info):
        from fim.slivers.network_service import ServiceType
        name = self.name_of(op.get("name"), "ns", s, CLS_NS)
        nid = self.id_of(op.get("id"), s)
        ifs = self._resolve_ifs(op, s)
        info.update(name=name, node_id=nid, ifs=[i for i, _ in ifs])
        kw = mk_kwargs(op.get("props"))
        if op.get("site"):
            kw["site"] = op["site"]
        nstype = ServiceType[op["nstype"]] if op.get("nstype") else None
        handles = [self.handle(i, s, h) for i, h in ifs]
        if op.get("foreign_if"):
            # an interface object for an element that is not in this model (C09 fault), at position k
            handles.insert(min(op["foreign_if"] - 1, len(handles)), self.ghost_interface())
        self.remember(self.topo.add_network_service(name=name, node_id=nid, nstype=nstype,
                                                    interfaces=handles if (handles or op.get("ifs") is not None)
                                                    else None, **kw))

    def op_add_mirror(self, op, s, info):
        from fim.slivers.network_service import MirrorDirection
        if self.flavour != "experiment":
            raise Skip()
        pool = self.connected_cps(s) if op.get("to_connected") else self.free_cps(s)
        to = self.pick(pool, op["to"])
        name = self.name_of(op.get("name"), "pm", s, CLS_NS)
        info.update(name=name, ifs=[to])
        port = op.get("port") or "p1"
        if isinstance(port, list):
            cps = s.node_side_cps()
            port = s.name(cps[port[1] % len(cps)]) if cps else "p1"
        self.remember(self.topo.add_port_mirror_service(
            name=name, node_id=self.id_of(op.get("id"), s), from_interface_name=port,
            from_interface_vlan=op.get("vlan"), to_interface=self.handle(to, s, op.get("h", 1)),
            direction=MirrorDirection[op.get("dir", "Both")], **mk_kwargs(op.get("props"))))

    def op_node_service(self, op, s, info):
        from fim.slivers.network_service import ServiceType
        node = self.pick(self.real_nodes(s), op["node"])
        info.update(parent=node)
        name = self.name_of(op.get("name"), "nns", s, CLS_NS)
        self.remember(self.handle(node, s, op.get("h", 1)).add_network_service(
            name=name, node_id=self.id_of(op.get("id"), s, force=True),
            nstype=ServiceType[op.get("nstype", "MPLS")], **mk_kwargs(op.get("props"))))

    def op_ns_add_interface(self, op, s, info):
        from fim.slivers.interface_info import InterfaceType
        svc = self.pick(s.owned_services(), op["svc"])
        info.update(parent=svc)
        name = self.name_of(op.get("name"), "if", s, CLS_CP)
        self.remember(self.handle(svc, s, op.get("h", 1)).add_interface(
            name=name, node_id=self.id_of(op.get("id"), s, force=True),
            itype=InterfaceType[op.get("itype", "TrunkPort")], **mk_kwargs(op.get("props"))))

    def op_add_link(self, op, s, info):
        from fim.slivers.network_link import LinkType
        pool = [c for c in s.ids(CLS_CP) if s.typ(c) != "ServicePort"]
        refs = [pool[k % len(pool)] for k in op.get("ifs", [])] if pool else []
        subs = [c for c in pool if s.is_sub(c)]
        if op.get("sub_end") and subs and refs:
            # one end is a sub-interface (a rarely used but legal end of a plain link)
            refs[0] = subs[op["ifs"][0] % len(subs)]
        refs = list(dict.fromkeys(refs))
        # a link never joins an interface with its own parent / sub-interface (not a meaningful topology)
        keep = []
        for c in refs:
            if not any(c in s.children_cp(o) or c in s.parent_cp(o) or
                       (s.parent_cp(c) and s.parent_cp(c) == s.parent_cp(o)) for o in keep):
                keep.append(c)          # (nor two sub-interfaces of one port: a loop-back on one physical port)
        refs = keep
        if len(refs) < 2 and not op.get("fault"):
            raise Skip()
        name = self.name_of(op.get("name"), "l", s, CLS_LINK)
        nid = self.id_of(op.get("id"), s, force=True)
        info.update(name=name, node_id=nid, ifs=refs)
        handles = [self.handle(i, s, 1) for i in refs]
        if op.get("repeat_at") is not None and len(refs) >= 2:
            # one of the interfaces is named twice in the list
            handles.insert(min(op["repeat_at"], len(handles)), self.handle(refs[0], s, 1))
        if op.get("ghost_at") is not None:
            handles.insert(min(op["ghost_at"], len(handles)), self.ghost_interface())
        l = self.topo.add_link(name=name, node_id=nid, ltype=LinkType[op.get("ltype", "Patch")] if op.get("ltype", "Patch")
                               else None, interfaces=handles, **mk_kwargs(op.get("props")))
        self.made_links.add(l.node_id)
        self.remember(l)

    def op_connect(self, op, s, info):
        svc = self.pick(s.top_services(), op["svc"])
        pool = self.connected_cps(s) if op.get("already") else self.free_cps(s)
        cp = self.pick(pool, op["if"])
        info.update(svc=svc, cp=cp)
        self.handle(svc, s, op.get("h", 1)).connect_interface(self.handle(cp, s, 1))

    def op_disconnect(self, op, s, info):
        cands = []
        for svc in s.top_services():
            for sp in s.cps_of_service(svc):
                if s.typ(sp) == "ServicePort":
                    for p in s.peers_of_cp(sp):
                        if s.typ(p) != "ServicePort":
                            cands.append((svc, p, sp))
        svc, cp, sp = self.pick(sorted(cands), op["k"])
        info.update(svc=svc, cp=cp, sp=sp)
        h = self.handle(svc, s, op.get("h", 1))
        info["handle"] = h
        h.disconnect_interface(self.handle(cp, s, 1))

    def op_peer(self, op, s, info):
        tops = s.top_services()
        if op.get("any"):
            # peer() accepts any two services: also those a facility, a switch or a node owns
            tops = tops + [x for x in s.owned_services() if s.cls(s.owner_of_service(x)[0]) == CLS_NODE]
        if len(tops) < (1 if op.get("self") else 2):
            raise Skip()
        a = tops[op["a"] % len(tops)]
        rest = [t for t in tops if t != a]
        b = a if op.get("self") else rest[op["b"] % len(rest)]      # (a service peered with itself: a fault)
        if (a, b) in self.peering(s):
            raise Skip()
        info.update(a=a, b=b)
        ha, hb = self.handle(a, s, op.get("h", 1)), self.handle(b, s, op.get("h", 1))
        info["handles"] = (ha, hb)
        ha.peer(hb, **mk_kwargs(op.get("props")))

    def op_unpeer(self, op, s, info):
        a, b = self.pick(self.peering(s), op["k"])
        info.update(a=a, b=b)
        ha, hb = self.handle(a, s, op.get("h", 1)), self.handle(b, s, op.get("h", 1))
        info["handles"] = (ha, hb)
        ha.unpeer(hb)

    def op_add_child(self, op, s, info):
        pool = [c for c in s.node_side_cps() if s.typ(c) == "DedicatedPort"]
        if op.get("need_local_name", True):
            pool2 = [c for c in pool if '"local_name"' in str(s.nodes[c].get("Labels", ""))]
            pool = pool2 or pool
        if (op.get("sibling_name") or op.get("again")) and any(s.children_cp(c) for c in pool):
            # steer to a port that already has sub-interfaces: a second, third ... child (again) or a refused namesake
            pool = [c for c in pool if s.children_cp(c)]
        cp = self.pick(pool, op["if"])
        info.update(parent=cp)
        name = self.name_of(op.get("name"), "sub", s, CLS_CP)
        if op.get("sibling_name") and s.children_cp(cp):
            # the name of a sub-interface this port already has (must be refused whichever handle is asked)
            name = s.name(s.children_cp(cp)[0])
        labels = None
        if op.get("vlan") is not None:
            labels = mk_value("labels", {"vlan": op["vlan"]})
        kw = mk_kwargs(op.get("props"))
        if labels is not None:
            kw["labels"] = labels
        h = self.handle(cp, s, op.get("h", 1))
        info["handle"] = h
        self.remember(h.add_child_interface(name=name, node_id=self.id_of(op.get("id"), s, force=True), **kw))

    def op_remove_child(self, op, s, info):
        pool = [(c, ch) for c in s.node_side_cps() for ch in s.children_cp(c)]
        cp, ch = self.pick(sorted(pool), op["k"])
        info.update(parent=cp, target=ch)
        self.guard_dangling(s, [ch])
        h = self.handle(cp, s, op.get("h", 1))
        info["handle"] = h
        name = s.name(ch)
        if op.get("rename_first"):
            # the sub-interface is renamed through ANOTHER (fresh) handle first, then removed under its current name
            name = self.fresh("rn")
            self.handle(ch, s, 1).rename(name)
        h.remove_child_interface(name=name)

    def op_stale_call(self, op, s, info):
        """a building call made through a handle whose element has been removed from the model since (C09 fault)"""
        from fim.user.node import Node
        from fim.user.network_service import NetworkService
        from fim.user.interface import Interface
        from fim.slivers.network_service import ServiceType
        from fim.slivers.interface_info import InterfaceType
        from fim.slivers.component_catalog import ComponentModelType
        gone = sorted(i for i in self.handles if i not in s.nodes)
        if not gone:
            raise Skip()
        h = self.handles[gone[op["k"] % len(gone)]]
        info.update(stale=h.node_id)
        if isinstance(h, NetworkService):
            if op.get("what") == "add_interface":
                h.add_interface(name=self.fresh("if"), node_id=self.id_of(None, s, force=True), itype=InterfaceType.TrunkPort)
            else:
                cp = self.pick(self.free_cps(s), op.get("if", 0))
                h.connect_interface(self.handle(cp, s, 1))
        elif isinstance(h, Node):
            if op.get("what") == "node_service":
                h.add_network_service(name=self.fresh("nns"), node_id=self.id_of(None, s, force=True),
                                      nstype=ServiceType.MPLS)
            else:
                h.add_component(name=self.fresh("c"), node_id=self.id_of(None, s, force=True),
                                model_type=ComponentModelType.GPU_Tesla_T4)
        elif isinstance(h, Interface):
            h.add_child_interface(name=self.fresh("sub"), node_id=self.id_of(None, s, force=True),
                                  labels=mk_value("labels", {"vlan": "777"}))
        else:
            raise Skip()

    # ---- removal ops
    def op_remove_node(self, op, s, info):
        n = self.pick([x for x in s.ids(CLS_NODE) if s.typ(x) != "Facility"], op["k"])
        info.update(target=n)
        self.guard_dangling(s, [n])
        self.topo.remove_node(name=s.name(n))

    def op_remove_component(self, op, s, info):
        c = self.pick(s.ids(CLS_COMP), op["k"])
        owner = s.owner_of_component(c)
        if len(owner) != 1:
            raise Skip()
        info.update(target=c, parent=owner[0])
        self.guard_dangling(s, [c])
        h = self.handle(owner[0], s, op.get("h", 1))
        if s.typ(c) == "Storage" and op.get("as_storage"):
            h.remove_storage(name=s.name(c))
        else:
            h.remove_component(name=s.name(c))

    def op_remove_facility(self, op, s, info):
        n = self.pick(s.ids(CLS_NODE, "Facility"), op["k"])
        info.update(target=n)
        self.guard_dangling(s, [n])
        self.topo.remove_facility(name=s.name(n))

    def op_remove_switch(self, op, s, info):
        n = self.pick(s.ids(CLS_NODE, "Switch"), op["k"])
        info.update(target=n)
        self.guard_dangling(s, [n])
        self.topo.remove_switch(name=s.name(n))

    def op_remove_service(self, op, s, info):
        svc = self.pick(s.top_services(), op["k"])
        info.update(target=svc)
        self.guard_dangling(s, [svc])
        self.topo.remove_network_service(name=s.name(svc))

    def op_remove_node_service(self, op, s, info):
        pool = [x for x in s.owned_services() if s.cls(s.owner_of_service(x)[0]) == CLS_NODE]
        svc = self.pick(pool, op["k"])
        owner = s.owner_of_service(svc)[0]
        info.update(target=svc, parent=owner)
        self.guard_dangling(s, [svc], direct=True)
        self.handle(owner, s, op.get("h", 1)).remove_network_service(name=s.name(svc))

    def op_remove_link(self, op, s, info):
        l = self.pick(sorted(x for x in self.made_links if x in s.nodes), op["k"])
        info.update(target=l)
        self.topo.remove_link(name=s.name(l))

    def op_remove_interface(self, op, s, info):
        if self.flavour != "substrate":
            raise Skip()
        pool = [(svc, cp) for svc in s.owned_services() for cp in s.cps_of_service(svc)]
        svc, cp = self.pick(sorted(pool), op["k"])
        info.update(target=cp, parent=svc)
        self.guard_dangling(s, [cp])
        h = self.handle(svc, s, op.get("h", 1))
        info["handle"] = h
        h.remove_interface(name=s.name(cp))

    # ---- misc ops
    def _element(self, op, s):
        kind = op.get("kind", "node")
        pool = {"node": s.ids(CLS_NODE), "component": s.ids(CLS_COMP), "service": s.ids(CLS_NS),
                "interface": s.ids(CLS_CP), "link": s.ids(CLS_LINK)}[kind]
        return self.pick(pool, op["k"])

    def op_rename(self, op, s, info):
        e = self._element(op, s)
        scope_cls = s.cls(e)
        spec = op.get("name")
        if "rename-collide" in self.exclude and spec and spec[0] == "dup":
            self._excl("rename-collide")
            spec = ["fresh"]
        new = self.name_of(spec, "rn", s, scope_cls)
        info.update(target=e, new_name=new)
        h = self.handle(e, s, op.get("h", 1))
        if op.get("via") == "setter":
            h.name = new
        else:
            h.rename(new)

    def op_set_prop(self, op, s, info):
        e = self._element(op, s)
        info.update(target=e)
        self.handle(e, s, op.get("h", 1)).set_property(op["pname"], mk_value(op["pname"], op.get("val")))

    def op_unset_prop(self, op, s, info):
        e = self._element(op, s)
        info.update(target=e)
        self.handle(e, s, op.get("h", 1)).unset_property(op["pname"])

    def op_validate(self, op, s, info):
        self.topo.validate()

    def op_serialize_load(self, op, s, info):
        from fim.graph.abc_property_graph import GraphFormat
        if not s.nodes:
            raise Skip()
        text = self.topo.serialize(fmt=GraphFormat.JSON_NODELINK if op.get("fmt") == "json" else GraphFormat.GRAPHML)
        self.topo.load(graph_string=text)
        self.handles.clear()

    def op_prune(self, op, s, info):
        if self.flavour != "experiment":
            raise Skip()
        state = op.get("state", "Failed")
        self.guard_dangling(s, [i for i, d in s.nodes.items()
                                if f'"reservation_state": "{state}"' in str(d.get("ReservationInfo", ""))], direct=True)
        self.topo.prune(reservation_state=state)


# ---------------------------------------------------------------------------------------------- generators
_k = st.integers(0, 7)
_h = st.integers(0, 1)
_site = st.sampled_from(SITES)
_name_fresh = st.just(["fresh"])
# mostly short fresh names, now and then a legal name close to the length limit
name_fresh_or_long = st.one_of(*([st.just(["fresh"])] * 7),
                               st.builds(lambda n: ["long", n], st.sampled_from([230, 244, 247, 249, 250, 251, 253, 255])))
_name_any = st.one_of(st.just(["fresh"]), st.just(["fresh"]), st.just(["fresh"]), st.builds(lambda k: ["dup", k], _k))
_id_spec = st.one_of(st.none(), st.none(), st.just(["fresh"]))

_caps = st.fixed_dictionaries({}, optional={"core": st.integers(1, 64), "ram": st.integers(1, 512),
                                            "disk": st.integers(1, 1000), "bw": st.integers(1, 100)})
_labels = st.fixed_dictionaries({}, optional={"vlan": st.sampled_from(["100", "200", "3000"]),
                                              "local_name": st.sampled_from(["p1", "p2", "HundredGigE0/0/0/1"]),
                                              "ipv4": st.just("192.168.1.1"),
                                              "mac": st.just("00:11:22:33:44:55")})
_resinfo = st.fixed_dictionaries({"reservation_state": st.sampled_from(RES_STATES)},
                                 optional={"reservation_id": st.just("rid-1")})
_node_props = st.fixed_dictionaries({}, optional={
    "capacities": _caps, "labels": _labels, "reservation_info": _resinfo,
    "boot_script": st.sampled_from(["#!/bin/sh\necho hi", "x"]),
    "user_data": st.sampled_from([{"a": 1}, {"k": ["x", "y"]}]),
    "tags": st.sampled_from([["blue"], ["a-b", "c_d"]]),
    "management_ip": st.sampled_from(["10.1.2.3", "fe80::1"]),
    "flags": st.just({"auto_config": True}),
})
_small_props = st.fixed_dictionaries({}, optional={"capacities": _caps, "labels": _labels,
                                                   "reservation_info": _resinfo,
                                                   "user_data": st.sampled_from([{"a": 1}, {"b": "c"}])})


def op_add_node(names=_name_fresh, ids=_id_spec):
    return st.fixed_dictionaries({"op": st.just("add_node"), "name": names, "site": _site,
                                  "ntype": st.sampled_from(NODE_TYPES + ["VM", "VM", "Server"]), "id": ids,
                                  "props": _node_props})


def op_add_component(names=_name_fresh, ids=_id_spec):
    return st.fixed_dictionaries({"op": st.just("add_component"), "node": _k, "name": names,
                                  "model": st.integers(0, 12), "how": st.sampled_from(["model_type", "ctype_model"]),
                                  "id": ids, "props": _small_props, "h": _h})


def op_add_storage(names=_name_fresh):
    return st.fixed_dictionaries({"op": st.just("add_storage"), "node": _k, "name": names,
                                  "props": st.fixed_dictionaries({}, optional={
                                      "labels": st.just({"local_name": "volume1"})}), "h": _h})


def op_add_facility(names=_name_fresh, ids=_id_spec):
    ifs = st.one_of(st.none(), st.none(), st.lists(st.fixed_dictionaries(
        {"name": st.just(["fresh"]), "labels": st.one_of(st.none(), _labels), "caps": st.one_of(st.none(), _caps)}),
        min_size=1, max_size=3))
    return st.fixed_dictionaries({"op": st.just("add_facility"), "name": names, "site": _site, "id": ids, "ifs": ifs,
                                  "props": st.fixed_dictionaries({}, optional={"capacities": _caps,
                                                                               "labels": _labels})})


def op_add_switch(names=_name_fresh, ids=_id_spec):
    return st.fixed_dictionaries({"op": st.just("add_switch"), "name": names, "site": _site, "id": ids,
                                  "nports": st.integers(1, 3)})


def _ifrefs(max_n=4, modes=("free", "free", "free", "any")):
    return st.lists(st.tuples(st.sampled_from(modes), _k, _h).map(list), max_size=max_n)


def op_add_service(names=_name_fresh):
    return st.fixed_dictionaries({"op": st.just("add_service"), "name": names,
                                  "nstype": st.sampled_from(TOP_SERVICE_TYPES), "ifs": _ifrefs(),
                                  "site": st.one_of(st.none(), st.none(), _site), "id": _id_spec,
                                  "props": st.fixed_dictionaries({}, optional={
                                      "capacities": _caps, "labels": _labels, "reservation_info": _resinfo})})


def op_add_mirror(names=_name_fresh):
    return st.fixed_dictionaries({"op": st.just("add_mirror"), "name": names,
                                  "port": st.one_of(st.just("p1"), st.builds(lambda k: ["cp", k], _k)),
                                  "vlan": st.one_of(st.none(), st.just("100")),
                                  "dir": st.sampled_from(["Both", "RX_Only", "TX_Only"]), "to": _k, "h": _h})


def op_node_service(names=_name_fresh, ids=_id_spec):
    return st.fixed_dictionaries({"op": st.just("node_service"), "node": _k, "name": names,
                                  "nstype": st.sampled_from(["MPLS", "VLAN", "OVS", "P4"]), "id": ids, "h": _h})


def op_ns_add_interface(names=_name_fresh, ids=_id_spec):
    return st.fixed_dictionaries({"op": st.just("ns_add_interface"), "svc": _k, "name": names,
                                  "itype": st.sampled_from(IF_TYPES), "id": ids, "h": _h,
                                  "props": st.fixed_dictionaries({}, optional={"capacities": _caps,
                                                                               "labels": _labels})})


def op_add_link(names=_name_fresh, ids=_id_spec):
    return st.fixed_dictionaries({"op": st.just("add_link"), "name": names, "ltype": st.sampled_from(LINK_TYPES),
                                  "ifs": st.lists(_k, min_size=2, max_size=3), "id": ids,
                                  "sub_end": st.sampled_from([False, False, True])})


op_connect = st.fixed_dictionaries({"op": st.just("connect"), "svc": _k, "if": _k, "h": _h})
op_disconnect = st.fixed_dictionaries({"op": st.just("disconnect"), "k": _k, "h": _h})
op_peer = st.fixed_dictionaries({"op": st.just("peer"), "a": _k, "b": _k, "h": _h,
                                 "any": st.sampled_from([False, False, True]),
                                 "props": st.fixed_dictionaries({}, optional={"labels": _labels,
                                                                              "capacities": _caps})})
op_unpeer = st.fixed_dictionaries({"op": st.just("unpeer"), "k": _k, "h": _h})


def op_add_child(names=_name_fresh, ids=_id_spec):
    return st.fixed_dictionaries({"op": st.just("add_child"), "if": _k, "name": names,
                                  "vlan": st.sampled_from(["100", "200", "300", "400"]), "id": ids, "h": _h,
                                  "sibling_name": st.sampled_from([False] * 4 + [True]),
                                  "again": st.sampled_from([False, False, True])})


op_remove_child = st.fixed_dictionaries({"op": st.just("remove_child"), "k": _k, "h": _h})


def _rm(name, **extra):
    d = {"op": st.just(name), "k": _k, "h": _h}
    d.update(extra)
    return st.fixed_dictionaries(d)


REMOVALS = ["remove_node", "remove_component", "remove_facility", "remove_switch", "remove_service",
            "remove_node_service", "remove_link", "remove_interface", "remove_child", "disconnect", "unpeer"]


def op_rename(names=_name_fresh):
    return st.fixed_dictionaries({"op": st.just("rename"), "kind": st.sampled_from(
        ["node", "component", "service", "interface", "link"]), "k": _k, "name": names, "h": _h,
        "via": st.sampled_from(["rename", "rename", "setter"])})


_setprop = st.one_of(
    st.tuples(st.just("capacities"), _caps), st.tuples(st.just("labels"), _labels),
    st.tuples(st.just("reservation_info"), _resinfo), st.tuples(st.just("details"), st.just("some details")),
    st.tuples(st.just("user_data"), st.sampled_from([{"a": 1}, {"z": [1, 2]}])),
    st.tuples(st.just("tags"), st.sampled_from([["t1"], ["t1", "t2"]])))
op_set_prop = st.builds(lambda kind, k, pv, h: {"op": "set_prop", "kind": kind, "k": k, "pname": pv[0], "val": pv[1],
                                                "h": h},
                        st.sampled_from(["node", "component", "service", "interface", "link"]), _k, _setprop, _h)
op_unset_prop = st.fixed_dictionaries({"op": st.just("unset_prop"), "kind": st.sampled_from(
    ["node", "component", "service", "interface", "link"]), "k": _k,
    "pname": st.sampled_from(["capacities", "labels", "details", "user_data", "tags", "reservation_info"]),
    "h": _h})
op_validate = st.just({"op": "validate"})
op_serialize_load = st.fixed_dictionaries({"op": st.just("serialize_load"), "fmt": st.sampled_from(["graphml", "json"])})
op_prune = st.fixed_dictionaries({"op": st.just("prune"), "state": st.sampled_from(RES_STATES)})


def any_op(flavour, names=_name_fresh, ids=_id_spec, removals=True, weights=None):
    """one op of the alphabet, weighted so that programs build structure first"""
    w = {"add_node": 8, "add_component": 9, "add_storage": 1, "add_facility": 2, "add_switch": 2, "add_service": 8,
         "add_mirror": 2, "node_service": 2, "ns_add_interface": 3, "add_link": 2, "connect": 6, "disconnect": 2,
         "peer": 2, "unpeer": 1, "add_child": 4, "remove_child": 1, "rename": 2, "set_prop": 3, "unset_prop": 1,
         "validate": 1, "serialize_load": 1, "prune": 1,
         "remove_node": 1, "remove_component": 1, "remove_facility": 1, "remove_switch": 1, "remove_service": 1,
         "remove_node_service": 1, "remove_link": 1, "remove_interface": 1}
    if flavour == "experiment":
        w.update(add_link=0, remove_link=0, remove_interface=0, node_service=1, ns_add_interface=1)
    else:
        w.update(add_storage=0, add_mirror=0, prune=0, add_link=5, ns_add_interface=5, node_service=3)
    if not removals:
        for r in REMOVALS:
            w[r] = 0
    w.update(weights or {})
    table = {
        "add_node": op_add_node(names, ids), "add_component": op_add_component(names, ids),
        "add_storage": op_add_storage(names), "add_facility": op_add_facility(names, ids),
        "add_switch": op_add_switch(names, ids), "add_service": op_add_service(names), "add_mirror": op_add_mirror(names),
        "node_service": op_node_service(names, ids), "ns_add_interface": op_ns_add_interface(names, ids),
        "add_link": op_add_link(names, ids), "connect": op_connect, "disconnect": op_disconnect, "peer": op_peer,
        "unpeer": op_unpeer, "add_child": op_add_child(names, ids), "remove_child": op_remove_child,
        "rename": op_rename(names), "set_prop": op_set_prop, "unset_prop": op_unset_prop, "validate": op_validate,
        "serialize_load": op_serialize_load, "prune": op_prune,
        "remove_node": _rm("remove_node"), "remove_component": _rm("remove_component", as_storage=st.booleans()),
        "remove_facility": _rm("remove_facility"), "remove_switch": _rm("remove_switch"),
        "remove_service": _rm("remove_service"), "remove_node_service": _rm("remove_node_service"),
        "remove_link": _rm("remove_link"), "remove_interface": _rm("remove_interface"),
    }
    names_w = [n for n, k in w.items() for _ in range(k)]
    return st.sampled_from(names_w).flatmap(lambda n: table[n])


@st.composite
def program(draw, flavour, max_ops=25, names=_name_fresh, ids=_id_spec, removals=True, weights=None, min_ops=3):
    """structured prefix (two nodes with NIC components and a service) + generated suffix"""
    pre = []
    if draw(st.integers(0, 4)) > 0:
        pre = [{"op": "add_node", "name": ["fresh"], "site": draw(_site), "ntype": "VM", "id": None, "props": {}},
               {"op": "add_component", "node": 0, "name": ["fresh"], "model": draw(st.sampled_from([4, 5, 6, 7, 11])),
                "how": "model_type", "id": None, "props": {}, "h": draw(_h)},
               {"op": "add_node", "name": ["fresh"], "site": draw(_site), "ntype": draw(st.sampled_from(["VM", "Server"])),
                "id": None, "props": {}},
               {"op": "add_component", "node": 1, "name": ["fresh"], "model": draw(st.sampled_from([5, 6, 8, 12])),
                "how": "ctype_model", "id": None, "props": {}, "h": draw(_h)}]
    ops = draw(st.lists(any_op(flavour, names, ids, removals, weights), min_size=min_ops, max_size=max_ops))
    return pre + ops
