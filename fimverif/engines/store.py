"""
E2: raw typed property graphs as data, loader through the public add_node/add_link calls, and canonical
snapshots of stored graphs read directly from the store's networkx structures (never containing internal integer ids).

raw graph description (JSON-able):
    {"nodes": [{"id": str, "cls": str, "props": {name: value}}], "edges": [{"a": i, "b": j, "rel": str,
     "props": {...}}]}          (a, b are indices into nodes)
"""

GRAPH_ID = "GraphID"
NODE_ID = "NodeID"
CLASS = "Class"


def reset_stores():
    """Fresh singletons: cases never share library state."""
    from fim.graph import networkx_property_graph as npg
    from fim.graph import networkx_property_graph_disjoint as npgd
    npg.NetworkXGraphStorage.storage_instance = None
    npgd.NetworkXGraphStorageDisjoint.storage_instance = None


def make_importer(flavour):
    from fim.graph.networkx_property_graph import NetworkXGraphImporter
    from fim.graph.networkx_property_graph_disjoint import NetworkXGraphImporterDisjoint
    if flavour == "shared":
        return NetworkXGraphImporter()
    if flavour == "disjoint":
        return NetworkXGraphImporterDisjoint()
    raise ValueError(flavour)


def graph_handle(imp, gid):
    return imp.graph_class(graph_id=gid, importer=imp)


def load_raw(g, desc):
    """Load a raw description into graph handle g through add_node/add_link."""
    for n in desc["nodes"]:
        g.add_node(node_id=n["id"], label=n["cls"], props=dict(n.get("props") or {}))
    for e in desc["edges"]:
        a, b = desc["nodes"][e["a"]]["id"], desc["nodes"][e["b"]]["id"]
        g.add_link(node_a=a, rel=e["rel"], node_b=b, props=dict(e.get("props") or {}) or None)


def _tv(v):
    """typed value: the Python type is part of the content"""
    if isinstance(v, bool):
        return ["bool", v]
    if isinstance(v, int):
        return ["int", str(v)]
    if isinstance(v, float):
        return ["float", repr(v)]
    if isinstance(v, str):
        return ["str", v]
    if v is None:
        return ["none", None]
    if isinstance(v, (list, tuple)):
        return ["list", [_tv(x) for x in v]]
    return [type(v).__name__, repr(v)]


def canon_nx(nxg, expect_gid=None):
    """Canonical form of an extracted nx graph: (nodes, edges, problems).
    nodes: {NodeID: {"Class":..., "GraphID":..., "props": {name: typed value}}}
    edges: {"a\\x00b" (sorted NodeIDs): {"Class":..., "props": {...}}}
    problems: list of strings (duplicate NodeID, missing NodeID, foreign GraphID)"""
    nodes, edges, problems = {}, {}, []
    idmap = {}
    for n, d in nxg.nodes(data=True):
        nid = d.get(NODE_ID)
        if nid is None:
            problems.append("node-without-NodeID")
            nid = f"<internal {n}>"
        if nid in nodes:
            problems.append("duplicate-NodeID")
            nid = f"{nid}<dup {n}>"
        idmap[n] = nid
        if expect_gid is not None and d.get(GRAPH_ID) != expect_gid:
            problems.append("foreign-GraphID")
        nodes[nid] = {"Class": d.get(CLASS), "GraphID": d.get(GRAPH_ID),
                      "props": {k: _tv(v) for k, v in d.items() if k not in (NODE_ID, CLASS, GRAPH_ID)}}
    for a, b, d in nxg.edges(data=True):
        if a not in idmap or b not in idmap:
            problems.append("edge-to-foreign-node")
            continue
        key = "\x00".join(sorted([str(idmap[a]), str(idmap[b])]))
        edges[key] = {"Class": d.get(CLASS), "props": {k: _tv(v) for k, v in d.items() if k != CLASS}}
    return nodes, edges, problems


def observe(imp, gid):
    return observe_storage(imp.storage, gid)


def observe_storage(storage, gid):
    """The nodes of graph gid and the edges among them, read straight from the store's networkx structures (an
    observer that does not go through the library's own extract_graph and takes no store lock); None when absent."""
    import networkx as nx
    held = storage.graphs
    if isinstance(held, nx.Graph):          # shared store: one graph, members selected by their GraphID property
        members = [n for n, d in held.nodes(data=True) if d.get(GRAPH_ID) == gid]
        if not members:
            return None
        inside = set(members)
        out = nx.Graph()
        for n in members:
            out.add_node(n, **dict(held.nodes[n]))
        for a, b, d in held.edges(members, data=True):
            if a in inside and b in inside:
                out.add_edge(a, b, **dict(d))
        return out
    if gid not in held:                     # per-graph store: a mapping id -> graph (membership test creates nothing)
        return None
    return held[gid].copy()


def canon(imp, gid, with_gid=False):
    """Canonical snapshot of graph gid in importer imp's store, or None when the graph has no nodes."""
    nxg = observe(imp, gid)
    if nxg is None or len(nxg.nodes) == 0:
        return None
    nodes, edges, problems = canon_nx(nxg, expect_gid=gid)
    if not with_gid:
        for d in nodes.values():
            d.pop("GraphID", None)
    return {"nodes": nodes, "edges": edges, "problems": sorted(set(problems))}


def canon_desc(desc):
    """Canonical form of a raw description (what canon() must give after load_raw)."""
    nodes = {n["id"]: {"Class": n["cls"], "props": {k: _tv(v) for k, v in (n.get("props") or {}).items()}}
             for n in desc["nodes"]}
    edges = {}
    for e in desc["edges"]:
        a, b = desc["nodes"][e["a"]]["id"], desc["nodes"][e["b"]]["id"]
        edges["\x00".join(sorted([a, b]))] = {"Class": e["rel"],
                                             "props": {k: _tv(v) for k, v in (e.get("props") or {}).items()}}
    return {"nodes": nodes, "edges": edges, "problems": []}


def diff_canon(a, b, limit=4):
    """Human-readable first differences between two canon() results."""
    if a is None or b is None:
        return [f"one side absent: {a is None} vs {b is None}"] if (a is None) != (b is None) else []
    out = []
    for part in ("nodes", "edges"):
        ka, kb = set(a[part]), set(b[part])
        for k in sorted(ka - kb):
            out.append(f"{part[:-1]} {k!r} only in first")
        for k in sorted(kb - ka):
            out.append(f"{part[:-1]} {k!r} only in second")
        for k in sorted(ka & kb):
            if a[part][k] != b[part][k]:
                x, y = a[part][k], b[part][k]
                if x.get("Class") != y.get("Class"):
                    out.append(f"{part[:-1]} {k!r} Class {x.get('Class')!r} != {y.get('Class')!r}")
                px, py = x.get("props", {}), y.get("props", {})
                for p in sorted(set(px) | set(py)):
                    if px.get(p) != py.get(p):
                        out.append(f"{part[:-1]} {k!r} prop {p!r}: {px.get(p)!r} != {py.get(p)!r}")
    if a.get("problems") != b.get("problems"):
        out.append(f"problems {a.get('problems')} != {b.get('problems')}")
    return out[:limit]


def internal_ids(imp, flavour):
    """All (graph key, internal id) pairs in the store and the multiset of (GraphID, NodeID) identities."""
    st = imp.storage
    ids, idents = [], []
    if flavour == "shared":
        for n, d in st.graphs.nodes(data=True):
            ids.append(n)
            idents.append((d.get(GRAPH_ID), d.get(NODE_ID)))
    else:
        for gid in sorted(st.graphs.keys(), key=str):
            for n, d in st.graphs[gid].nodes(data=True):
                ids.append((gid, n))
                idents.append((d.get(GRAPH_ID), d.get(NODE_ID)))
    return ids, idents
