"""
E8: deterministic scheduler for store operations (DESIGN.md §2, §C20).

* InstrumentedLock replaces storage.lock: records acquire/release, raises like threading.Lock on a release while
  unlocked, and - under a Scheduler - parks a thread that would block instead of blocking the process.
* Scheduler runs N worker callables as real threads of which exactly one is runnable at a time; every 'line' trace
  event inside the two store source files is a yield point.  A schedule is a list of [global step number, thread
  index] preemptions: at that yield point control moves to that thread (if it can run).  Without preemptions a
  thread runs until it finishes or parks on the lock, then the lowest-numbered runnable thread continues.  A run is
  therefore a pure function of (programs, schedule): it shrinks and replays exactly.
"""
import sys
import threading

STORE_FILES = ("networkx_property_graph.py", "networkx_property_graph_disjoint.py")


class Abort(BaseException):
    """raised inside worker threads to unwind a run that deadlocked"""


class InstrumentedLock:
    def __init__(self, sched=None):
        self.sched = sched
        self.owner = None
        self.acquired = 0
        self.released = 0
        self.errors = []            # ("release-unlocked" | "self-deadlock", thread)

    def _me(self):
        return self.sched.tid() if self.sched is not None else 0

    def acquire(self, blocking=True, timeout=-1):
        me = self._me()
        while self.owner is not None:
            if self.sched is None or self.owner == me:
                # nobody else can ever release it: the caller would block forever
                self.errors.append(("self-deadlock", me))
                raise RuntimeError("harness: lock is still held (a previous call never released it)")
            self.sched.park(me)
        self.owner = me
        self.acquired += 1
        return True

    def release(self):
        if self.owner is None:
            self.errors.append(("release-unlocked", self._me()))
            raise RuntimeError("release unlocked lock")
        self.owner = None
        self.released += 1
        if self.sched is not None:
            self.sched.unpark_all()

    def locked(self):
        return self.owner is not None

    def __enter__(self):
        self.acquire()
        return self

    def __exit__(self, *a):
        self.release()


class Scheduler:
    def __init__(self, n, preempt):
        self.n = n
        self.preempt = {int(s): int(t) for s, t in preempt}
        self.cv = threading.Condition()
        self.state = ["ready"] * n            # ready | parked | done
        self.current = 0
        self.step = 0
        self.steps_of = [0] * n
        self.preemptions_done = 0
        self.deadlock = False
        self.abort = False
        self.trace = []                       # (step, from, to) context switches
        self._tids = {}
        self.errors = [None] * n

    def tid(self):
        return self._tids.get(threading.get_ident(), 0)

    # -- called with self.cv held
    def _runnable(self):
        return [i for i in range(self.n) if self.state[i] == "ready"]

    def _switch(self, me, to):
        if to != me:
            self.trace.append((self.step, me, to))
        self.current = to
        self.cv.notify_all()

    def _wait_turn(self, me):
        while self.current != me and not self.abort:
            self.cv.wait()
        if self.abort:
            raise Abort()

    def yield_point(self, me):
        with self.cv:
            if self.abort:
                raise Abort()
            self.step += 1
            self.steps_of[me] += 1
            to = self.preempt.get(self.step)
            if to is not None and to != me and to < self.n and self.state[to] == "ready":
                self.preemptions_done += 1
                self._switch(me, to)
                self._wait_turn(me)

    def park(self, me):
        with self.cv:
            self.state[me] = "parked"
            r = self._runnable()
            if not r:
                self.deadlock = True
                self.abort = True
                self.cv.notify_all()
                raise Abort()
            self._switch(me, r[0])
            self._wait_turn(me)

    def unpark_all(self):
        with self.cv:
            for i in range(self.n):
                if self.state[i] == "parked":
                    self.state[i] = "ready"

    def finish(self, me):
        with self.cv:
            self.state[me] = "done"
            r = self._runnable()
            if r:
                self._switch(me, r[0])
            elif any(s == "parked" for s in self.state):
                self.deadlock = True
                self.abort = True
                self.cv.notify_all()
            else:
                self.cv.notify_all()

    def run(self, workers):
        """workers: list of callables; returns when all have finished (or the run was aborted)"""
        def tracer_for(me):
            def local(frame, event, arg):
                if event == "line":
                    self.yield_point(me)
                return local

            def glob(frame, event, arg):
                if event == "call":
                    if frame.f_code.co_filename.endswith(STORE_FILES):
                        return local
                    back = frame.f_back
                    if back is not None and back.f_code.co_filename.endswith(STORE_FILES) and \
                            "/networkx/" in frame.f_code.co_filename.replace("\\", "/"):
                        # entry of a networkx function called from a store line - e.g. the graph factory behind
                        # `self.graphs[graph_id]`: a preemption point INSIDE that store line. Callbacks of the query
                        # package (its filter lambdas run once per scanned node) are left alone: cutting into the
                        # unlocked read-only scan of add_node's existence check is the check-then-act window that
                        # is outside C20's statement
                        self.yield_point(me)
                return None
            return glob

        def body(me, fn):
            self._tids[threading.get_ident()] = me
            try:
                with self.cv:
                    self._wait_turn(me)
                sys.settrace(tracer_for(me))
                try:
                    fn()
                finally:
                    sys.settrace(None)
            except Abort:
                pass
            except BaseException as e:      # harness problem inside a worker
                self.errors[me] = e
            finally:
                self.finish(me)

        ts = [threading.Thread(target=body, args=(i, w), daemon=True) for i, w in enumerate(workers)]
        for t in ts:
            t.start()
        for t in ts:
            t.join(timeout=30)
        if any(t.is_alive() for t in ts):
            with self.cv:
                self.abort = True
                self.cv.notify_all()
            for t in ts:
                t.join(timeout=5)
            raise RuntimeError("harness: scheduler run did not terminate")
        for e in self.errors:
            if e is not None:
                raise e
