"""
E6 - substrate / ARM generator (DESIGN.md §2), shared by C13 and C14 (and usable by C12 / C01).

A *description* is plain JSON data:

    {"gid": "arm-0",
     "nodes": [{"id": NodeID, "cls": Class, "props": {name: str, ...},      # props as stored in the graph
                "ld": {delegation-id: entry}, "cd": {delegation-id: entry}}, # optional; library JSON shape
               ...],
     "edges": [[NodeID, relation, NodeID], ...]}

    entry = {"pool_id": "_", "labels"|"capacities": {...}}        single-resource delegation
          | {"pool_id": "<pool>", "labels"|"capacities": {...}}   pool definition
          | {"pool": "<pool>"}                                    pool reference

Strategies: `substrate(...)` (an aggregate model with multi-delegation annotations), `adm_family(...)`
(site delegation models + a network delegation model sharing stitch nodes).
`build(desc, importer)` loads a description through the public add_node/add_link interface,
`canon(graph)` gives the canonical snapshot, `decode_delegations(text)` an independent decoder of the
delegation JSON (absence convention of DESIGN §1.9).
"""
import json

from hypothesis import strategies as st

DEL_IDS = ["primary", "del2", "del3"]
P_LD = "LabelDelegations"
P_CD = "CapacityDelegations"
P_SI = "StructuralInfo"
ABSENT = (None, "", "None")

# --------------------------------------------------------------------------------------------- values
_CAP_MENU = {
    "Server": [{"core": 32, "cpu": 2, "disk": 100000, "ram": 512, "unit": 1}, {"core": 4, "ram": 16, "unit": 1},
               {"cpu": 1, "core": 64, "ram": 1024, "disk": 3000, "unit": 1}],
    "Component": [{"unit": 1}, {"disk": 1000, "unit": 1}, {"unit": 4}],
    "Port": [{"bw": 100, "unit": 1}, {"bw": 25}, {"unit": 4}, {"bw": 10, "mtu": 1500}],
    "Service": [{"unit": 1}, {"bw": 100}],
    "Switch": [{"unit": 1}, {"bw": 1000, "unit": 1}],
}
_LAB_MENU = {
    "Server": [{"local_name": "host"}, {"device_name": "srv", "local_type": "rack"}],
    "Component": [{"bdf": "0000:21:00.0"}, {"bdf": ["0000:e2:00.2", "0000:e2:00.3"]}, {"usb_id": "1234:abcd"}],
    "Port": [{"local_name": "p1", "mac": "04:3F:72:B7:15:74", "vlan_range": "1-4096"}, {"vlan_range": "1-100"},
             {"mac": ["04:3F:72:B7:14:ED", "04:3F:72:B7:14:EE"], "vlan": ["1001", "1002"],
              "local_name": ["p1", "p1"]}, {"local_name": "HundredGigE0/0/0/5"}],
    "Service": [{"vlan_range": "1-100"}, {"ipv4_range": "192.168.1.1-192.168.1.255", "vlan_range": "100-200"},
                {"asn": "12345", "ipv4_subnet": "10.100.10.1/16"}],
    "Switch": [{"local_name": "sw"}, {"device_name": "dp"}],
}


def _jd(d):
    return json.dumps(d)


class _B:
    """description builder used inside the strategies"""

    def __init__(self, draw, gid):
        self.draw = draw
        self.gid = gid
        self.nodes = []
        self.edges = []
        self.kind = {}       # node id -> menu kind (only for nodes eligible for delegations)
        self.index = {}

    def node(self, nid, cls, typ, name, kind=None, stitch=False, site=None, extra=None, own_caps=True):
        props = {"Name": name, "Type": typ, "StitchNode": "true" if stitch else "false"}
        if site is not None:
            props["Site"] = site
        if kind is not None and own_caps:
            # the element's own Capacities / Labels (non-delegation properties that must survive partitioning)
            if self.draw(st.integers(0, 2)) > 0:
                props["Capacities"] = _jd(self.draw(st.sampled_from(_CAP_MENU[kind])))
            if self.draw(st.integers(0, 2)) == 0:
                props["Labels"] = _jd(self.draw(st.sampled_from(_LAB_MENU[kind])))
        if extra:
            props.update(extra)
        n = {"id": nid, "cls": cls, "props": props}
        self.index[nid] = n
        self.nodes.append(n)
        if kind is not None:
            self.kind[nid] = kind
        return nid

    def edge(self, a, rel, b):
        self.edges.append([a, rel, b])

    def desc(self):
        return {"gid": self.gid, "nodes": self.nodes, "edges": self.edges}


def _site(b, s, site_name, trunks, p4=None, facility=None, sw_delegable=False, max_workers=3, max_comps=3):
    """one site: workers (+components, NIC services and ports), data-plane switch with MPLS service,
    patch links server-port<->switch-port, `trunks` trunk ports (stitch nodes), optional P4 switch / facility.
    Returns (switch id, ns id, [trunk port ids])."""
    draw = b.draw
    sw = b.node(f"{s}-sw", "NetworkNode", "Switch", f"{site_name}-data-sw", stitch=True, site=site_name,
                kind="Switch" if sw_delegable else None, extra={"Model": "NCS 55A1-36H"}, own_caps=False)
    ns = b.node(f"{s}-sw-ns", "NetworkService", "MPLS", f"{site_name}-data-sw-ns", site=site_name,
                kind="Service" if sw_delegable else None, extra={"Layer": "L2"}, own_caps=False)
    b.edge(sw, "has", ns)
    nswp = [0]

    def patch(port, ltype="Patch"):
        k = nswp[0]
        nswp[0] += 1
        swp = b.node(f"{s}-sw-p{k}", "ConnectionPoint", "TrunkPort", f"{site_name}-swp{k}", kind="Port")
        lnk = b.node(f"{port}-lnk", "Link", ltype, f"l{k}", extra={"Layer": "L2"})
        b.edge(ns, "connects", swp)
        b.edge(port, "connects", lnk)
        b.edge(lnk, "connects", swp)

    for w in range(draw(st.integers(1, max_workers))):
        wid = b.node(f"{s}-w{w}", "NetworkNode", "Server", f"{site_name}-w{w}", kind="Server", site=site_name,
                     extra={"Model": "R7525"})
        for c in range(draw(st.integers(0, max_comps))):
            ctype = draw(st.sampled_from(["SmartNIC", "SharedNIC", "GPU", "NVME", "SmartNIC"]))
            cid = b.node(f"{wid}-c{c}", "Component", ctype, f"{site_name}-w{w}-{ctype.lower()}{c}", kind="Component",
                         extra={"Model": "ConnectX-6" if ctype.endswith("NIC") else "X1"})
            b.edge(wid, "has", cid)
            if ctype.endswith("NIC"):
                cns = b.node(f"{cid}-ns", "NetworkService", "OVS", f"{cid}-l2ovs", site=site_name,
                             extra={"Layer": "L2"})
                b.edge(cid, "has", cns)
                for p in range(1 if ctype == "SharedNIC" else draw(st.integers(1, 2))):
                    pid = b.node(f"{cid}-p{p}", "ConnectionPoint",
                                 "SharedPort" if ctype == "SharedNIC" else "DedicatedPort", f"{cid}-p{p}", kind="Port")
                    b.edge(cns, "connects", pid)
                    if draw(st.integers(0, 4)) > 0:       # most NIC ports are patched to the switch
                        patch(pid)
    if p4 if p4 is not None else draw(st.integers(0, 3)) == 0:
        p4n = b.node(f"{s}-p4", "NetworkNode", "Switch", f"{site_name}-p4", kind="Switch", site=site_name)
        p4ns = b.node(f"{s}-p4-ns", "NetworkService", "P4", f"{site_name}-p4-ns", site=site_name, extra={"Layer": "L2"})
        b.edge(p4n, "has", p4ns)
        for p in range(draw(st.integers(1, 2))):
            pid = b.node(f"{s}-p4-p{p}", "ConnectionPoint", "DedicatedPort", f"{site_name}-p4-p{p}", kind="Port")
            b.edge(p4ns, "connects", pid)
            patch(pid)
    if facility if facility is not None else draw(st.integers(0, 3)) == 0:
        fn = b.node(f"{s}-fac", "NetworkNode", "Facility", f"{site_name}-DTN", kind="Switch", site=site_name)
        fns = b.node(f"{s}-fac-ns", "NetworkService", "VLAN", f"{site_name}-DTN-ns", site=site_name,
                     extra={"Layer": "L2"})
        fp = b.node(f"{s}-fac-int", "ConnectionPoint", "FacilityPort", f"{site_name}-DTN-int", kind="Port")
        b.edge(fn, "has", fns)
        b.edge(fns, "connects", fp)
        patch(fp, "L2Path")
    tps = []
    for t in range(trunks):
        tp = b.node(f"{s}-sw-t{t}", "ConnectionPoint", "TrunkPort", f"HundredGigE0/0/0/{t}", stitch=True,
                    kind="Port" if sw_delegable else None, own_caps=False)
        b.edge(ns, "connects", tp)
        tps.append(tp)
    return sw, ns, tps


def _entry(draw, kind, typ, fmt="single", pool=None):
    if fmt == "ref":
        return {"pool": pool}
    det = draw(st.sampled_from(_LAB_MENU[kind] if typ == "L" else _CAP_MENU[kind]))
    return {"pool_id": "_" if fmt == "single" else pool, ("labels" if typ == "L" else "capacities"): det}


def _annotate(b, ids, mode, multi_id, max_pools=2):
    """write "ld"/"cd" onto eligible nodes. Shapes are those the API can produce: per node and type either pool
    entries (definition / reference, distinct delegation ids) or single entries (1..n ids)."""
    draw = b.draw
    elig = [n["id"] for n in b.nodes if n["id"] in b.kind]
    speaker = {}                        # single-speaker mode: node -> its only delegation id
    dels = {}                           # (node, "L"|"C") -> {id: entry}
    pooled = set()
    if len(elig) >= 2:
        for k in range(draw(st.integers(0, max_pools))):
            typ = draw(st.sampled_from(["L", "C"]))
            d = draw(st.sampled_from(ids))
            members = draw(st.lists(st.sampled_from(elig), min_size=2, max_size=4, unique=True))
            pool = f"pool{k}"
            first = True
            for m in members:
                if not multi_id and speaker.setdefault(m, d) != d:
                    continue
                cur = dels.setdefault((m, typ), {})
                if d in cur:
                    continue
                cur[d] = _entry(draw, b.kind[m], typ, "def" if first else "ref", pool)
                pooled.add((m, typ))
                first = False
    kinds = {"mixed": ["none", "L", "C", "LC", "LC"], "all-both": ["none", "LC", "LC", "LC"],
             "sparse": ["none", "none", "none", "L", "C", "LC"]}[mode]
    for m in elig:
        k = draw(st.sampled_from(kinds))
        if k == "none":
            continue
        if multi_id and draw(st.integers(0, 3)) == 0 and len(ids) > 1:
            mine = draw(st.lists(st.sampled_from(ids), min_size=2, max_size=len(ids), unique=True))
        else:
            mine = [speaker.get(m) or draw(st.sampled_from(ids))]
        if not multi_id:
            speaker.setdefault(m, mine[0])
        for typ in ("L", "C"):
            if typ not in k or (m, typ) in pooled:
                continue
            # in multi-id mode the two kinds of one node need not name the same ids
            use = mine if not multi_id or draw(st.integers(0, 4)) > 0 else [draw(st.sampled_from(ids))]
            dels[(m, typ)] = {d: _entry(draw, b.kind[m], typ) for d in use}
    if mode == "all-both":              # every delegated node gets both kinds (pool members included)
        for (m, typ) in sorted(dels):
            other = "C" if typ == "L" else "L"
            if (m, other) not in dels:
                dels[(m, other)] = {d: _entry(draw, b.kind[m], other) for d in sorted(dels[(m, typ)])}
    for (m, typ), v in sorted(dels.items()):
        if v:
            b.index[m]["ld" if typ == "L" else "cd"] = v


@st.composite
def substrate(draw, max_sites=2, max_ids=3, multi_id=True, modes=("mixed", "mixed", "mixed", "all-both", "sparse"),
              gid="arm-0", max_workers=3, max_comps=3):
    """aggregate model (ARM) description with multi-delegation annotations"""
    b = _B(draw, gid)
    nsites = draw(st.integers(1, max_sites))
    ids = DEL_IDS[:draw(st.integers(1, max_ids))]
    mode = draw(st.sampled_from(list(modes)))
    sw_delegable = draw(st.integers(0, 3)) == 0     # stitch elements normally carry no delegations in a site ARM
    sites = []
    for i in range(nsites):
        s = "ab"[i]
        sites.append(_site(b, s, ["RENC", "UKY"][i], trunks=draw(st.integers(1, 2)), sw_delegable=sw_delegable,
                           max_workers=max_workers, max_comps=max_comps))
    if nsites == 2:                                   # inter-switch links between trunk ports
        for k in range(draw(st.integers(0, min(len(sites[0][2]), len(sites[1][2]))))):
            lnk = b.node(f"isl{k}", "Link", "L2Path", f"isl{k}", extra={"Layer": "L2"})
            b.edge(sites[0][2][k], "connects", lnk)
            b.edge(lnk, "connects", sites[1][2][k])
    _annotate(b, ids, mode, multi_id)
    d = b.desc()
    d["mode"] = mode
    return d


@st.composite
def adm_family(draw, max_sites=3):
    """1..4 delegation models in the shape real aggregates advertise: up to `max_sites` site models (each
    speaks for its own servers/components/ports; its switch, MPLS service and trunk ports are stitch elements
    without delegations) and optionally a network model containing every switch, service and trunk port (with
    the network's delegations), inter-site links and the switches' patch-side ports are left to the sites.
    Shared elements have identical non-delegation properties in every model that contains them."""
    nsites = draw(st.integers(1, max_sites))
    with_net = draw(st.integers(0, 4)) > 0
    models = []
    shared = []
    split_ports = []
    for i in range(nsites):
        s = "abc"[i]
        name = ["RENC", "UKY", "LBNL"][i]
        b = _B(draw, f"adm-site-{s}")
        sw, ns, tps = _site(b, s, name, trunks=draw(st.integers(1, 2)), max_workers=2, max_comps=2)
        # the delegation id is normally a name like 'primary'; a guid-keyed advertisement may use the model's own
        # graph id as delegation id (generate_adms(delegation_guids={g: g}))
        site_del = draw(st.sampled_from(DEL_IDS + [b.gid]))
        _annotate(b, [site_del], draw(st.sampled_from(["mixed", "all-both", "sparse"])),
                  multi_id=False, max_pools=1)
        # split speaking: the site delegates the CAPACITY of some of its trunk ports (uplink bandwidth) while the
        # network model delegates their LABELS (vlan ranges) - one speaker per delegation kind on a shared element
        site_did = sorted({d for n in b.nodes for d in list((n.get("ld") or {})) + list((n.get("cd") or {}))}) or \
            [draw(st.sampled_from(DEL_IDS))]
        for tp in tps:
            if draw(st.integers(0, 2)) == 0:
                b.index[tp]["cd"] = {site_did[0]: _entry(draw, "Port", "C")}
                split_ports.append(tp)
        models.append(b.desc())
        shared.append((sw, ns, tps, {n: {"cls": b.index[n]["cls"], "props": b.index[n]["props"]} for n in [sw, ns] + tps}))
    if with_net:
        b = _B(draw, "adm-net")
        did = draw(st.sampled_from(DEL_IDS + [b.gid]))
        for sw, ns, tps, idx in shared:
            for n in [sw, ns] + tps:
                c = {"id": n, "cls": idx[n]["cls"], "props": dict(idx[n]["props"])}
                b.nodes.append(c)
                b.index[n] = c
                if n != sw:
                    b.kind[n] = "Service" if n == ns else "Port"
            b.edge(sw, "has", ns)
            for tp in tps:
                b.edge(ns, "connects", tp)
        own = False
        for i in range(len(shared) - 1):                 # inter-site links: chain + sometimes a second link
            for k in range(draw(st.integers(0, min(len(shared[i][2]), len(shared[i + 1][2]))))):
                own = True
                lnk = b.node(f"isl{i}-{k}", "Link", "L2Path", f"isl{i}-{k}", extra={"Layer": "L2"})
                b.edge(shared[i][2][k], "connects", lnk)
                b.edge(lnk, "connects", shared[i + 1][2][k])
        # a facility hanging off the first switch (network-owned); a network model without any element of its
        # own is kept rare
        if draw(st.integers(0, 2)) == 0 or (not own and draw(st.integers(0, 9)) > 0):
            sw, ns, tps, _ = shared[0]
            fn = b.node("net-fac", "NetworkNode", "Facility", "DTN", kind="Switch", site="RENC")
            fns = b.node("net-fac-ns", "NetworkService", "VLAN", "DTN-ns", extra={"Layer": "L2"})
            fp = b.node("net-fac-int", "ConnectionPoint", "FacilityPort", "DTN-int", kind="Port")
            np_ = b.node("net-fac-swp", "ConnectionPoint", "TrunkPort", "HundredGigE0/0/0/26", kind="Port")
            lnk = b.node("net-fac-lnk", "Link", "L2Path", "fl", extra={"Layer": "L2"})
            b.edge(fn, "has", fns)
            b.edge(fns, "connects", fp)
            b.edge(fp, "connects", lnk)
            b.edge(lnk, "connects", np_)
            b.edge(ns, "connects", np_)
        _annotate(b, [did], draw(st.sampled_from(["mixed", "all-both"])), multi_id=False, max_pools=1)
        for tp in split_ports:          # the site speaks for the capacity of these ports, the network for labels
            b.index[tp].pop("cd", None)
            ld = b.index[tp].get("ld") or {}
            if not ld or any(e.get("pool") or e.get("pool_id", "_") != "_" for e in ld.values()):
                b.index[tp]["ld"] = {did: _entry(draw, "Port", "L")}
        models.append(b.desc())
    return {"models": models}


# ------------------------------------------------------------------------------------ build / observe
def delegation_text(entries):
    """the stored text of a delegation property (same shape Delegations.to_json writes)"""
    return json.dumps(entries)


def node_props(n):
    props = dict(n["props"])
    if n.get("ld"):
        props[P_LD] = delegation_text(n["ld"])
    if n.get("cd"):
        props[P_CD] = delegation_text(n["cd"])
    return props


def build(desc, importer, cls=None, gid=None):
    """load a description through the public interface (add_node/add_link); returns an instance of `cls`
    (default NetworkXARMGraph) bound to the description's graph id"""
    from fim.graph.networkx_property_graph import NetworkXPropertyGraph
    gid = gid or desc["gid"]
    g = NetworkXPropertyGraph(graph_id=gid, importer=importer)
    for n in desc["nodes"]:
        g.add_node(node_id=n["id"], label=n["cls"], props=node_props(n))
    for a, rel, z in desc["edges"]:
        g.add_link(node_a=a, rel=rel, node_b=z)
    if cls is None:
        from fim.graph.resources.networkx_arm import NetworkXARMGraph
        return NetworkXARMGraph(graph=g)
    return cls(graph_id=gid, importer=importer)


def canon_of_id(storage, graph_id, dups=None):
    """({NodeID: (Class, props without GraphID/NodeID/Class)}, {frozenset{a,b}: (Class, props)}) or ({}, {}).
    Two nodes with one NodeID in a graph: appended to `dups` when given, otherwise an AssertionError."""
    from fimverif.engines import store as _store
    g = _store.observe_storage(storage, graph_id)
    if g is None:
        return {}, {}
    nodes, edges = {}, {}
    for _, d in sorted(g.nodes(data=True), key=lambda x: x[0]):
        p = dict(d)
        nid = p.pop("NodeID")
        p.pop("GraphID", None)
        c = p.pop("Class", None)
        if nid in nodes:
            if dups is None:
                raise AssertionError(f"duplicate NodeID {nid} in graph {graph_id}")
            dups.append(nid)
            continue
        nodes[nid] = (c, p)
    for a, z, d in g.edges(data=True):
        p = dict(d)
        c = p.pop("Class", None)
        edges[frozenset((g.nodes[a]["NodeID"], g.nodes[z]["NodeID"]))] = (c, p)
    return nodes, edges


def canon(graph, dups=None):
    return canon_of_id(graph.storage, graph.graph_id, dups)


def canon_of_desc(desc):
    """the canonical snapshot a faithfully loaded description must have"""
    nodes = {n["id"]: (n["cls"], node_props(n)) for n in desc["nodes"]}
    edges = {frozenset((a, z)): (rel, {}) for a, rel, z in desc["edges"]}
    return nodes, edges


def graph_ids(storage):
    """all graph ids present in the shared in-memory store"""
    return sorted({d.get("GraphID") for _, d in storage.get_graph(None).nodes(data=True)}, key=str)


def decode_delegations(text):
    """independent decoder of a delegation property: {delegation id: (format, pool, details)}; absent-equivalent
    values (None, '', 'None') decode to {}"""
    if text in ABSENT:
        return {}
    out = {}
    for k, v in json.loads(text).items():
        if "pool_id" in v:
            det = v.get("labels", v.get("capacities"))
            out[k] = ("single", None, det) if v["pool_id"] == "_" else ("def", v["pool_id"], det)
        elif "pool" in v:
            out[k] = ("ref", v["pool"], None)
        else:
            out[k] = ("invalid", None, v)
    return out


def shipped_ad_desc(name, repo):
    """description of one of the four advertisements shipped with the repository (corpus seed)"""
    import os
    import networkx as nx
    g = nx.read_graphml(os.path.join(repo, f"{name}-ad.graphml"))
    nodes = []
    for n in sorted(g.nodes, key=str):
        d = dict(g.nodes[n])
        d.pop("GraphID", None)
        node = {"id": d.pop("NodeID"), "cls": d.pop("Class")}
        for key, fld in ((P_LD, "ld"), (P_CD, "cd")):
            if key in d:
                node[fld] = json.loads(d.pop(key))
        node["props"] = {k: d[k] for k in sorted(d)}
        nodes.append(node)
    edges = sorted([g.nodes[a]["NodeID"], d["Class"], g.nodes[z]["NodeID"]] for a, z, d in g.edges(data=True))
    return {"gid": f"{name}-ad", "nodes": nodes, "edges": edges}


class deterministic_uuid:
    """context manager: uuid.uuid4 -> counter based, so library-generated graph ids are reproducible per case
    (oracles still treat them as opaque)"""

    def __init__(self, base=0x5EED0000):
        self.n = base

    def __enter__(self):
        import uuid
        self._uuid = uuid
        self._orig = uuid.uuid4

        def fake():
            self.n += 1
            return uuid.UUID(int=self.n)
        uuid.uuid4 = fake
        return self

    def __exit__(self, *exc):
        self._uuid.uuid4 = self._orig
        return False


def reset_stores():
    """fresh shared stores (library-global singletons) for a case"""
    from fim.graph.networkx_property_graph import NetworkXGraphStorage
    NetworkXGraphStorage.storage_instance = None
    try:
        from fim.graph.networkx_property_graph_disjoint import NetworkXGraphStorageDisjoint
        NetworkXGraphStorageDisjoint.storage_instance = None
    except ImportError:
        pass
