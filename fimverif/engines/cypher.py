"""
E7 - Cypher capture + lint (DESIGN.md §2, used by C19).

Three independent parts, none of which imports `fim` at module level:

1. A recording stand-in for `neo4j.GraphDatabase` (`Recorder`, `FakeGraphDatabase`): `driver()` returns an
   object whose `session()` context manager offers `run(text, parameters=None, **kw)`, `begin_transaction()`,
   `read_transaction`/`write_transaction`/`execute_read`/`execute_write`.  Every `(text, params)` pair is
   recorded together with the name of the library function that issued it; results are synthesised from a
   small "world" (a plain dict describing what the database would answer) so that the calling code proceeds.
   Column names of the synthesised records are taken from the statement's own RETURN clause, so code that
   asks for a column its statement does not return fails as it would against a server.

2. A hand-written Cypher lexer (`lex`) and a structural checker (`lint`) implementing oracle clauses 1-3 of
   DESIGN.md §C19: string literals terminate and only use legal escapes, brackets balance outside literals,
   no `{name}` / `{{` template residue, no dangling commas or empty map entries (1); `$name` <-> supplied
   parameters (2); every variable that is used is bound earlier (3).  Without a grammar this is a structural
   approximation: whatever it does not understand it does not flag.

3. The template differ (`diff_statements`) for clause 4: two texts produced by the same operation with the
   same identifiers and different values must be equal, or differ only inside well-formed string literals
   that decode exactly to supplied values.
"""
import os
import sys

# ----------------------------------------------------------------------------------------------------------
# 2. lexer
# ----------------------------------------------------------------------------------------------------------

_ESC = {"t": "\t", "b": "\b", "n": "\n", "r": "\r", "f": "\f", "'": "'", '"': '"', "\\": "\\", "`": "`"}
_HEX = "0123456789abcdefABCDEF"
_ID_START = "abcdefghijklmnopqrstuvwxyzABCDEFGHIJKLMNOPQRSTUVWXYZ_"
_ID_PART = _ID_START + "0123456789"
_DIGITS = "0123456789"
_OPEN = {"(": ")", "[": "]", "{": "}"}
_CLOSE = {")": "(", "]": "[", "}": "{"}
_TWO_CHAR_OPS = ("<>", "<=", ">=", "=~", "+=", "..", "<-", "->", "||")


class Tok:
    __slots__ = ("kind", "text", "pos", "end", "value")

    def __init__(self, kind, text, pos, end, value=None):
        self.kind = kind      # 'str' | 'param' | 'id' | 'qid' (backticked) | 'num' | 'p' (punctuation/operator)
        self.text = text
        self.pos = pos
        self.end = end
        self.value = value    # decoded text of a string literal / name of a parameter / unquoted identifier

    def __repr__(self):
        return f"{self.kind}:{self.text!r}"


def lex(text):
    """returns (tokens, errors); errors = [(clause, message)] with clause in
    'unterminated-literal', 'bad-escape', 'bad-character'."""
    toks, errs = [], []
    i, n = 0, len(text)
    while i < n:
        c = text[i]
        if c.isspace():
            i += 1
            continue
        # comments
        if c == "/" and i + 1 < n and text[i + 1] == "/":
            j = i + 2
            while j < n and text[j] not in "\n\r":
                j += 1
            i = j
            continue
        if c == "/" and i + 1 < n and text[i + 1] == "*":
            j = text.find("*/", i + 2)
            if j < 0:
                errs.append(("unterminated-literal", f"block comment opened at offset {i} is not closed"))
                i = n
            else:
                i = j + 2
            continue
        # string literals
        if c in "'\"":
            j = i + 1
            out = []
            ok = True
            closed = False
            while j < n:
                d = text[j]
                if d == "\\":
                    if j + 1 >= n:
                        j += 1
                        break
                    e = text[j + 1]
                    if e in _ESC:
                        out.append(_ESC[e])
                        j += 2
                    elif e in "uU":
                        width = 4 if e == "u" else 8
                        hx = text[j + 2:j + 2 + width]
                        if len(hx) == width and all(h in _HEX for h in hx) and int(hx, 16) < 0x110000:
                            out.append(chr(int(hx, 16)))
                            j += 2 + width
                        else:
                            ok = False
                            errs.append(("bad-escape", f"invalid unicode escape at offset {j}"))
                            j += 2
                    else:
                        ok = False
                        errs.append(("bad-escape", f"invalid escape \\{e!s} at offset {j}"))
                        j += 2
                    continue
                if d == c:
                    closed = True
                    j += 1
                    break
                out.append(d)
                j += 1
            if not closed:
                errs.append(("unterminated-literal", f"string literal opened at offset {i} is not closed"))
                toks.append(Tok("str", text[i:n], i, n, None))
                i = n
            else:
                toks.append(Tok("str", text[i:j], i, j, "".join(out) if ok else None))
                i = j
            continue
        # backticked identifier
        if c == "`":
            j = i + 1
            out = []
            closed = False
            while j < n:
                if text[j] == "`":
                    if j + 1 < n and text[j + 1] == "`":
                        out.append("`")
                        j += 2
                        continue
                    closed = True
                    j += 1
                    break
                out.append(text[j])
                j += 1
            if not closed:
                errs.append(("unterminated-literal", f"quoted identifier opened at offset {i} is not closed"))
                toks.append(Tok("qid", text[i:n], i, n, None))
                i = n
            else:
                toks.append(Tok("qid", text[i:j], i, j, "".join(out)))
                i = j
            continue
        # parameter
        if c == "$":
            j = i + 1
            if j < n and text[j] == "`":
                k = text.find("`", j + 1)
                if k < 0:
                    errs.append(("unterminated-literal", f"quoted parameter name opened at offset {i} is not closed"))
                    toks.append(Tok("param", text[i:n], i, n, None))
                    i = n
                else:
                    toks.append(Tok("param", text[i:k + 1], i, k + 1, text[j + 1:k]))
                    i = k + 1
                continue
            while j < n and text[j] in _ID_PART:
                j += 1
            if j == i + 1:
                errs.append(("bad-character", f"'$' at offset {i} is not followed by a parameter name"))
                toks.append(Tok("p", "$", i, i + 1))
                i += 1
            else:
                toks.append(Tok("param", text[i:j], i, j, text[i + 1:j]))
                i = j
            continue
        if c in _ID_START or (ord(c) > 127 and c.isalpha()):
            j = i + 1
            while j < n and (text[j] in _ID_PART or (ord(text[j]) > 127 and text[j].isalnum())):
                j += 1
            toks.append(Tok("id", text[i:j], i, j, text[i:j]))
            i = j
            continue
        if c in _DIGITS or (c == "." and i + 1 < n and text[i + 1] in _DIGITS and
                            not (toks and toks[-1].kind in ("id", "qid") and toks[-1].end == i)):
            j = i
            while j < n and (text[j] in _ID_PART):
                j += 1
            # fraction: only when a digit follows the dot (so that `1..` stays a range)
            if j < n and text[j] == "." and j + 1 < n and text[j + 1] in _DIGITS:
                j += 1
                while j < n and text[j] in _ID_PART:
                    j += 1
            toks.append(Tok("num", text[i:j], i, j))
            i = j
            continue
        two = text[i:i + 2]
        if two in _TWO_CHAR_OPS:
            toks.append(Tok("p", two, i, i + 2))
            i += 2
            continue
        if c in "()[]{}.,:;|+-*/%^=<>!&":
            toks.append(Tok("p", c, i, i + 1))
            i += 1
            continue
        errs.append(("bad-character", f"unexpected character {c!r} at offset {i}"))
        toks.append(Tok("p", c, i, i + 1))
        i += 1
    return toks, errs


def encode_literal(value, quote="'"):
    """reference encoder (used by the self-checks of the check module): a correctly escaped Cypher literal"""
    out = [quote]
    for ch in value:
        if ch == "\\":
            out.append("\\\\")
        elif ch == quote:
            out.append("\\" + quote)
        else:
            out.append(ch)
    out.append(quote)
    return "".join(out)


# ----------------------------------------------------------------------------------------------------------
# 2b. structural checker
# ----------------------------------------------------------------------------------------------------------

CLAUSE_KW = {"MATCH", "OPTIONAL", "WHERE", "RETURN", "WITH", "CALL", "YIELD", "UNWIND", "SET", "REMOVE", "DELETE",
             "DETACH", "CREATE", "MERGE", "UNION", "ORDER", "LIMIT", "SKIP", "FOREACH", "USE"}
OTHER_KW = {"AS", "ALL", "DISTINCT", "BY", "AND", "OR", "NOT", "XOR", "IN", "IS", "NULL", "TRUE", "FALSE", "STARTS",
            "ENDS", "CONTAINS", "CASE", "WHEN", "THEN", "ELSE", "END", "ASC", "DESC", "ASCENDING", "DESCENDING", "ON"}
KEYWORDS = CLAUSE_KW | OTHER_KW


def _is_kw(t, *names):
    return t is not None and t.kind == "id" and t.text.upper() in names


def _brackets(toks):
    """returns (errors, match) where match[i] = index of the partner bracket"""
    errs, stack, match = [], [], {}
    for i, t in enumerate(toks):
        if t.kind != "p":
            continue
        if t.text in _OPEN:
            stack.append(i)
        elif t.text in _CLOSE:
            if not stack:
                errs.append(("unbalanced", f"'{t.text}' at offset {t.pos} closes nothing"))
            elif toks[stack[-1]].text != _CLOSE[t.text]:
                o = toks[stack[-1]]
                errs.append(("unbalanced", f"'{o.text}' at offset {o.pos} is closed by '{t.text}' at offset {t.pos}"))
                stack.pop()
            else:
                j = stack.pop()
                match[i] = j
                match[j] = i
    for j in stack:
        errs.append(("unbalanced", f"'{toks[j].text}' at offset {toks[j].pos} is never closed"))
    return errs, match


def _residue_and_commas(toks):
    errs = []
    n = len(toks)
    for i, t in enumerate(toks):
        if t.kind != "p":
            continue
        prv = toks[i - 1] if i > 0 else None
        nxt = toks[i + 1] if i + 1 < n else None
        if t.text == "{":
            if nxt is not None and nxt.kind == "p" and nxt.text == "{":
                errs.append(("template-residue", f"'{{{{' at offset {t.pos}: unexpanded format-string brace"))
            if nxt is not None and nxt.kind in ("id", "qid") and i + 2 < n and toks[i + 2].kind == "p" \
                    and toks[i + 2].text == "}":
                errs.append(("template-residue", f"'{{{nxt.text}}}' at offset {t.pos}: unexpanded template field "
                                                 f"(neither a map nor a parameter)"))
        elif t.text == ",":
            if prv is None or (prv.kind == "p" and prv.text in ("(", "[", "{", ",")):
                errs.append(("dangling-comma", f"',' at offset {t.pos} has nothing before it"))
            if nxt is None or (nxt.kind == "p" and nxt.text in (")", "]", "}", ",", ";")):
                errs.append(("dangling-comma", f"',' at offset {t.pos} has nothing after it"))
        elif t.text == ":":
            if nxt is None or (nxt.kind == "p" and nxt.text in (",", "}", ")", "]", ";")):
                errs.append(("empty-map-entry", f"':' at offset {t.pos} is not followed by a value or label"))
    return errs


def _params(toks, params):
    errs = []
    used = []
    for t in toks:
        if t.kind == "param" and t.value is not None and t.value not in used:
            used.append(t.value)
    supplied = list(params.keys())
    for u in used:
        if u not in params:
            errs.append(("param-missing", f"${u} is referenced by the statement but not supplied "
                                          f"(supplied: {sorted(supplied)})"))
    for s in supplied:
        if s not in used:
            errs.append(("param-unused", f"parameter {s!r} is supplied but the statement never references ${s}"))
    return errs


def _unbound(toks, match):
    """clause 3 - scope analysis over the token stream (approximate; unknown constructs are not flagged)"""
    errs = []
    n = len(toks)
    # `{name}` is reported as template residue (clause 1); do not report `name` again as an unbound variable
    residue = {i + 1 for i in range(n - 2) if toks[i].kind == "p" and toks[i].text == "{" and
               toks[i + 1].kind in ("id", "qid") and toks[i + 2].kind == "p" and toks[i + 2].text == "}"}
    if n == 0:
        return errs
    # schema commands: CREATE|DROP INDEX|CONSTRAINT ... FOR (n:Label) ON (n.prop, ...)
    if _is_kw(toks[0], "CREATE", "DROP") and n > 1 and toks[1].kind == "id" and \
            toks[1].text.upper() in ("INDEX", "CONSTRAINT", "RANGE", "TEXT", "POINT", "BTREE", "LOOKUP", "FULLTEXT",
                                     "VECTOR"):
        bound = set()
        for i, t in enumerate(toks):
            if t.kind == "id" and t.text.upper() == "FOR" and i + 2 < n and toks[i + 1].text == "(" \
                    and toks[i + 2].kind in ("id", "qid"):
                bound.add(toks[i + 2].value)
        for i, t in enumerate(toks):
            if t.kind in ("id", "qid") and i + 1 < n and toks[i + 1].kind == "p" and toks[i + 1].text == "." \
                    and not (i > 0 and toks[i - 1].kind == "p" and toks[i - 1].text == "."):
                if t.value not in bound:
                    errs.append(("unbound-variable", f"variable {t.value!r} (offset {t.pos}) is not bound by FOR (...)"))
        return errs

    scope = set()
    pending = None            # projection being built by WITH
    clause = None             # current depth-0 clause keyword
    stack = []                # (bracket char, kind) kind in call/node/group/rel/list/map
    open_first = {}           # index of first token inside a bracket -> kind of that bracket
    reported = set()

    def use(t):
        name = t.value
        if name is None or name in scope or name in reported:
            return
        reported.add(name)
        errs.append(("unbound-variable", f"variable {name!r} (offset {t.pos}) is used but never bound by a pattern, "
                                         f"YIELD, AS, UNWIND or comprehension in scope"))

    def end_with():
        nonlocal pending, scope
        if pending is not None:
            scope = pending
            pending = None

    i = 0
    while i < n:
        t = toks[i]
        prv = toks[i - 1] if i > 0 else None
        nxt = toks[i + 1] if i + 1 < n else None
        depth = len(stack)
        if t.kind == "p":
            if t.text in _OPEN:
                if t.text == "(":
                    if prv is not None and prv.kind in ("id", "qid") and not (
                            prv.kind == "id" and prv.text.upper() in KEYWORDS and prv.text.upper() != "ALL"
                            and not (i > 1 and toks[i - 2].kind == "p" and toks[i - 2].text == ".")):
                        kind = "call"
                    else:
                        kind = "node"     # pattern node or parenthesised expression, decided per identifier
                elif t.text == "[":
                    kind = "rel" if (prv is not None and prv.kind == "p" and prv.text in ("-", "<-")) else "list"
                else:
                    kind = "map"
                stack.append(kind)
                open_first[i + 1] = kind
            elif t.text in _CLOSE:
                if stack:
                    stack.pop()
            elif t.text == "*" and depth == 0 and clause == "WITH" and pending is not None:
                pending |= scope
            i += 1
            continue
        if t.kind not in ("id", "qid") or i in residue:
            i += 1
            continue
        up = t.text.upper() if t.kind == "id" else None
        after_dot = prv is not None and prv.kind == "p" and prv.text == "."
        inner = stack[-1] if stack else None

        # ---- keywords (only when they cannot be a property key / label / map key / function name)
        if up in KEYWORDS and not after_dot and not (prv is not None and prv.kind == "p" and prv.text == ":"
                                                       and inner in ("node", "rel", None)):
            if nxt is not None and nxt.kind == "p" and nxt.text == ":" and inner == "map":
                i += 1
                continue      # map key that happens to be a keyword
            if up in CLAUSE_KW and depth == 0:
                end_with()                  # the projection of a preceding WITH takes effect here
                if up == "UNION":
                    scope = set()
                if up == "WITH":
                    pending = set()
                clause = {"OPTIONAL": "MATCH", "DETACH": "DELETE"}.get(up, up)
            if up == "AS" and nxt is not None and nxt.kind in ("id", "qid"):
                # alias: binding
                if clause == "WITH" and pending is not None and depth == 0:
                    pending.add(nxt.value)
                else:
                    scope.add(nxt.value)
                    if pending is not None:
                        pending.add(nxt.value)
                i += 2
                continue
            if up == "ALL" and nxt is not None and nxt.kind == "p" and nxt.text == "(":
                i += 1
                continue      # quantifier function
            i += 1
            continue

        # ---- not a keyword
        if after_dot:
            i += 1
            continue          # property key or namespace part
        if prv is not None and prv.kind == "p" and prv.text == ":" and inner != "map" and inner != "list":
            i += 1
            continue          # label / relationship type
        if nxt is not None and nxt.kind == "p" and nxt.text == ":" and inner == "map":
            i += 1
            continue          # map key
        if nxt is not None and nxt.kind == "p" and nxt.text == "(":
            i += 1
            continue          # function name
        if nxt is not None and nxt.kind == "p" and nxt.text == ".":
            # dotted chain: namespaced function call, or variable.property...
            j = i
            while j + 2 < n and toks[j + 1].kind == "p" and toks[j + 1].text == "." and toks[j + 2].kind in ("id", "qid"):
                j += 2
            if j + 1 < n and toks[j + 1].kind == "p" and toks[j + 1].text == "(" and j > i:
                i = j + 1
                continue      # apoc.x.y( ... : procedure / function name
            use(t)
            i = j + 1
            continue
        first_in = open_first.get(i)
        nxt_txt = nxt.text if (nxt is not None and nxt.kind == "p") else None
        if first_in == "node" and nxt_txt in (":", ")", "{"):
            scope.add(t.value)          # pattern node variable: binding, or reference to a bound one
            i += 1
            continue
        if first_in == "rel" and nxt_txt in (":", "]", "*", "{"):
            scope.add(t.value)
            i += 1
            continue
        if first_in in ("list", "call", "node") and _is_kw(nxt, "IN"):
            scope.add(t.value)          # comprehension / quantifier variable
            i += 1
            continue
        if clause == "YIELD" and depth == 0:
            if not _is_kw(nxt, "AS"):
                scope.add(t.value)      # procedure output column
            i += 1
            continue
        if clause == "CALL" and depth == 0:
            i += 1
            continue                    # un-namespaced procedure name without arguments
        if nxt_txt == "=" and depth == 0 and clause in ("MATCH", "CREATE", "MERGE") and \
                (prv is None or _is_kw(prv, "MATCH", "CREATE", "MERGE") or (prv.kind == "p" and prv.text == ",")):
            scope.add(t.value)          # path variable
            i += 1
            continue
        if clause == "WITH" and pending is not None and depth == 0 and \
                (prv is not None and (_is_kw(prv, "WITH", "DISTINCT") or (prv.kind == "p" and prv.text == ","))) and \
                (nxt is None or (nxt.kind == "p" and nxt.text in (",", ";")) or
                 (nxt.kind == "id" and nxt.text.upper() in CLAUSE_KW)):
            use(t)
            pending.add(t.value)        # bare variable carried through WITH
            i += 1
            continue
        use(t)
        i += 1
    return errs


NEEDS_BODY = {"MATCH", "WHERE", "RETURN", "WITH", "YIELD", "UNWIND", "SET", "REMOVE", "DELETE", "CREATE", "MERGE",
              "LIMIT", "SKIP", "CALL", "FOREACH"}


def _empty_clauses(toks):
    """a clause keyword that needs a body (WHERE <predicate>, SET <items>, RETURN <columns> ...) directly followed
    by the next clause keyword, a closing bracket, ';' or the end of the statement"""
    errs = []
    for i, t in enumerate(toks):
        if t.kind != "id" or t.text.upper() not in NEEDS_BODY:
            continue
        prev = toks[i - 1] if i else None
        nxt = toks[i + 1] if i + 1 < len(toks) else None
        if prev is not None and prev.kind == "p" and prev.text in (".", ":"):
            continue        # a property / label that happens to be spelled like a keyword
        if nxt is not None and nxt.kind == "p" and nxt.text in (":", "."):
            continue        # a map key / a variable spelled like a keyword
        if nxt is None or (nxt.kind == "p" and (nxt.text in _CLOSE or nxt.text == ";")) or \
                (nxt.kind == "id" and nxt.text.upper() in CLAUSE_KW):
            errs.append(("empty-clause", f"{t.text.upper()} at offset {t.pos} has no body"))
    return errs


def lint(text, params):
    """oracle clauses 1-3 on one captured statement -> [(clause, message)]"""
    toks, errs = lex(text)
    errs = list(errs)
    berrs, match = _brackets(toks)
    errs += berrs
    errs += _residue_and_commas(toks)
    errs += _empty_clauses(toks)
    errs += _params(toks, params if params is not None else {})
    if not any(c in ("unterminated-literal", "unbalanced") for c, _ in errs):
        errs += _unbound(toks, match)
    if not toks:
        errs.append(("empty-statement", "statement text contains no tokens"))
    # de-duplicate by clause+message, keep order
    seen, out = set(), []
    for e in errs:
        if e not in seen:
            seen.add(e)
            out.append(e)
    return out


def return_columns(text):
    """column names of the last top-level RETURN of a statement (alias, or the expression's source text);
    for `RETURN *` / no RETURN: the names after the last top-level YIELD; else []"""
    toks, errs = lex(text)
    if any(c == "unterminated-literal" for c, _ in errs):
        return []
    depth = 0
    last_ret, last_yield = None, None
    for i, t in enumerate(toks):
        if t.kind == "p":
            if t.text in _OPEN:
                depth += 1
            elif t.text in _CLOSE:
                depth = max(0, depth - 1)
        elif t.kind == "id" and depth == 0:
            if t.text.upper() == "RETURN":
                last_ret = i
            elif t.text.upper() == "YIELD":
                last_yield = i
    start = last_ret if last_ret is not None else last_yield
    if start is None:
        return []
    cols, cur, depth = [], [], 0
    i = start + 1
    if i < len(toks) and _is_kw(toks[i], "DISTINCT"):
        i += 1
    while i < len(toks):
        t = toks[i]
        if t.kind == "p" and t.text in _OPEN:
            depth += 1
        elif t.kind == "p" and t.text in _CLOSE:
            depth -= 1
            if depth < 0:
                break
        if depth == 0 and ((t.kind == "p" and t.text in (",", ";")) or
                           (t.kind == "id" and t.text.upper() in CLAUSE_KW)):
            if cur:
                cols.append(cur)
            cur = []
            if not (t.kind == "p" and t.text == ","):
                break
        else:
            cur.append(t)
        i += 1
    if cur:
        cols.append(cur)
    names = []
    for c in cols:
        alias = None
        for k in range(len(c) - 1):
            if _is_kw(c[k], "AS") and c[k + 1].kind in ("id", "qid"):
                alias = c[k + 1].value
        if alias is not None:
            names.append(alias)
        elif len(c) == 1 and c[0].kind == "p" and c[0].text == "*":
            if last_yield is not None and last_ret is not None:
                return return_columns(" ".join(t.text for t in toks[last_yield:last_ret]))
            return []
        else:
            names.append(text[c[0].pos:c[-1].end])
    return names


# ----------------------------------------------------------------------------------------------------------
# 3. template differ (clause 4)
# ----------------------------------------------------------------------------------------------------------

def diff_statements(text_a, allowed_a, text_b, allowed_b, mapping=None):
    """Clause 4.  Returns None if the two texts are equal or differ only inside well-formed string literals that
    decode exactly to a supplied value (allowed_x = set of strings supplied in run x); otherwise a short
    explanation.  `mapping` (optional) = {value supplied in run a: value supplied in the same role in run b}: a
    literal of text a that decodes to a key must correspond to a literal of text b decoding to its image."""
    if text_a == text_b:
        return None
    ta, ea = lex(text_a)
    tb, eb = lex(text_b)
    if ea or eb:
        e = (ea or eb)[0]
        return f"texts differ and one no longer lexes ({e[0]}: {e[1]})"
    if len(ta) != len(tb):
        return f"texts differ in structure ({len(ta)} vs {len(tb)} tokens)"
    for x, y in zip(ta, tb):
        if x.kind != y.kind:
            return f"texts differ in structure (token {x.text!r} vs {y.text!r})"
        if x.kind == "str":
            if x.text == y.text:
                continue
            if x.value is None or y.value is None:
                return "texts differ inside a string literal with an illegal escape"
            if mapping is not None and x.value in mapping:
                if y.value != mapping[x.value]:
                    return (f"texts differ inside a string literal that does not decode to the supplied value "
                            f"(literal {y.text[:60]!r} decodes to {y.value[:60]!r}, supplied "
                            f"{mapping[x.value][:60]!r})")
                continue
            if x.value not in allowed_a or y.value not in allowed_b:
                bad = x if x.value not in allowed_a else y
                return (f"texts differ inside a string literal that does not decode to a supplied value "
                        f"(literal {bad.text[:60]!r} decodes to {bad.value[:60]!r})")
        elif x.text != y.text:
            return f"texts differ outside string literals ({x.text[:40]!r} vs {y.text[:40]!r})"
    return None


def marker_contexts(text, markers):
    """for the benign run: where do the (unique, alphanumeric) marker values occur in the text?
    returns (inside_literal: set of markers, outside_literal: set of markers)"""
    toks, _ = lex(text)
    spans = [(t.pos, t.end) for t in toks if t.kind == "str"]
    inside, outside = set(), set()
    for m in markers:
        start = 0
        while True:
            k = text.find(m, start)
            if k < 0:
                break
            if any(a <= k and k + len(m) <= b for a, b in spans):
                inside.add(m)
            else:
                outside.add(m)
            start = k + 1
    return inside, outside


# ----------------------------------------------------------------------------------------------------------
# 1. recording stand-in driver
# ----------------------------------------------------------------------------------------------------------

class Statement:
    __slots__ = ("text", "params", "issuer", "via")

    def __init__(self, text, params, issuer, via):
        self.text = text
        self.params = params
        self.issuer = issuer      # name of the library function that called run()
        self.via = via            # 'session.run' | 'tx.run'


class FakeRecord:
    def __init__(self, keys, vals):
        self._keys = list(keys)
        self._vals = list(vals)

    def data(self, *keys):
        return {k: v for k, v in zip(self._keys, self._vals) if not keys or k in keys}

    def value(self, key=0, default=None):
        if isinstance(key, int):
            return self._vals[key] if -len(self._vals) <= key < len(self._vals) else default
        return self._vals[self._keys.index(key)] if key in self._keys else default

    def values(self, *keys):
        return [self.value(k) for k in keys] if keys else list(self._vals)

    def keys(self):
        return list(self._keys)

    def items(self):
        return list(zip(self._keys, self._vals))

    def get(self, key, default=None):
        return self._vals[self._keys.index(key)] if key in self._keys else default

    def __getitem__(self, key):
        if isinstance(key, int):
            return self._vals[key]
        if key not in self._keys:
            raise KeyError(key)
        return self._vals[self._keys.index(key)]

    def __contains__(self, item):
        return item in self._vals

    def __iter__(self):
        return iter(self._vals)

    def __len__(self):
        return len(self._vals)


class FakeResult:
    def __init__(self, keys, rows):
        self._keys = list(keys)
        self._records = [FakeRecord(keys, r) for r in rows]
        self._pos = 0

    def keys(self):
        return list(self._keys)

    def single(self, strict=False):
        rest = self._records[self._pos:]
        self._pos = len(self._records)
        return rest[0] if rest else None

    def peek(self):
        return self._records[self._pos] if self._pos < len(self._records) else None

    def value(self, key=0, default=None):
        return [r.value(key, default) for r in self]

    def values(self, *keys):
        return [r.values(*keys) for r in self]

    def data(self, *keys):
        return [r.data(*keys) for r in self]

    def consume(self):
        self._pos = len(self._records)
        return None

    def fetch(self, n):
        out = self._records[self._pos:self._pos + n]
        self._pos += len(out)
        return out

    def __iter__(self):
        while self._pos < len(self._records):
            r = self._records[self._pos]
            self._pos += 1
            yield r


class Recorder:
    """Collects statements; `world` is {"rows": {issuer: callable(params, text) -> list of rows (lists)},
    "default_rows": callable(columns, params, text) -> rows}.  `lib_root` = directory of the fim package
    (frames below it are 'library frames' for issuer detection)."""

    def __init__(self, world, lib_root):
        self.world = world
        self.lib_root = os.path.join(os.path.abspath(lib_root), "")
        self.statements = []
        self.driver_calls = []
        self.fail_at = None         # fault injection: the fail_at-th recorded statement raises a driver error

    def _issuer(self):
        f = sys._getframe(2)
        while f is not None:
            fn = f.f_code.co_filename
            if fn.startswith(self.lib_root):
                name = f.f_code.co_name
                slf = f.f_locals.get("self")
                if slf is not None and type(slf).__name__ == "Neo4jGraphImporter":
                    name = "importer." + name
                return name
            f = f.f_back
        return "<harness>"

    def record(self, text, parameters, kw, via):
        if parameters is not None and not isinstance(parameters, dict):
            raise TypeError(f"run(): parameters must be a dict, got {type(parameters).__name__}")
        params = dict(parameters or {})
        params.update(kw)
        if not isinstance(text, str):
            text = str(getattr(text, "text", text))
        issuer = self._issuer()
        st = Statement(text, params, issuer, via)
        self.statements.append(st)
        if self.fail_at is not None and len(self.statements) == self.fail_at:
            from neo4j.exceptions import ServiceUnavailable
            raise ServiceUnavailable("injected driver failure (harness)")
        cols = return_columns(text)
        fn = self.world.get("rows", {}).get(issuer)
        if fn is not None:
            rows = fn(params, text)
        else:
            rows = self.world["default_rows"](cols, params, text)
        fixed = []
        for r in rows:
            r = list(r)
            if len(r) < len(cols):
                r = r + [None] * (len(cols) - len(r))
            fixed.append(r[:len(cols)] if cols else r)
        if not cols and fixed:
            cols = [f"col{k}" for k in range(len(fixed[0]))]
        return FakeResult(cols, fixed)


class FakeTransaction:
    def __init__(self, rec):
        self._rec = rec
        self.closed = False

    def run(self, query, parameters=None, **kw):
        return self._rec.record(query, parameters, kw, "tx.run")

    def commit(self):
        self.closed = True

    def rollback(self):
        self.closed = True

    def close(self):
        self.closed = True

    def __enter__(self):
        return self

    def __exit__(self, *a):
        self.closed = True
        return False


class FakeSession:
    def __init__(self, rec):
        self._rec = rec

    def run(self, query, parameters=None, **kw):
        return self._rec.record(query, parameters, kw, "session.run")

    def begin_transaction(self, *a, **kw):
        return FakeTransaction(self._rec)

    def _work(self, fn, *a, **kw):
        with FakeTransaction(self._rec) as tx:
            return fn(tx, *a, **kw)

    read_transaction = write_transaction = execute_read = execute_write = _work

    def close(self):
        pass

    def __enter__(self):
        return self

    def __exit__(self, *a):
        return False


class FakeDriver:
    def __init__(self, rec):
        self._rec = rec

    def session(self, **kw):
        return FakeSession(self._rec)

    def verify_connectivity(self, **kw):
        return None

    def close(self):
        pass

    def __enter__(self):
        return self

    def __exit__(self, *a):
        return False


class FakeGraphDatabase:
    """stand-in for neo4j.GraphDatabase bound to one Recorder"""

    def __init__(self, rec):
        self._rec = rec

    def driver(self, uri, *, auth=None, **config):
        self._rec.driver_calls.append((uri, auth))
        return FakeDriver(self._rec)
