"""
E1 label grammars for C16 (DESIGN.md Appendix D): hand-written, character-level, three-valued
recognisers (no `re`) for every validated value format of fim, plus Hypothesis generators of
members and near-misses.

Verdicts
  MEMBER       the value is inside the documented domain  -> every entry point must accept it
  NON-MEMBER   the value is outside the documented domain -> every entry point must raise
  UNSPECIFIED  the documentation can be read either way   -> only the differential clause applies

The documented domain is the pattern / range / size limit published next to each field
(Labels.VALIDATORS + LAMBDA_VALIDATORS texts, Tags.TAG_PATTERN, <Sliver>.NAME_REGEX, MAX_SIZE,
BOOST_SCRIPT_SIZE), read literally as "the whole value has this shape".  UNSPECIFIED is used for
 * non-ASCII characters in a position where the pattern says \\d, \\w or '.', (engine-specific classes),
 * degenerate IPv6 forms without a single hex digit ('' , ':', '::/1'),
 * numa written with redundant leading zeros or as '-0',
 * digit strings longer than 1000 characters (interpreter int-conversion limits),
 * empty lists, lists holding non-strings for fields without a pattern,
 * bool / None capacities, boot script of exactly the limit, sizes that depend on the JSON separators,
 * NaN/Infinity and nesting deeper than 100 in JSON text, non-ASCII JSON text (chars vs bytes).
"""
from hypothesis import strategies as st

MEMBER, NON_MEMBER, UNSPEC = "MEMBER", "NON-MEMBER", "UNSPECIFIED"

DIGITS = "0123456789"
HEXL = "0123456789abcdef"
HEX = "0123456789abcdefABCDEF"
WORD = "abcdefghijklmnopqrstuvwxyzABCDEFGHIJKLMNOPQRSTUVWXYZ0123456789_"

VALIDATED_FIELDS = ['bdf', 'mac', 'ipv4', 'ipv4_range', 'ipv4_subnet', 'ipv6', 'ipv6_range', 'ipv6_subnet',
                    'asn', 'vlan', 'vlan_range', 'inner_vlan', 'bgp_key', 'account_id', 'region', 'usb_id',
                    'numa']
FREE_FIELDS = ['instance', 'instance_parent', 'local_name', 'local_type', 'device_name']
LABEL_FIELDS = VALIDATED_FIELDS + FREE_FIELDS

# character set and length bounds of the "alphabet{min,max}" formats
CLASS_FORMATS = {
    'bgp_key': (WORD + "-+/.:", 6, 150),
    'account_id': (WORD + "-/.", 3, 100),
    'region': (WORD + "-.", 3, 100),
    'tag': (WORD + "-", 1, 255),
    'name:NodeSliver': (WORD + "-.", 2, 255),
    'name:ComponentSliver': (WORD + "-. ", 2, 255),
    'name:NetworkServiceSliver': (WORD + "-.", 2, 255),
    'name:InterfaceSliver': (WORD + "-+/. :", 1, 255),
    'name:NetworkLinkSliver': (WORD + "-+/. :", 2, 255),
}
SLIVER_CLASSES = ['NodeSliver', 'ComponentSliver', 'NetworkServiceSliver', 'InterfaceSliver', 'NetworkLinkSliver']


# ----------------------------------------------------------------------------------------------
# character level helpers.  A value is turned into a token list: ASCII characters stay, every
# non-ASCII character becomes WILD (None) which is allowed wherever the pattern has \d, \w or '.'
# ----------------------------------------------------------------------------------------------
WILD = None


def _tokens(s):
    return [c if ord(c) < 128 else WILD for c in s]


def _is_digit(c):
    return c is WILD or c in DIGITS


def _is_word(c, alphabet):
    return c is WILD or c in alphabet


def _is_hex(c, alphabet=HEX):
    return c is not WILD and c in alphabet


def _split(toks, sep):
    out, cur = [], []
    for c in toks:
        if c == sep:
            out.append(cur)
            cur = []
        else:
            cur.append(c)
    out.append(cur)
    return out


def _all(toks, pred, lo, hi):
    return lo <= len(toks) <= hi and all(pred(c) for c in toks)


def _int(toks):
    """value of an ASCII digit token list (only called when no WILD is present)"""
    n = 0
    for c in toks:
        n = n * 10 + DIGITS.index(c)
    return n


def _octet(toks):
    # 25[0-5] | 2[0-4][0-9] | [01]?[0-9][0-9]?   == one or two digits, or three digits <= 255
    if not _all(toks, lambda c: c is not WILD and c in DIGITS, 1, 3):
        return False
    return len(toks) < 3 or _int(toks) <= 255


def _ipv4(toks):
    parts = _split(toks, '.')
    return len(parts) == 4 and all(_octet(p) for p in parts)


def _ipv6(toks):
    parts = _split(toks, ':')
    return 1 <= len(parts) <= 8 and all(_all(p, _is_hex, 0, 4) for p in parts)


def _prefix(toks):
    return _all(toks, _is_digit, 1, 2)


def _shape(field, toks):
    """does the token list have the documented shape of the field (ranges not considered)"""
    if field == 'bdf':
        p = _split(toks, ':')
        # hex{1,4} : hex{2} : hex{2} <any char but newline> hex+   (the separator may itself be ':')
        if len(p) == 4:      # separator is ':'
            return _all(p[0], _is_hex, 1, 4) and _all(p[1], _is_hex, 2, 2) and _all(p[2], _is_hex, 2, 2) and \
                _all(p[3], _is_hex, 1, 10 ** 9)
        if len(p) != 3:
            return False
        tail = p[2]
        return _all(p[0], _is_hex, 1, 4) and _all(p[1], _is_hex, 2, 2) and len(tail) >= 4 and \
            _all(tail[:2], _is_hex, 2, 2) and tail[2] != '\n' and _all(tail[3:], _is_hex, 1, 10 ** 9)
    if field == 'mac':
        p = _split(toks, ':')
        return len(p) == 6 and all(_all(g, _is_hex, 2, 2) for g in p)
    if field == 'ipv4':
        return _ipv4(toks)
    if field == 'ipv4_range':
        p = _split(toks, '-')
        return len(p) == 2 and _ipv4(p[0]) and _ipv4(p[1])
    if field == 'ipv4_subnet':
        p = _split(toks, '/')
        return len(p) == 2 and _ipv4(p[0]) and _prefix(p[1])
    if field == 'ipv6':
        return _ipv6(toks)
    if field == 'ipv6_range':
        p = _split(toks, '-')
        return len(p) == 2 and _ipv6(p[0]) and _ipv6(p[1])
    if field == 'ipv6_subnet':
        p = _split(toks, '/')
        return len(p) == 2 and _ipv6(p[0]) and _prefix(p[1])
    if field == 'asn':
        return _all(toks, _is_digit, 1, 10 ** 9)
    if field in ('vlan', 'inner_vlan'):
        return _all(toks, _is_digit, 1, 4)
    if field == 'vlan_range':
        p = _split(toks, '-')
        return len(p) == 2 and _all(p[0], _is_digit, 1, 4) and _all(p[1], _is_digit, 1, 4)
    if field == 'usb_id':
        p = _split(toks, ':')
        return len(p) == 2 and all(_all(g, lambda c: _is_hex(c, HEXL), 4, 4) for g in p)
    if field in CLASS_FORMATS:
        alphabet, lo, hi = CLASS_FORMATS[field]
        return _all(toks, lambda c: _is_word(c, alphabet), lo, hi)
    raise KeyError(field)


def _range_ok(field, s):
    """documented numeric range; s is pure ASCII and has the right shape"""
    if field == 'asn':
        return 0 < _int(s) < 2 ** 32
    if field in ('vlan', 'inner_vlan'):
        return 0 <= _int(s) <= 4096
    if field == 'vlan_range':
        a, b = s.split('-')
        return 0 <= _int(a) <= _int(b) <= 4096
    return True


def _numa(s):
    # documented domain: "-1 or 0-7"
    if any(ord(c) > 127 for c in s):
        return UNSPEC                 # int() reads non-ASCII decimal digits
    if s in ('-1', '0', '1', '2', '3', '4', '5', '6', '7'):
        return MEMBER
    body = s[1:] if s[:1] == '-' else s
    if body and all(c in DIGITS for c in body) and len(body) <= 1000:
        n = _int(body)
        n = -n if s[:1] == '-' else n
        return UNSPEC if -1 <= n <= 7 else NON_MEMBER      # '07', '-0', '-01'
    return NON_MEMBER


def classify_str(fmt, s):
    """fmt: a validated label field, 'tag' or 'name:<SliverClass>'; s: any value"""
    if not isinstance(s, str):
        return NON_MEMBER
    if fmt == 'numa':
        return _numa(s)
    toks = _tokens(s)
    if not _shape(fmt, toks):
        return NON_MEMBER
    if WILD in toks:
        return UNSPEC
    if fmt in ('asn', 'vlan', 'inner_vlan', 'vlan_range'):
        if len(s) > 1000:
            return UNSPEC
        if not _range_ok(fmt, s):
            return NON_MEMBER
    if fmt in ('ipv6', 'ipv6_range', 'ipv6_subnet'):
        addr = s.split('/')[0]
        if any(not any(c in HEX for c in part) for part in addr.split('-')):
            return UNSPEC
    return MEMBER


def classify_label(field, value):
    """value: what is passed for Labels.<field> (a string or a list)"""
    if field in FREE_FIELDS:
        if isinstance(value, str):
            return MEMBER
        if isinstance(value, list):
            if not value:
                return UNSPEC
            return MEMBER if all(isinstance(x, str) for x in value) else UNSPEC
        return NON_MEMBER
    if isinstance(value, list):
        if not value:
            return UNSPEC
        if field == 'numa' and any(not isinstance(x, str) for x in value):
            # no pattern for numa: list elements that are not strings are not covered by the docs
            rest = [classify_str(field, x) for x in value if isinstance(x, str)]
            return NON_MEMBER if NON_MEMBER in rest else UNSPEC
        vs = [classify_str(field, x) for x in value]
        return NON_MEMBER if NON_MEMBER in vs else (UNSPEC if UNSPEC in vs else MEMBER)
    return classify_str(field, value)


def classify_tags(values):
    """values: list of tags given to Tags(...)"""
    if not isinstance(values, list):
        return NON_MEMBER
    vs = [classify_str('tag', x) for x in values]
    return NON_MEMBER if NON_MEMBER in vs else (UNSPEC if UNSPEC in vs else MEMBER)


def classify_capacity(v):
    """documented: non-negative integers only"""
    if v is None or isinstance(v, bool):
        return UNSPEC
    if isinstance(v, int):
        return MEMBER if v >= 0 else NON_MEMBER
    return NON_MEMBER


BOOT_LIMIT = 1024


def classify_boot_script(v):
    if not isinstance(v, str):
        return NON_MEMBER        # None means "unset", it is not generated as a value
    if len(v) < BOOT_LIMIT:
        return MEMBER
    return UNSPEC if len(v) == BOOT_LIMIT else NON_MEMBER


# ----------------------------------------------------------------------------------------------
# JSON text recogniser (RFC 8259), iterative/recursive descent on characters
# ----------------------------------------------------------------------------------------------
class _Bad(Exception):
    pass


_WS = " \t\n\r"


def _json_scan(s):
    """returns (max nesting depth, uses_nonstandard_token); raises _Bad if s is not one JSON value"""
    n = len(s)
    state = {"i": 0, "depth": 0, "maxdepth": 0, "nonstd": False}

    def ws():
        while state["i"] < n and s[state["i"]] in _WS:
            state["i"] += 1

    def string():
        i = state["i"] + 1
        while True:
            if i >= n:
                raise _Bad()
            c = s[i]
            if c == '"':
                state["i"] = i + 1
                return
            if ord(c) < 0x20:
                raise _Bad()
            if c == '\\':
                if i + 1 >= n:
                    raise _Bad()
                e = s[i + 1]
                if e in '"\\/bfnrt':
                    i += 2
                elif e == 'u':
                    h = s[i + 2:i + 6]
                    if len(h) != 4 or any(x not in HEX for x in h):
                        raise _Bad()
                    i += 6
                else:
                    raise _Bad()
            else:
                i += 1

    def number():
        i = state["i"]
        if i < n and s[i] == '-':
            i += 1
        if i >= n or s[i] not in DIGITS:
            raise _Bad()
        if s[i] == '0':
            i += 1
        else:
            while i < n and s[i] in DIGITS:
                i += 1
        if i < n and s[i] == '.':
            i += 1
            if i >= n or s[i] not in DIGITS:
                raise _Bad()
            while i < n and s[i] in DIGITS:
                i += 1
        if i < n and s[i] in 'eE':
            i += 1
            if i < n and s[i] in '+-':
                i += 1
            if i >= n or s[i] not in DIGITS:
                raise _Bad()
            while i < n and s[i] in DIGITS:
                i += 1
        state["i"] = i

    def value():
        ws()
        i = state["i"]
        if i >= n:
            raise _Bad()
        c = s[i]
        if c == '"':
            string()
        elif c == '{' or c == '[':
            state["depth"] += 1
            state["maxdepth"] = max(state["maxdepth"], state["depth"])
            if state["depth"] > 400:
                state["nonstd"] = True      # give up descending: verdict will be UNSPECIFIED anyway
                raise _Deep()
            close = '}' if c == '{' else ']'
            state["i"] = i + 1
            ws()
            if state["i"] < n and s[state["i"]] == close:
                state["i"] += 1
            else:
                while True:
                    if c == '{':
                        ws()
                        if state["i"] >= n or s[state["i"]] != '"':
                            raise _Bad()
                        string()
                        ws()
                        if state["i"] >= n or s[state["i"]] != ':':
                            raise _Bad()
                        state["i"] += 1
                    value()
                    ws()
                    if state["i"] >= n:
                        raise _Bad()
                    if s[state["i"]] == ',':
                        state["i"] += 1
                        continue
                    if s[state["i"]] == close:
                        state["i"] += 1
                        break
                    raise _Bad()
            state["depth"] -= 1
        elif s.startswith('true', i):
            state["i"] = i + 4
        elif s.startswith('false', i):
            state["i"] = i + 5
        elif s.startswith('null', i):
            state["i"] = i + 4
        elif s.startswith('NaN', i):
            state["nonstd"] = True
            state["i"] = i + 3
        elif s.startswith('Infinity', i):
            state["nonstd"] = True
            state["i"] = i + 8
        elif s.startswith('-Infinity', i):
            state["nonstd"] = True
            state["i"] = i + 9
        else:
            number()

    value()
    ws()
    if state["i"] != n:
        raise _Bad()
    return state["maxdepth"], state["nonstd"]


class _Deep(Exception):
    pass


def classify_json_text(s, limit):
    if not isinstance(s, str):
        raise TypeError("text form expects str")
    ascii_only = all(ord(c) < 128 for c in s)
    if len(s) > limit:
        return NON_MEMBER                     # too long in characters => too long in bytes as well
    try:
        depth, nonstd = _json_scan(s)
    except _Bad:
        return NON_MEMBER
    except _Deep:
        return UNSPEC
    if nonstd or depth > 100 or not ascii_only:
        return UNSPEC
    return MEMBER


def classify_json_object(default_len, compact_len, limit):
    """object form: lengths of the default and of the most compact JSON encodings of the object"""
    if default_len <= limit:
        return MEMBER
    return NON_MEMBER if compact_len > limit else UNSPEC


# ----------------------------------------------------------------------------------------------
# discriminators (which documented rule a NON-MEMBER breaks) and boundaries; used for signatures,
# labels and the non-triviality rule. None of them looks at anything but the value.
# ----------------------------------------------------------------------------------------------
def python_int_lenient(s):
    """True if s is NOT in numa's documented domain although Python's int() would read it as -1..7:
    surrounding white space, a '+' sign, '_' digit separators (hand-written reader of that syntax)."""
    if not isinstance(s, str) or _numa(s) != NON_MEMBER:
        return False
    t = s.strip(" \t\n\r\x0b\x0c")
    sign = 1
    if t[:1] in ('+', '-'):
        sign = -1 if t[0] == '-' else 1
        t = t[1:]
    if not t or t[0] == '_' or t[-1] == '_' or '__' in t:
        return False
    if any(c not in DIGITS + '_' for c in t):
        return False
    digits = [c for c in t if c != '_']
    if len(digits) > 1000:
        return False
    return -1 <= sign * _int(digits) <= 7


def miss_class(fmt, s):
    """coarse, data-free class of a NON-MEMBER string, used as signature discriminator"""
    if not isinstance(s, str):
        return "non-string"
    if fmt == 'numa':
        return "int-lenient" if python_int_lenient(s) else "other"
    if s.endswith('\n') and classify_str(fmt, s[:-1]) != NON_MEMBER:
        return "trailing-newline"
    return "other"


def edit1(a, b):
    """Levenshtein distance of exactly 1"""
    if not isinstance(a, str) or not isinstance(b, str) or a == b or abs(len(a) - len(b)) > 1:
        return False
    if len(a) > len(b):
        a, b = b, a
    i = 0
    while i < len(a) and a[i] == b[i]:
        i += 1
    if len(a) == len(b):
        return a[i + 1:] == b[i + 1:]
    return a[i:] == b[i + 1:]


def is_boundary(fmt, s):
    """member sitting on a documented boundary (number range end, length limit, group count limit)"""
    if not isinstance(s, str):
        return False
    if fmt in CLASS_FORMATS:
        _, lo, hi = CLASS_FORMATS[fmt]
        return len(s) in (lo, hi)
    if fmt in ('vlan', 'inner_vlan'):
        return s.lstrip('0') in ('', '1', '4095', '4096') or len(s) == 4
    if fmt == 'asn':
        return s.lstrip('0') in ('1', '4294967295', '4294967294')
    if fmt == 'numa':
        return s in ('-1', '0', '7')
    if fmt == 'vlan_range':
        a, _, b = s.partition('-')
        return a.lstrip('0') == b.lstrip('0') or a.lstrip('0') == '' or b == '4096'
    if fmt in ('ipv4', 'ipv4_range', 'ipv4_subnet'):
        octs = s.replace('-', '.').split('/')[0].split('.')
        return any(o in ('0', '255', '250', '249', '200', '199', '100', '99', '10', '9') for o in octs) or \
            ('/' in s and s.split('/')[1] in ('0', '9', '10', '99'))
    if fmt in ('ipv6', 'ipv6_range', 'ipv6_subnet'):
        return any(len(a.split(':')) in (1, 8) for a in s.split('/')[0].split('-'))
    if fmt == 'bdf':
        return len(s.split(':')[0]) in (1, 4)
    if fmt in ('mac', 'usb_id'):
        return s == s.lower() or s == s.upper()
    return False


# ----------------------------------------------------------------------------------------------
# generators
# ----------------------------------------------------------------------------------------------
def _txt(alphabet, lo, hi):
    return st.text(alphabet=alphabet, min_size=lo, max_size=hi)


@st.composite
def _cyc(draw, alphabet, length):
    """a string of the given length over the alphabet; long ones repeat a short random unit (cheap to draw)"""
    if length <= 0:
        return ""
    if length <= 12:
        return draw(st.text(alphabet=alphabet, min_size=length, max_size=length))
    unit = draw(st.text(alphabet=alphabet, min_size=1, max_size=8))
    return (unit * (length // len(unit) + 1))[:length]


@st.composite
def _sized(draw, alphabet, lo, hi):
    """lengths at min, max and in between"""
    length = draw(st.one_of(st.sampled_from([lo, hi, lo + 1, hi - 1]), st.integers(lo, min(hi, lo + 12)),
                            st.integers(lo, hi)))
    return draw(_cyc(alphabet, length))


_OCT = st.one_of(st.sampled_from([0, 9, 10, 99, 100, 199, 200, 249, 250, 255]), st.integers(0, 255))


@st.composite
def _ipv4_s(draw):
    octs = [str(v) for v in draw(st.lists(_OCT, min_size=4, max_size=4))]
    z = draw(st.integers(0, 39))
    if z < 4 and len(octs[z]) < 3:          # leading zeros are admitted by the pattern
        octs[z] = octs[z].rjust(2 + z % 2, '0')
    return '.'.join(octs)


@st.composite
def _ipv6_s(draw):
    mode = draw(st.integers(0, 3))
    if mode == 0:
        return ':'.join(draw(_txt(HEX, 4, 4)) for _ in range(8))
    if mode == 1:
        return draw(st.sampled_from(['::1', '2001:db8::', 'fe80::1', '::', '2001:db8::8a2e:370:7334', 'a']))
    k = draw(st.integers(1, 8))
    return ':'.join(draw(_txt(HEX, 0, 4)) for _ in range(k))


_VLAN = st.one_of(st.sampled_from([0, 1, 2, 4095, 4096]), st.integers(0, 4096))


@st.composite
def _vlan_s(draw):
    s = str(draw(_VLAN))
    if draw(st.integers(0, 7)) == 0:
        s = s.rjust(draw(st.integers(len(s), 4)), '0')
    return s


@st.composite
def member(draw, fmt):
    """a MEMBER string of the format (validated label field, 'tag', 'name:<cls>', or a free field)"""
    if fmt == 'bdf':
        sep = draw(st.sampled_from(['.', '.', '.', '.', ':', ' ', 'x', '-']))
        return f"{draw(_txt(HEX, 1, 4))}:{draw(_txt(HEX, 2, 2))}:{draw(_txt(HEX, 2, 2))}{sep}{draw(_txt(HEX, 1, 3))}"
    if fmt == 'mac':
        return ':'.join(draw(_txt(draw(st.sampled_from([HEX, HEXL])), 2, 2)) for _ in range(6))
    if fmt == 'ipv4':
        return draw(_ipv4_s())
    if fmt == 'ipv4_range':
        return draw(_ipv4_s()) + '-' + draw(_ipv4_s())
    if fmt == 'ipv4_subnet':
        return draw(_ipv4_s()) + '/' + draw(st.one_of(st.sampled_from(['0', '8', '24', '32', '99', '00', '09']),
                                                          st.integers(0, 99).map(str)))
    if fmt == 'ipv6':
        return draw(_ipv6_s())
    if fmt == 'ipv6_range':
        return draw(_ipv6_s()) + '-' + draw(_ipv6_s())
    if fmt == 'ipv6_subnet':
        return draw(_ipv6_s()) + '/' + draw(st.one_of(st.sampled_from(['0', '48', '64', '99']),
                                                          st.integers(0, 99).map(str)))
    if fmt == 'asn':
        v = draw(st.one_of(st.sampled_from([1, 2, 65535, 65536, 2 ** 31, 2 ** 32 - 2, 2 ** 32 - 1]),
                           st.integers(1, 2 ** 32 - 1)))
        s = str(v)
        return ('0' * draw(st.integers(1, 3)) + s) if draw(st.integers(0, 9)) == 0 else s
    if fmt in ('vlan', 'inner_vlan'):
        return draw(_vlan_s())
    if fmt == 'vlan_range':
        a, b = draw(_VLAN), draw(_VLAN)
        a, b = min(a, b), max(a, b)
        return f"{a}-{b}"
    if fmt == 'numa':
        return str(draw(st.sampled_from([-1, 0, 7, 1, 2, 3, 4, 5, 6])))
    if fmt == 'usb_id':
        return draw(_txt(HEXL, 4, 4)) + ':' + draw(_txt(HEXL, 4, 4))
    if fmt in CLASS_FORMATS:
        alphabet, lo, hi = CLASS_FORMATS[fmt]
        return draw(_sized(alphabet, lo, hi))
    if fmt in FREE_FIELDS:
        return draw(st.one_of(_txt(WORD + "-. /:", 0, 12), st.text(max_size=8)))
    raise KeyError(fmt)


JUNK = [' ', '\n', '\t', '@', 'g', 'G', '-', ':', '.', '/', '+', '_', '0', '9', 'a', 'F', '٣', 'é',
        '\r', '\x00', '$', '#', '!', ' ', ',']

# field specific near misses (Appendix D): fmt -> list of (class, strategy of string)
_N = st.integers


def _specific(fmt):
    S = st.sampled_from
    if fmt in ('vlan', 'inner_vlan'):
        return [("range", S(['4097', '4098', '5000', '9999', '-1', '-0'])), ("length", S(['10000', '00000', '04096'])),
                ("format", S(['1.5', '1e3', '0x10', '+5', ' 5', '5 ', '1_0', '']))]
    if fmt == 'asn':
        return [("range", S(['0', '00', str(2 ** 32), str(2 ** 32 + 1), str(2 ** 64), '-1'])),
                ("format", S(['1.5', ' 5', '5 ', '+5', '1_0', '', 'AS1', '1e3']))]
    if fmt == 'numa':
        return [("range", S(['-2', '8', '9', '10', '-10', '255'])),
                ("int-lenient", S([' 3', '+3', '0_3', '3\n', '3 ', '\t3', '+0', ' -1', '-1\n', '0_7', '+7', '\n7'])),
                ("format", S(['x', '', '-', '+', '1.0', '0x3', '3.', 'None', '--1', '_3', '3_']))]
    if fmt == 'vlan_range':
        return [("order", st.tuples(_N(1, 4096), _N(1, 4096)).map(lambda t: f"{max(t)}-{min(t) - 1}")),
                ("range", S(['1-4097', '4096-4097', '0-9999', '4097-4098'])),
                ("format", S(['1-', '-2', '1-2-3', '1 - 2', '1 -2', '1- 2', '1', '-', '', '1--2', '1:2', '1-2 ',
                              '10000-10001', '1-10000']))]
    if fmt in ('ipv4', 'ipv4_range', 'ipv4_subnet'):
        bad = S(['256.1.1.1', '1.1.1.256', '1.300.1.1', '1.1.999.1', '1.1.1', '1.1.1.1.1', '1..1.1', '.1.1.1',
                 '1.1.1.', '1.1.1.1000', '1,1,1,1', '1.1.1.a', '1.1.1.-1', '1.1.1.1 ', ' 1.1.1.1', '260.0.0.0', ''])
        out = [("address", bad if fmt == 'ipv4' else
                bad.map(lambda b: b + ('-10.0.0.1' if fmt == 'ipv4_range' else '/24')))]
        if fmt == 'ipv4_range':
            out.append(("format", S(['10.0.0.1-', '-10.0.0.1', '10.0.0.1', '10.0.0.1-10.0.0.2-10.0.0.3',
                                     '10.0.0.1 - 10.0.0.2', '10.0.0.1--10.0.0.2', '10.0.0.1/24', '10.0.0.1-10.0.0.256'])))
        if fmt == 'ipv4_subnet':
            out.append(("format", S(['10.0.0.0/', '10.0.0.0/123', '10.0.0.0/x', '10.0.0.0', '/24', '10.0.0.0/-1',
                                     '10.0.0.0/2 4', '10.0.0.0//24', '10.0.0.0/24/1', '10.0.0.0\\24', '10.0.0.0/100'])))
        return out
    if fmt in ('ipv6', 'ipv6_range', 'ipv6_subnet'):
        bad = S(['1:2:3:4:5:6:7:8:9', '12345::1', '2001:db8::g', '2001:db8:::12345', '::1 ', ' ::1', '1.2.3.4',
                 '2001;db8::1', '::fffff', '1:2:3:4:5:6:7:8:', 'fe80::1%eth0'])
        out = [("address", bad if fmt == 'ipv6' else
                bad.map(lambda b: b + ('-::2' if fmt == 'ipv6_range' else '/64')))]
        if fmt == 'ipv6_range':
            out.append(("format", S(['::1-', '::1--::2', '::1-::2-::3', '::1 - ::2', '::1/64', '::1-::g'])))
        if fmt == 'ipv6_subnet':
            out.append(("format", S(['2001:db8::/', '2001:db8::/123', '2001:db8::/x', '2001:db8::/-1',
                                     '2001:db8:://48', '2001:db8::/4 8', '2001:db8::/48/1', '2001:db8::/128'])))
        return out
    if fmt == 'mac':
        return [("groups", S(['00:11:22:33:44', '00:11:22:33:44:55:66', '00:11:22:33:44:', ':00:11:22:33:44:55'])),
                ("format", S(['00-11-22-33-44-55', '0:11:22:33:44:55', '000:11:22:33:44:55', '00:11:22:33:44:5g',
                              '00:11:22:33:44:5', '0011.2233.4455', '001122334455', '00:11:22:33:44:55 ',
                              '00::11:22:33:44:55', '']))]
    if fmt == 'bdf':
        return [("groups", S(['00:00.0', '0000:00:00', '0000:00:00.', '00000:00:00.0', '0000:0:00.0', '0000:000:00.0',
                              '0000:00:0.0', '0000:00:000.0', ':00:00.0', '0000:00:00.0:1'])),
                ("format", S(['0000:00:00.g', '000g:00:00.0', ' 0000:00:00.0', '0000:00:00\n0', '0000:00:00.0 ',
                              '0000-00-00.0', '0000:00:00.0x', '']))]
    if fmt == 'usb_id':
        return [("format", S(['1234:ABCD', 'ABCD:1234', '123:abcd', '1234:abc', '12345:abcd', '1234:abcde',
                              '1234abcd', '1234-abcd', '1234:abcd:', '1234::abcd', '1234:abcg', '', ' 1234:abcd']))]
    if fmt in CLASS_FORMATS:
        alphabet, lo, hi = CLASS_FORMATS[fmt]
        bad = [c for c in [' ', '@', '!', '$', '#', ',', ';', '\\', '"', "'", '(', '*', '+', '/', ':', '.', '~', '=']
               if c not in alphabet]
        return [("too-short", _cyc(alphabet, lo - 1)), ("too-long", _cyc(alphabet, hi + 1)),
                ("too-long", st.integers(hi + 2, hi + 40).flatmap(lambda n: _cyc(alphabet, n))),
                ("forbidden-char", st.tuples(_txt(alphabet, lo, 20), S(bad), _N(0, 20)).map(
                    lambda t: t[0][:t[2] % (len(t[0]) + 1)] + t[1] + t[0][t[2] % (len(t[0]) + 1):]))]
    return []


NON_STRINGS = [None, 0, 3, -1, 1.5, True, False, {}, {"a": "1"}]


@st.composite
def candidate(draw, fmt, p_member=35):
    """returns {"value":..., "nm": near-miss class or "member", "base": member at edit distance 1 or None};
    p_member = percentage of plain members"""
    r = draw(st.integers(0, 99))
    base = draw(member(fmt))
    if r < p_member:
        return {"value": base, "nm": "member", "base": None}
    kind = draw(st.sampled_from(["trailing-newline", "trailing-newline", "edit-insert", "edit-insert", "edit-delete",
                                 "edit-replace", "leading-blank", "trailing-blank", "embedded-newline", "trailing-text",
                                 "empty", "non-string", "specific", "specific", "specific", "specific", "doubled",
                                 "crlf"]))
    if kind == "trailing-newline":
        return {"value": base + "\n", "nm": kind, "base": base}
    if kind == "leading-blank":
        return {"value": " " + base, "nm": kind, "base": base}
    if kind == "trailing-blank":
        return {"value": base + draw(st.sampled_from([" ", "\t"])), "nm": kind, "base": base}
    if kind == "embedded-newline":
        i = draw(st.integers(0, len(base)))
        return {"value": base[:i] + "\n" + base[i:], "nm": kind, "base": base}
    if kind == "trailing-text":
        return {"value": base + draw(st.sampled_from(["x", "0", ";", "\n\n", " x", "\nx", "\n0"])), "nm": kind,
                "base": None}
    if kind == "crlf":
        return {"value": base + "\r\n", "nm": kind, "base": None}
    if kind == "doubled":
        return {"value": base + base, "nm": kind, "base": None}
    if kind == "empty":
        return {"value": "", "nm": kind, "base": None}
    if kind == "non-string":
        return {"value": draw(st.sampled_from(NON_STRINGS)), "nm": kind, "base": None}
    if kind == "edit-insert":
        i = draw(st.integers(0, len(base)))
        c = draw(st.sampled_from(JUNK))
        return {"value": base[:i] + c + base[i:], "nm": kind, "base": base}
    if kind == "edit-delete" and base:
        i = draw(st.integers(0, len(base) - 1))
        return {"value": base[:i] + base[i + 1:], "nm": kind, "base": base}
    if kind == "edit-replace" and base:
        i = draw(st.integers(0, len(base) - 1))
        c = draw(st.sampled_from(JUNK))
        return {"value": base[:i] + c + base[i + 1:], "nm": kind, "base": base}
    spec = _specific(fmt)
    if spec:
        cls, strat = draw(st.sampled_from(spec))
        return {"value": draw(strat), "nm": "specific-" + cls, "base": None}
    return {"value": base + "\n", "nm": "trailing-newline", "base": base}
