"""
E1: value strategies.

xml_text(): text over XML-1.0-legal characters with boosted "hard" classes (quotes, markup characters, non-ASCII,
leading/trailing blanks, empty, tabs/newlines).  '\\r' is excluded: XML 1.0 §2.11 end-of-line normalisation is done
by every conformant parser and the writer is networkx's, so its loss is not fim behaviour (DESIGN.md §C01).
"""
from hypothesis import strategies as st

# XML 1.0 Char ::= #x9 | #xA | #xD | [#x20-#xD7FF] | [#xE000-#xFFFD] | [#x10000-#x10FFFF]
_xml_chars = st.one_of(
    st.sampled_from(list("<>&\"'")),
    st.sampled_from(list(" \t\n")),
    st.characters(min_codepoint=0x20, max_codepoint=0x7E),
    st.characters(min_codepoint=0xA0, max_codepoint=0xD7FF, blacklist_categories=("Cs",)),
    st.characters(min_codepoint=0xE000, max_codepoint=0xFFFD),
    st.characters(min_codepoint=0x10000, max_codepoint=0x1FFFF),
    st.sampled_from(list("é漢字ñ🙂")),
)

_hard_fixed = ["", " ", " x ", "\tx", "x\n", "a<b", "a&b", "a&amp;b", "<![CDATA[x]]>", "]]>", "\"q\"", "'q'",
               "12", "-7", "0", "1.5", "true", "None", "null", "é", "漢字", "🙂", "a\nb", "<!--c-->", "&#10;",
               "x" * 300]


def xml_text(min_size=0, max_size=12):
    base = st.text(_xml_chars, min_size=min_size, max_size=max_size)
    fixed = st.sampled_from([s for s in _hard_fixed if len(s) >= min_size])
    return st.one_of(base, base, fixed)


def is_hard_text(s):
    return (s == "" or s != s.strip() or any(c in s for c in "<>&\"'") or any(ord(c) > 0x7E for c in s)
            or "\n" in s or "\t" in s)


big_ints = st.one_of(st.integers(-2 ** 70, 2 ** 70), st.sampled_from([0, 1, -1, 2 ** 31, 2 ** 63, -2 ** 63 - 1, 2 ** 70]),
                     st.integers(-20, 20))

ident = st.from_regex(r"[A-Za-z_][A-Za-z0-9_]{0,10}", fullmatch=True)
